package main

import (
	"encoding/json"
	"flag"
	"fmt"
	"os"
	"path/filepath"
	"strings"
	"time"

	"verif/engine/drive"
	"verif/engine/interp"
)

func main() {
	if len(os.Args) < 2 {
		fmt.Fprintln(os.Stderr, "usage: gosym run|check|replay|selftest ...")
		os.Exit(2)
	}
	switch os.Args[1] {
	case "run":
		cmdRun(os.Args[2:])
	case "check":
		exit(drive.CmdCheck(os.Args[2:]))
	case "replay":
		exit(drive.CmdReplay(os.Args[2:]))
	case "selftest":
		exit(drive.CmdSelftest(os.Args[2:]))
	default:
		fmt.Fprintln(os.Stderr, "unknown command", os.Args[1])
		os.Exit(2)
	}
}

// exit removes this process's scratch copies of the harness API file first.
func exit(rc int) {
	ms, _ := filepath.Glob(filepath.Join(os.TempDir(), fmt.Sprintf("gosym-api-*-%d.go", os.Getpid())))
	for _, m := range ms {
		os.Remove(m)
	}
	os.Exit(rc)
}

func cmdRun(args []string) {
	fs := flag.NewFlagSet("run", flag.ExitOnError)
	pkg := fs.String("pkg", "fasthttp", "harness dir")
	harness := fs.String("harness", "", "harness function name(s), comma separated")
	solver := fs.String("solver", "z3-new", "z3|z3-new|cvc5")
	workers := fs.Int("workers", 16, "parallel workers")
	arch := fs.String("arch", "amd64", "amd64|386")
	timeout := fs.Int("qtimeout", 10000, "per-query timeout ms")
	pathCap := fs.Int("pathcap", 200000, "max paths")
	debug := fs.Bool("debug", false, "propagate engine panics")
	paramStr := fs.String("param", "", "k=v,k=v vParam values")
	nomerge := fs.Bool("nomerge", false, "disable if-conversion")
	knownStr := fs.String("known", "", "comma separated known-finding ids treated as active")
	race := fs.Bool("race", false, "happens-before data-race detection")
	fs.Parse(args)
	t0 := time.Now()
	ld, err := drive.Load([]string{*pkg}, *arch)
	if err != nil {
		fmt.Fprintln(os.Stderr, "load:", err)
		os.Exit(2)
	}
	fmt.Fprintf(os.Stderr, "loaded in %.1fs\n", time.Since(t0).Seconds())
	sp := ld.Pkgs[*pkg]
	params := map[string]int{}
	for _, kv := range strings.Split(*paramStr, ",") {
		if i := strings.IndexByte(kv, '='); i > 0 {
			n := 0
			fmt.Sscanf(kv[i+1:], "%d", &n)
			params[kv[:i]] = n
		}
	}
	rc := 0
	for _, h := range strings.Split(*harness, ",") {
		fn := sp.Func(h)
		if fn == nil {
			fmt.Fprintln(os.Stderr, "no such harness:", h)
			os.Exit(2)
		}
		st, err := interp.Explore(ld.Prog, fn, interp.ExploreOpts{
			Workers: *workers, Solver: *solver, TimeoutMs: *timeout, WordBits: ld.WordBits,
			InitPkg: sp, PathCap: *pathCap, Debug: *debug,
			Progress: true,
			Setup: func(it *interp.Interp) { it.InitAllow = drive.DefaultInitAllow; it.Params = params; it.NoMerge = *nomerge
				if *race {
					it.RaceOn()
				}
				it.Known = map[string]bool{}
				for _, k := range strings.Split(*knownStr, ",") {
					if k != "" {
						it.Known[k] = true
					}
				}
			},
		})
		if err != nil {
			fmt.Fprintln(os.Stderr, "explore:", err)
			os.Exit(2)
		}
		out := map[string]interface{}{
			"harness": h, "paths": st.Paths, "status": st.ByStatus, "steps": st.Steps,
			"asserts": st.Asserts, "discharged": st.Discharged, "undecided": countStrings(st.Undecided),
			"violations": st.Violations, "problems": st.Problems, "queries": st.Queries,
			"solver_s": st.SolverTime.Seconds(), "wall_s": st.Wall.Seconds(), "capped": st.Capped,
			"nontrivial": st.Nontrivial, "samples": st.Samples, "reached": st.Reached, "max_decisions": st.MaxDecisions,
		}
		b, _ := json.MarshalIndent(out, "", " ")
		fmt.Println(string(b))
		if len(st.Violations) > 0 || len(st.Problems) > 0 {
			rc = 1
		}
	}
	os.Exit(rc)
}

func countStrings(xs []string) map[string]int {
	m := map[string]int{}
	for _, x := range xs {
		m[x]++
	}
	return m
}
