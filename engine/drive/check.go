package drive

import (
	"encoding/json"
	"fmt"
	"os"
	"os/exec"
	"path/filepath"
	"sort"
	"strconv"
	"strings"
	"time"

	"golang.org/x/tools/go/ssa"

	"verif/engine/interp"
)

// Run is one harness exploration inside a property check.
type Run struct {
	Pkg      string         // harness dir ("fasthttp", "fasthttputil", ...)
	Func     string         // harness function
	Arch     string         // "" = amd64
	Quick    map[string]int // vParam values
	Thorough map[string]int
	PathCap  int
	QuickOnly, ThoroughOnly bool
	Steps    int
	Reach    []string // vReach ids that must be hit (besides every assert)
	Note     string
	NoNative bool // sampled paths are not re-run natively (schedule choices / virtual time are not reproducible on the real runtime)
	Race     bool // happens-before data-race detection on every path (interp/race.go)
	Modelled bool // part of the environment is an engine-level model (e.g. crypto/tls): samples are still validated natively, but a counterexample that only exists under the model is reported as found
}

type Property struct {
	ID     string
	Runs   []Run
	Assume []string // assumptions / stubs recorded in the evidence
	Units  []string // substrings selecting the functions listed as "encoded"
}

var registry = map[string]*Property{}

func register(p *Property) { registry[p.ID] = p }

type KnownFinding struct {
	Property string            `json:"property"`
	ID       string            `json:"id"`
	Status   string            `json:"status"` // "known" | "fixed"
	Commit   string            `json:"commit,omitempty"`
	What     string            `json:"what"`
	Harness  string            `json:"harness,omitempty"`
	Pkg      string            `json:"pkg,omitempty"`
	Witness  *interp.Violation `json:"witness,omitempty"`
	Params   map[string]int    `json:"params,omitempty"`
}

func loadKnown() ([]KnownFinding, error) {
	b, err := os.ReadFile(filepath.Join(VerifDir, "known_findings.json"))
	if err != nil {
		if os.IsNotExist(err) {
			return nil, nil
		}
		return nil, err
	}
	var k []KnownFinding
	if err := json.Unmarshal(b, &k); err != nil {
		return nil, fmt.Errorf("known_findings.json: %w", err)
	}
	return k, nil
}

type replayFile struct {
	Harness string            `json:"harness"`
	Pkg     string            `json:"pkg"`
	Assert  string            `json:"assert"`
	Msg     string            `json:"msg,omitempty"`
	Inputs  []interp.InputVal `json:"inputs"`
	Params  map[string]int    `json:"params,omitempty"`
	Known   []string          `json:"known,omitempty"`
	Notes   []string          `json:"notes,omitempty"`
	Batch   []replayCase      `json:"batch,omitempty"`
}

type replayCase struct {
	Harness string            `json:"harness"`
	Inputs  []interp.InputVal `json:"inputs"`
	Params  map[string]int    `json:"params,omitempty"`
}

// CmdCheck: gosym check <ID> <quick|thorough>
func CmdCheck(args []string) int {
	if len(args) < 2 {
		fmt.Fprintln(os.Stderr, "usage: gosym check <ID> <quick|thorough> [-solver s] [-workers n]")
		return 2
	}
	id, tier := args[0], args[1]
	defer func() {
		// scratch copies of the harness API file written by HarnessFiles
		ms, _ := filepath.Glob(filepath.Join(os.TempDir(), fmt.Sprintf("gosym-api-*-%d.go", os.Getpid())))
		for _, m := range ms {
			os.Remove(m)
		}
	}()
	solver := "z3-new"
	workers := 16
	only := ""
	for i := 2; i+1 < len(args); i += 2 {
		switch args[i] {
		case "-solver":
			solver = args[i+1]
		case "-workers":
			workers, _ = strconv.Atoi(args[i+1])
		case "-only":
			only = args[i+1]
		}
	}
	p := registry[id]
	if p == nil {
		fmt.Fprintf(os.Stderr, "no checks registered for %s\n", id)
		return 2
	}
	seed := 0
	if s := os.Getenv("VERIF_SEED"); s != "" {
		seed, _ = strconv.Atoi(s)
	}
	t0 := time.Now()
	known, err := loadKnown()
	if err != nil {
		fmt.Fprintln(os.Stderr, err)
		return 2
	}
	// --- known findings: replay witnesses natively
	activeKnown := map[string]bool{}
	var knownLines []string
	for _, k := range known {
		if k.Property != id || k.Status != "known" || k.Witness == nil {
			continue
		}
		rf := replayFile{Harness: k.Harness, Pkg: k.Pkg, Assert: k.Witness.Assert, Inputs: k.Witness.Inputs, Params: k.Params}
		path := filepath.Join(OutDir, "replays", id, "known-"+k.ID+".json")
		if err := writeJSON(path, rf); err != nil {
			fmt.Fprintln(os.Stderr, err)
			return 2
		}
		res, out := nativeReplay(path, k.Pkg)
		switch res {
		case "confirmed":
			activeKnown[k.ID] = true
			line := fmt.Sprintf("KNOWN-FINDING: property=%s %s", id, k.What)
			knownLines = append(knownLines, line)
			fmt.Println(line)
		case "passed":
			fmt.Printf("note: known finding %s no longer reproduces; its exclusion is not applied\n", k.ID)
		default:
			fmt.Fprintf(os.Stderr, "known-finding witness %s: replay inconclusive (%s)\n%s\n", k.ID, res, out)
			return 3
		}
	}

	// --- load once per (pkg set, arch)
	type key struct{ arch string }
	loaded := map[string]*Loaded{}
	getLoaded := func(pkg, arch string) (*Loaded, error) {
		k := pkg + "/" + arch
		if l, ok := loaded[k]; ok {
			return l, nil
		}
		l, err := Load([]string{pkg}, arch)
		if err != nil {
			return nil, err
		}
		loaded[k] = l
		return l, nil
	}

	ev := newEvidence(id, tier, seed)
	ev.Coverage["solver"] = solver
	ev.Assumptions = append([]string{
		"go/packages + go/ssa (x/tools v0.29.0) translate /repo's working tree faithfully",
		"the gosym interpreter implements SSA semantics (checked by `gosym selftest` conformance programs and by native replay of every counterexample)",
		"intrinsics/stubs of DESIGN.md §3.5 (bytealg, sync, atomic, time, fmt, log) behave per their documented contracts",
		"claims hold only within the bounds listed under coverage.runs[].bounds",
	}, p.Assume...)
	rc := 0
	var violationLines []string
	var problems []string
	var batch []replayCase
	batchPkg := ""
	for _, r := range p.Runs {
		if (tier == "quick" && r.ThoroughOnly) || (tier == "thorough" && r.QuickOnly) {
			continue
		}
		if only != "" && r.Func != only {
			continue
		}
		arch := r.Arch
		if arch == "" {
			arch = "amd64"
		}
		ld, err := getLoaded(r.Pkg, arch)
		if err != nil {
			fmt.Fprintln(os.Stderr, "load:", err)
			return 2
		}
		sp := ld.Pkgs[r.Pkg]
		fn := sp.Func(r.Func)
		if fn == nil {
			fmt.Fprintf(os.Stderr, "harness %s not found in %s\n", r.Func, r.Pkg)
			return 2
		}
		params := r.Quick
		qt := 10000
		if tier == "thorough" {
			params = r.Thorough
			if params == nil {
				params = r.Quick
			}
			qt = 60000
		}
		knownIDs := []string{}
		for k := range activeKnown {
			knownIDs = append(knownIDs, k)
		}
		sort.Strings(knownIDs)
		st, err := interp.Explore(ld.Prog, fn, interp.ExploreOpts{
			Workers: workers, Solver: solver, TimeoutMs: qt, WordBits: ld.WordBits,
			InitPkg: sp, PathCap: r.PathCap, StepBudget: r.Steps,
			Setup: func(it *interp.Interp) {
				it.InitAllow = DefaultInitAllow
				it.Params = params
				it.Known = activeKnown
				if r.Race {
					it.RaceOn()
				}
			},
		})
		if err != nil {
			fmt.Fprintf(os.Stderr, "%s: %v\n", r.Func, err)
			problems = append(problems, r.Func+": "+err.Error())
			continue
		}
		label := r.Func
		if arch != "amd64" {
			label += "@" + arch
		}
		ev.addRun(label, params, st, p.Units)
		if arch == "amd64" && !r.NoNative && len(st.Violations) == 0 && (batchPkg == "" || batchPkg == r.Pkg) {
			batchPkg = r.Pkg
			for _, sm := range st.Samples {
				batch = append(batch, replayCase{Harness: r.Func, Inputs: sm, Params: params})
			}
		}
		fmt.Printf("%-40s paths=%d asserts=%d discharged=%d undecided=%d violations=%d problems=%d  %.1fs (solver %.1fs)\n",
			label, st.Paths, sumMap(st.Asserts), st.Discharged, len(st.Undecided), len(st.Violations), len(st.Problems), st.Wall.Seconds(), st.SolverTime.Seconds())
		// vacuity: every assert id seen in the source must have been evaluated
		for _, want := range harnessAssertIDs(fn) {
			if st.Asserts[want] == 0 && len(st.Violations) == 0 {
				problems = append(problems, fmt.Sprintf("%s: VACUOUS assertion %q never reached", label, want))
			}
		}
		for _, want := range r.Reach {
			if !st.Reached[want] && len(st.Violations) == 0 {
				problems = append(problems, fmt.Sprintf("%s: VACUOUS reach marker %q never hit", label, want))
			}
		}
		if st.Paths == 0 || (sumMap(st.Asserts) == 0 && len(st.Violations) == 0) {
			problems = append(problems, label+": VACUOUS no assertion evaluated")
		}
		for _, pr := range st.Problems {
			problems = append(problems, label+": "+pr)
		}
		if len(st.Undecided) > 0 {
			problems = append(problems, fmt.Sprintf("%s: %d assertion queries undecided (solver unknown/timeout)", label, len(st.Undecided)))
		}
		if st.Capped && len(st.Violations) == 0 {
			problems = append(problems, label+": path cap / deadline reached before the search space was closed (bound too large)")
		}
		// violations: replay natively
		seen := map[string]bool{}
		for i, v := range st.Violations {
			if seen[v.Assert] && i > 0 {
				continue
			}
			seen[v.Assert] = true
			v.Harness = r.Func
			rf := replayFile{Harness: r.Func, Pkg: r.Pkg, Assert: v.Assert, Msg: v.Msg, Inputs: v.Inputs, Params: params, Known: knownIDs, Notes: v.Notes}
			path := filepath.Join(OutDir, "replays", id, fmt.Sprintf("%s-%s-%d.json", label, sanitizeFile(v.Assert), i))
			if err := writeJSON(path, rf); err != nil {
				fmt.Fprintln(os.Stderr, err)
				return 2
			}
			if arch != "amd64" {
				// 32-bit counterexamples cannot be replayed on this host's toolchain
				// without a 386 runtime; report them as unconfirmed-by-replay violations.
				res, out := nativeReplayArch(path, r.Pkg, "386")
				handleReplay(&rc, &violationLines, &problems, ev, id, path, label, v, res, out)
				continue
			}
			res, out := nativeReplay(path, r.Pkg)
			if (r.NoNative || r.Modelled) && res != "confirmed" {
				// schedule-dependent or stub/model-based harness: the real runtime
				// cannot be forced onto the symbolic schedule, and the stubs do not
				// exist natively, so the solver's path through the real code's SSA
				// is reported as it is (the replay file records the inputs).
				fmt.Printf("  counterexample for %s/%s found by the engine on the real code's SSA (native run under the real scheduler / without the model: %s): %s\n", label, v.Assert, res, summarizeInputs(v.Inputs))
				res = "engine"
				if v.Msg != "" {
					fmt.Printf("    %s\n", v.Msg)
				}
			}
			handleReplay(&rc, &violationLines, &problems, ev, id, path, label, v, res, out)
		}
	}
	// translator validation: sampled symbolic paths re-run natively against
	// the real build; every assertion must hold there too and every input
	// must be consumed in the same order.
	if len(batch) > 0 && os.Getenv("VERIF_NO_NATIVE_SAMPLES") == "" {
		path := filepath.Join(OutDir, "replays", id, "samples-"+tier+".json")
		if err := writeJSON(path, replayFile{Harness: "batch", Pkg: batchPkg, Batch: batch, Known: sortedKeys(activeKnown)}); err != nil {
			fmt.Fprintln(os.Stderr, err)
			return 2
		}
		_, out := nativeReplay(path, batchPkg)
		pass, fail := -1, -1
		for _, l := range strings.Split(out, "\n") {
			if strings.HasPrefix(l, "VERIF-BATCH: ") {
				fmt.Sscanf(l, "VERIF-BATCH: passed=%d failed=%d", &pass, &fail)
			}
			if strings.HasPrefix(l, "VERIF-BATCH-FAIL") {
				problems = append(problems, "engine/native disagreement on a sampled path: "+l)
			}
		}
		if pass < 0 {
			problems = append(problems, "native validation of sampled paths did not run: "+lastLines(out, 5))
		} else {
			ev.validated = pass
			fmt.Printf("native validation of sampled paths: %d passed, %d failed\n", pass, fail)
		}
	}
	ev.KnownFindings = knownLines
	ev.Problems = problems
	ev.finish(time.Since(t0), len(violationLines))
	if err := ev.write(); err != nil {
		fmt.Fprintln(os.Stderr, "evidence:", err)
		return 2
	}
	for _, l := range violationLines {
		fmt.Println(l)
	}
	if rc == 1 {
		return 1
	}
	if len(problems) > 0 {
		for _, pr := range problems {
			fmt.Println("INCONCLUSIVE:", pr)
		}
		return 3
	}
	fmt.Printf("OK property=%s tier=%s wall=%.1fs\n", id, tier, time.Since(t0).Seconds())
	return 0
}

func handleReplay(rc *int, lines *[]string, problems *[]string, ev *Evidence, id, path, label string, v interp.Violation, res, out string) {
	switch res {
	case "confirmed":
		*rc = 1
		*lines = append(*lines, fmt.Sprintf("VIOLATION property=%s replay=%s", id, path))
		fmt.Printf("  counterexample for %s/%s confirmed natively: %s\n", label, v.Assert, summarizeInputs(v.Inputs))
	case "engine":
		*rc = 1
		*lines = append(*lines, fmt.Sprintf("VIOLATION property=%s replay=%s", id, path))
	case "passed":
		*problems = append(*problems, fmt.Sprintf("%s: UNCONFIRMED counterexample for %q (native replay passes; engine/stub artefact): %s", label, v.Assert, path))
		ev.Unconfirmed++
	default:
		*problems = append(*problems, fmt.Sprintf("%s: replay of %q inconclusive (%s): %s", label, v.Assert, res, lastLines(out, 5)))
	}
}

func sortedKeys(m map[string]bool) []string {
	var out []string
	for k := range m {
		out = append(out, k)
	}
	sort.Strings(out)
	return out
}

func lastLines(s string, n int) string {
	ls := strings.Split(strings.TrimSpace(s), "\n")
	if len(ls) > n {
		ls = ls[len(ls)-n:]
	}
	return strings.Join(ls, " | ")
}

func summarizeInputs(in []interp.InputVal) string {
	var parts []string
	for _, i := range in {
		switch i.Kind {
		case "bytes":
			b := make([]byte, len(i.Bytes))
			for k, x := range i.Bytes {
				b[k] = byte(x)
			}
			parts = append(parts, fmt.Sprintf("%s=%q", i.Name, b))
		default:
			parts = append(parts, fmt.Sprintf("%s=%d", i.Name, i.Int))
		}
	}
	s := strings.Join(parts, " ")
	if len(s) > 400 {
		s = s[:400] + "…"
	}
	return s
}

func sanitizeFile(s string) string {
	var sb strings.Builder
	for _, c := range s {
		if c >= 'a' && c <= 'z' || c >= 'A' && c <= 'Z' || c >= '0' && c <= '9' || c == '-' || c == '_' {
			sb.WriteRune(c)
		} else {
			sb.WriteByte('_')
		}
	}
	return sb.String()
}

func sumMap(m map[string]int) int {
	n := 0
	for _, v := range m {
		n += v
	}
	return n
}

func writeJSON(path string, v interface{}) error {
	if err := os.MkdirAll(filepath.Dir(path), 0o755); err != nil {
		return err
	}
	b, err := json.MarshalIndent(v, "", " ")
	if err != nil {
		return err
	}
	return os.WriteFile(path, append(b, '\n'), 0o644)
}

// harnessAssertIDs lists the literal ids of vAssert calls reachable in the
// harness function's own body and the vh*/vx* helpers it calls directly.
func harnessAssertIDs(fn *ssa.Function) []string {
	seen := map[string]bool{}
	visited := map[*ssa.Function]bool{}
	var walk func(f *ssa.Function, depth int)
	walk = func(f *ssa.Function, depth int) {
		if visited[f] || depth > 3 {
			return
		}
		visited[f] = true
		for _, b := range f.Blocks {
			for _, ins := range b.Instrs {
				c, ok := ins.(*ssa.Call)
				if !ok {
					continue
				}
				callee := c.Call.StaticCallee()
				if callee == nil {
					continue
				}
				if callee.Name() == "vAssert" && len(c.Call.Args) == 2 {
					if k, ok := c.Call.Args[0].(*ssa.Const); ok && k.Value != nil {
						s, _ := strconv.Unquote(k.Value.ExactString())
						seen[s] = true
					}
				}
			}
		}
		for _, af := range f.AnonFuncs {
			walk(af, depth)
		}
	}
	walk(fn, 0)
	var out []string
	for k := range seen {
		out = append(out, k)
	}
	sort.Strings(out)
	return out
}

// ---------------------------------------------------------------------
// native replay

func goEnv(arch string) []string {
	env := append(os.Environ(), "GOFLAGS=-mod=mod", "GOPROXY=off")
	if arch == "386" {
		env = append(env, "GOARCH=386", "CGO_ENABLED=0")
	}
	return env
}

func nativeReplay(replayPath, pkg string) (string, string) { return nativeReplayArch(replayPath, pkg, "") }

// nativeReplayArch compiles the harness into the real package (go test
// -overlay) and runs it on the counterexample. Returns "confirmed", "passed",
// or an error class.
func nativeReplayArch(replayPath, pkg, arch string) (string, string) {
	files, err := HarnessFiles(pkg)
	if err != nil {
		return "error", err.Error()
	}
	sub := pkgDirs[pkg]
	// generated test file with the harness registry
	var names []string
	for _, real := range files {
		b, _ := os.ReadFile(real)
		for _, line := range strings.Split(string(b), "\n") {
			if strings.HasPrefix(line, "func vh") {
				n := strings.TrimPrefix(line, "func ")
				if i := strings.IndexByte(n, '('); i > 0 && strings.HasPrefix(n[i:], "()") {
					names = append(names, n[:i])
				}
			}
		}
	}
	sort.Strings(names)
	var sb strings.Builder
	fmt.Fprintf(&sb, "package %s\n\nimport (\n\t\"fmt\"\n\t\"testing\"\n)\n\n", pkg)
	sb.WriteString("var vHarnesses = map[string]func(){\n")
	for _, n := range names {
		fmt.Fprintf(&sb, "\t%q: %s,\n", n, n)
	}
	sb.WriteString("}\n\n")
	sb.WriteString(`func TestVerifReplay(t *testing.T) {
	vLoadReplay()
	if len(vReplay.Batch) > 0 {
		pass, fail := 0, 0
		for i, c := range vReplay.Batch {
			vSetCase(c)
			h := vHarnesses[c.Harness]
			bad := ""
			func() {
				defer func() {
					if r := recover(); r != nil {
						bad = fmt.Sprint("panic: ", r)
					}
				}()
				h()
			}()
			if bad == "" && len(vFailures) > 0 {
				bad = fmt.Sprint("failed ", vFailures)
			}
			if bad == "" && vReplayPos != len(c.Inputs) {
				bad = fmt.Sprintf("consumed %d of %d inputs (path diverged)", vReplayPos, len(c.Inputs))
			}
			if bad != "" {
				fail++
				fmt.Printf("VERIF-BATCH-FAIL: case %d harness %s: %s\n", i, c.Harness, bad)
			} else {
				pass++
			}
		}
		fmt.Printf("VERIF-BATCH: passed=%d failed=%d\n", pass, fail)
		return
	}
	h := vHarnesses[vReplay.Harness]
	if h == nil {
		t.Fatalf("VERIF-REPLAY: unknown harness %q", vReplay.Harness)
	}
	func() {
		defer func() {
			if r := recover(); r != nil {
				if _, ok := r.(vAssumeFailed); ok {
					fmt.Println("VERIF-REPLAY: assume-failed")
					return
				}
				fmt.Printf("VERIF-REPLAY: panic %v\n", r)
				vFailures = append(vFailures, "no-panic")
			}
		}()
		h()
	}()
	for _, n := range vNotes {
		fmt.Println("VERIF-NOTE:", n)
	}
	if vReplayPos != len(vReplay.Inputs) {
		fmt.Printf("VERIF-REPLAY: consumed %d of %d inputs (path diverged)\n", vReplayPos, len(vReplay.Inputs))
	}
	for _, f := range vFailures {
		fmt.Println("VERIF-REPLAY: failed", f)
	}
	if len(vFailures) == 0 {
		fmt.Println("VERIF-REPLAY: passed")
	}
}
`)
	tmpDir, err := os.MkdirTemp("", "gosym-replay-")
	if err != nil {
		return "error", err.Error()
	}
	defer os.RemoveAll(tmpDir)
	testFile := filepath.Join(tmpDir, "zz_verif_replay_test.go")
	if err := os.WriteFile(testFile, []byte(sb.String()), 0o644); err != nil {
		return "error", err.Error()
	}
	ov := map[string]map[string]string{"Replace": {}}
	for v, r := range files {
		ov["Replace"][v] = r
	}
	ov["Replace"][filepath.Join(RepoDir, sub, "zz_verif_replay_test.go")] = testFile
	ovPath := filepath.Join(tmpDir, "overlay.json")
	if err := writeJSON(ovPath, ov); err != nil {
		return "error", err.Error()
	}
	abs, _ := filepath.Abs(replayPath)
	var rf0 replayFile
	if b, err := os.ReadFile(abs); err == nil {
		json.Unmarshal(b, &rf0)
	}
	testTimeout := "120s"
	if rf0.Assert == "terminates" {
		testTimeout = "30s" // a candidate non-termination: confirmed if the real code does not finish either
	}
	cmd := exec.Command("go", "test", "-vet=off", "-count=1", "-v", "-run", "^TestVerifReplay$", "-timeout", testTimeout, "-overlay", ovPath, "./"+sub)
	cmd.Dir = RepoDir
	cmd.Env = append(goEnv(arch), "VERIF_REPLAY="+abs)
	outB, _ := cmd.CombinedOutput()
	out := string(outB)
	var rf replayFile
	if b, err := os.ReadFile(abs); err == nil {
		json.Unmarshal(b, &rf)
	}
	switch {
	case rf0.Assert == "terminates" && strings.Contains(out, "test timed out after"):
		return "confirmed", out
	case strings.Contains(out, "VERIF-REPLAY: assume-failed"):
		return "diverged(assume)", out
	case strings.Contains(out, "path diverged"):
		// the input file does not fit the harness (stale witness or an engine /
		// native disagreement): never a confirmation
		return "diverged", out
	case strings.Contains(out, "VERIF-REPLAY: failed "+rf.Assert+"\n"):
		return "confirmed", out
	case strings.Contains(out, "VERIF-REPLAY: failed"):
		// the native run fails, but not the assertion the solver refuted
		return "failed-differently", out
	case strings.Contains(out, "VERIF-REPLAY: passed"):
		return "passed", out
	case strings.Contains(out, "path diverged"):
		return "diverged", out
	}
	return "build-or-run-error", out
}

// CmdReplay: gosym replay <file>
func CmdReplay(args []string) int {
	if len(args) < 1 {
		fmt.Fprintln(os.Stderr, "usage: gosym replay <file.json>")
		return 2
	}
	var rf replayFile
	b, err := os.ReadFile(args[0])
	if err != nil {
		fmt.Fprintln(os.Stderr, err)
		return 2
	}
	if err := json.Unmarshal(b, &rf); err != nil {
		fmt.Fprintln(os.Stderr, err)
		return 2
	}
	pkg := rf.Pkg
	if pkg == "" {
		pkg = "fasthttp"
	}
	res, out := nativeReplay(args[0], pkg)
	fmt.Println(out)
	fmt.Println("replay:", res)
	if res == "confirmed" {
		return 1
	}
	if res == "passed" {
		return 0
	}
	return 3
}
