package drive

import (
	"fmt"
	"path/filepath"
	"sort"
	"time"

	"verif/engine/interp"
)

type Evidence struct {
	PropertyID    string                 `json:"property_id"`
	Tier          string                 `json:"tier"`
	Seed          int                    `json:"seed"`
	Level         string                 `json:"level"`
	Coverage      map[string]interface{} `json:"coverage"`
	Assumptions   []string               `json:"assumptions"`
	WallS         float64                `json:"wall_s"`
	Violations    int                    `json:"violations"`
	KnownFindings []string               `json:"known_findings,omitempty"`
	Problems      []string               `json:"problems,omitempty"`
	Unconfirmed   int                    `json:"unconfirmed_counterexamples"`

	states, transitions, nontrivial, evals int
	sat, unsat, unknown, errs            int
	solverS                               float64
	samples                               []interface{}
	runs                                  []interface{}
	funcs                                 map[string]bool
	exhaustive                            bool
	obligations, discharged               int
	validated                             int
}

func newEvidence(id, tier string, seed int) *Evidence {
	return &Evidence{PropertyID: id, Tier: tier, Seed: seed, Level: "model_checking",
		Coverage: map[string]interface{}{}, funcs: map[string]bool{}, exhaustive: true}
}

func (e *Evidence) addRun(label string, params map[string]int, st *interp.Stats, units []string) {
	e.states += st.Paths
	q := st.Queries.Sat + st.Queries.Unsat + st.Queries.Unknown
	e.transitions += q
	e.nontrivial += st.Nontrivial
	e.evals += st.Paths
	e.sat += st.Queries.Sat
	e.unsat += st.Queries.Unsat
	e.unknown += st.Queries.Unknown
	e.errs += st.Queries.Errors
	e.solverS += st.SolverTime.Seconds()
	e.obligations += sumMap(st.Asserts)
	e.discharged += st.Discharged
	if st.Capped || len(st.Undecided) > 0 || len(st.Problems) > 0 {
		e.exhaustive = false
	}
	for _, s := range st.Samples {
		if len(e.samples) < 8 {
			e.samples = append(e.samples, map[string]interface{}{"harness": label, "bounds": params, "path_model": renderSample(s)})
		}
	}
	for f := range st.Funcs {
		keep := len(units) == 0
		for _, u := range units {
			if containsFold(f, u) {
				keep = true
			}
		}
		if keep {
			e.funcs[f] = true
		}
	}
	e.runs = append(e.runs, map[string]interface{}{
		"harness": label, "bounds": params, "paths": st.Paths, "paths_by_status": st.ByStatus,
		"asserts_evaluated": st.Asserts, "assert_queries_discharged": st.Discharged,
		"undecided": len(st.Undecided), "violations": len(st.Violations),
		"max_decisions_on_a_path": st.MaxDecisions, "ssa_instructions": st.Steps,
		"queries": map[string]int{"sat": st.Queries.Sat, "unsat": st.Queries.Unsat, "unknown": st.Queries.Unknown, "errors": st.Queries.Errors},
		"solver_time_s": round2(st.SolverTime.Seconds()), "wall_s": round2(st.Wall.Seconds()),
		"closed": !st.Capped,
	})
	if st.RaceAccesses > 0 || st.RaceSyncOps > 0 {
		e.runs[len(e.runs)-1].(map[string]interface{})["race_detection"] = map[string]interface{}{
			"memory_accesses_checked": st.RaceAccesses, "synchronisation_operations": st.RaceSyncOps, "max_goroutines_on_a_path": st.RaceGoroutines,
		}
	}
}

func renderSample(in []interp.InputVal) map[string]interface{} {
	m := map[string]interface{}{}
	for _, i := range in {
		switch i.Kind {
		case "bytes":
			b := make([]byte, len(i.Bytes))
			for k, x := range i.Bytes {
				b[k] = byte(x)
			}
			m[i.Name] = fmt.Sprintf("%q", b)
		default:
			m[i.Name] = i.Int
		}
	}
	return m
}

func containsFold(s, sub string) bool {
	return len(sub) == 0 || (len(s) >= len(sub) && (indexFold(s, sub) >= 0))
}

func indexFold(s, sub string) int {
	for i := 0; i+len(sub) <= len(s); i++ {
		if s[i:i+len(sub)] == sub {
			return i
		}
	}
	return -1
}

func round2(f float64) float64 { return float64(int(f*100+0.5)) / 100 }

func (e *Evidence) finish(wall time.Duration, violations int) {
	e.WallS = round2(wall.Seconds())
	e.Violations = violations
	c := e.Coverage
	c["states"] = e.states
	c["transitions"] = e.transitions
	c["traces_validated_against_impl"] = e.validated
	if len(e.samples) == 0 {
		e.samples = append(e.samples, map[string]interface{}{"note": "no non-trivial path produced a sample in this run"})
	}
	c["samples"] = e.samples
	c["evaluations"] = e.evals
	c["distinct_nontrivial"] = e.nontrivial
	c["rule"] = "one evaluation = one feasible execution path of the harness closed by the solver (distinct decision prefix); non-trivial = the path took at least one solver-decided branch or case split on a symbolic value"
	c["obligations"] = e.obligations
	c["discharged"] = e.discharged
	c["queries"] = map[string]int{"sat": e.sat, "unsat": e.unsat, "unknown": e.unknown, "errors": e.errs}
	c["solver_time_s"] = round2(e.solverS)
	c["exhaustive"] = e.exhaustive && len(e.Problems) == 0
	c["runs"] = e.runs
	var fs []string
	for f := range e.funcs {
		fs = append(fs, f)
	}
	sort.Strings(fs)
	if len(fs) > 400 {
		fs = fs[:400]
	}
	c["functions_encoded"] = fs
	c["explanation"] = "bounded symbolic execution of the SSA regenerated from /repo's working tree; each assertion is an SMT query (path condition ∧ ¬assertion) that must be unsat; a sat answer is replayed natively before it is reported"
}

func (e *Evidence) write() error {
	return writeJSON(filepath.Join(OutDir, "evidence", e.PropertyID+".json"), e)
}
