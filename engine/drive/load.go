// Package drive loads /repo with harness overlays, runs explorations, replays
// counterexamples natively and writes evidence.
package drive

import (
	"fmt"
	"os"
	"path/filepath"
	"sort"
	"strings"

	"golang.org/x/tools/go/packages"
	"golang.org/x/tools/go/ssa"
	"golang.org/x/tools/go/ssa/ssautil"
)

var RepoDir = "/repo"
var VerifDir = "/verif"

func init() {
	// developer override (mutation experiments on a scratch copy); the
	// registered commands never set it.
	if v := os.Getenv("VERIF_REPO_DIR"); v != "" {
		RepoDir = v
	}
	// developer override: where evidence and replay files go during mutation
	// experiments, so that they never overwrite the committed ones.
	if v := os.Getenv("VERIF_OUT_DIR"); v != "" {
		OutDir = v
	}
}

// OutDir is the directory under which evidence/ and replays/ are written.
var OutDir = "/verif"

// pkgDirs maps harness directory names to directories of /repo.
var pkgDirs = map[string]string{
	"fasthttp":      ".",
	"fasthttputil":  "fasthttputil",
	"fasthttpproxy": "fasthttpproxy",
	"prefork":       "prefork",
	"fasthttpadaptor": "fasthttpadaptor",
	"stackless":     "stackless",
}

type Loaded struct {
	Prog     *ssa.Program
	Pkgs     map[string]*ssa.Package // by harness dir name
	WordBits uint8
	Overlay  map[string]string // virtual path -> real path
	Arch     string
}

// HarnessFiles returns virtual->real file mapping for one harness dir.
func HarnessFiles(dir string) (map[string]string, error) {
	sub, ok := pkgDirs[dir]
	if !ok {
		return nil, fmt.Errorf("unknown harness dir %q", dir)
	}
	src := filepath.Join(VerifDir, "harness", dir)
	ents, err := os.ReadDir(src)
	if err != nil {
		return nil, err
	}
	out := map[string]string{}
	for _, e := range ents {
		n := e.Name()
		if !strings.HasSuffix(n, ".go") || strings.HasSuffix(n, "_test.go") {
			continue
		}
		out[filepath.Join(RepoDir, sub, "zz_verif_"+n)] = filepath.Join(src, n)
	}
	// the shared API file
	api := filepath.Join(VerifDir, "harness", "vapi", "api.go.txt")
	b, err := os.ReadFile(api)
	if err != nil {
		return nil, err
	}
	pkgName := dir
	tmp := filepath.Join(os.TempDir(), fmt.Sprintf("gosym-api-%s-%d.go", dir, os.Getpid()))
	if err := os.WriteFile(tmp, []byte(strings.Replace(string(b), "package PKG", "package "+pkgName, 1)), 0o644); err != nil {
		return nil, err
	}
	out[filepath.Join(RepoDir, sub, "zz_verif_api.go")] = tmp
	return out, nil
}

// Load type-checks /repo (current working tree) with the harness overlays of
// the given dirs and builds SSA for the whole program.
func Load(dirs []string, arch string) (*Loaded, error) {
	overlay := map[string][]byte{}
	files := map[string]string{}
	var patterns []string
	for _, d := range dirs {
		m, err := HarnessFiles(d)
		if err != nil {
			return nil, err
		}
		for v, r := range m {
			b, err := os.ReadFile(r)
			if err != nil {
				return nil, err
			}
			overlay[v] = b
			files[v] = r
		}
		patterns = append(patterns, "./"+pkgDirs[d])
	}
	env := append(os.Environ(), "GOFLAGS=-mod=mod", "GOPROXY=off", "CGO_ENABLED=0")
	wb := uint8(64)
	if arch == "386" {
		env = append(env, "GOARCH=386")
		wb = 32
	}
	cfg := &packages.Config{
		Mode:    packages.LoadAllSyntax,
		Dir:     RepoDir,
		Overlay: overlay,
		Env:     env,
	}
	pkgs, err := packages.Load(cfg, patterns...)
	if err != nil {
		return nil, err
	}
	var errs []string
	packages.Visit(pkgs, nil, func(p *packages.Package) {
		for _, e := range p.Errors {
			errs = append(errs, e.Error())
		}
	})
	if len(errs) > 0 {
		sort.Strings(errs)
		if len(errs) > 15 {
			errs = errs[:15]
		}
		return nil, fmt.Errorf("load errors:\n  %s", strings.Join(errs, "\n  "))
	}
	prog, spkgs := ssautil.AllPackages(pkgs, ssa.InstantiateGenerics)
	prog.Build()
	ld := &Loaded{Prog: prog, Pkgs: map[string]*ssa.Package{}, WordBits: wb, Overlay: files, Arch: arch}
	for i, d := range dirs {
		if spkgs[i] == nil {
			return nil, fmt.Errorf("no SSA package for %s", d)
		}
		ld.Pkgs[d] = spkgs[i]
	}
	return ld, nil
}

// DefaultInitAllow lists the packages whose initialisers are interpreted.
func DefaultInitAllow(path string) bool {
	switch path {
	case "github.com/valyala/fasthttp", "github.com/valyala/fasthttp/fasthttputil",
		"github.com/valyala/fasthttp/stackless", "github.com/valyala/fasthttp/fasthttpproxy",
		"github.com/valyala/fasthttp/prefork", "github.com/valyala/fasthttp/fasthttpadaptor",
		"github.com/valyala/bytebufferpool",
		"errors", "io", "bufio", "bytes", "strings", "strconv", "time", "sync", "unicode/utf8",
		"sort", "slices", "net/netip", "net/textproto", "net/url", "html", "path", "path/filepath",
		"io/fs", "context", "math", "math/bits", "unicode", "net", "mime", "internal/bytealg",
		"internal/oserror", "internal/poll", "net/http/internal/ascii", "net/http/internal",
		"golang.org/x/net/http/httpguts", "vendor/golang.org/x/net/http/httpguts", "net/http", "internal/itoa", "internal/stringslite", "mime/multipart",
		"encoding/base64", "encoding/binary", "internal/byteorder", "unique", "iter", "maps", "cmp":
		return true
	}
	return false
}
