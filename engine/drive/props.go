package drive

func init() {
	register(&Property{
		ID:    "C30",
		Units: []string{"fasthttp.ParseUint", "fasthttp.parseUintBuf", "fasthttp.AppendUint", "fasthttp.readHexInt", "fasthttp.writeHexInt", "fasthttp.parseContentLength"},
		Runs: []Run{
			{Pkg: "fasthttp", Func: "vhC30ParseUintDigits", Quick: map[string]int{"maxDigits": 20}, Thorough: map[string]int{"maxDigits": 24}},
		},
		Assume: []string{"refDecFits (decimal-string comparison) is the specification of 'fits in int'"},
	})
}
