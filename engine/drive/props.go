package drive

func init() {
	register(&Property{
		ID:    "C24",
		Units: []string{"fasthttp.ParseByteRange", "fasthttp.ParseUint", "fasthttp.parseUintBuf"},
		Runs: []Run{
			{Pkg: "fasthttp", Func: "vhC24ByteRange", Quick: map[string]int{"maxRange": 5}, Thorough: map[string]int{"maxRange": 7}},
			{Pkg: "fasthttp", Func: "vhC24ByteRangeForms", Quick: map[string]int{"rangeDigits": 3}, Thorough: map[string]int{"rangeDigits": 5}},
			{Pkg: "fasthttp", Func: "vhC24FSResponses", Quick: map[string]int{"fileLen": 2, "specLen": 3}, Thorough: map[string]int{"fileLen": 3, "specLen": 4}, PathCap: 1500000},
		},
		Assume: []string{
			"ParseByteRange clause: accepted range inside the content, accept-iff-satisfiable, values",
			"FS clause (vhC24FSResponses): " + fsAssume + "; one file of ≤ fileLen arbitrary bytes whose modification time lies half a second into its second, a Range spec of ≤ specLen arbitrary visible bytes, If-Modified-Since absent / one second before / the file's second / one second after, GET and HEAD through the real serve loop; reference: RFC 9110 §14.1.2 single byte range written out in the harness (specs it calls malformed may be answered 416 or 200); compressed variants (Accept-Encoding) and files around the 8 KiB threshold of the OS file system are outside",
			"range spec after 'bytes=' is an arbitrary byte string of length ≤ maxRange; content length is any non-negative int",
		},
	})
	register(&Property{
		ID:    "C26",
		Units: []string{"fasthttp.normalizePath", "fasthttp.(*URI).SetPathBytes", "fasthttp.(*URI).Path", "fasthttp.decodeArgAppendNoPlus", "fasthttp.unhex"},
		Runs: []Run{
			{Pkg: "fasthttp", Func: "vhC26NormalizePath", Quick: map[string]int{"maxPath": 5}, Thorough: map[string]int{"maxPath": 7}},
			{Pkg: "fasthttp", Func: "vhC26Segments", Quick: map[string]int{"segments": 5}, Thorough: map[string]int{"segments": 6}, PathCap: 3000000},
		},
		Assume: []string{
			"segment-level paths (vhC26Segments): up to `segments` segments from {a, bc, ., .., empty, %2e%2e, one arbitrary byte}, with or without a trailing slash, against the same independent remove_dot_segments reference",
			"reference = RFC 3986 §5.2.4 remove_dot_segments over the percent-decoded, slash-collapsed path (harness/fasthttp/c26.go)",
			"paths are arbitrary byte strings of length ≤ maxPath; filepath.Separator is '/' (Windows back-slash handling outside)",
		},
	})
	register(&Property{
		ID:    "C28",
		Units: []string{"fasthttp.(*Args)", "fasthttp.decodeArg", "fasthttp.AppendQuotedArg", "fasthttp.setArg", "fasthttp.delAllArgs", "fasthttp.appendArg", "fasthttp.peekArg"},
		Runs: []Run{
			{Pkg: "fasthttp", Func: "vhC28Ops", Quick: map[string]int{"ops": 3, "keyLen": 1, "valLen": 1}, Thorough: map[string]int{"ops": 3, "keyLen": 1, "valLen": 1}},
			{Pkg: "fasthttp", Func: "vhC28AfterAdds", Quick: map[string]int{"entries": 4}, Thorough: map[string]int{"entries": 6}},
			{Pkg: "fasthttp", Func: "vhC28RoundTrip", Quick: map[string]int{"entries": 2, "keyLen": 1, "valLen": 1}, Thorough: map[string]int{"entries": 2, "keyLen": 2, "valLen": 2}},
			{Pkg: "fasthttp", Func: "vhC28Quote", Quick: map[string]int{"len": 3}, Thorough: map[string]int{"len": 5}},
		},
		Assume: []string{"operation sequences start from the empty Args; keys/values are arbitrary byte strings up to the stated lengths"},
	})
	register(&Property{
		ID:    "C29",
		Units: []string{"fasthttp.(*ResponseHeader)", "fasthttp.(*RequestHeader)", "fasthttp.(*header)", "fasthttp.delAllArgs", "fasthttp.setArg", "fasthttp.appendArg", "fasthttp.normalizeHeaderKey", "fasthttp.peekAllArg", "fasthttp.removeNewLines"},
		Runs: []Run{
			{Pkg: "fasthttp", Func: "vhC29ResponseOps", Quick: map[string]int{"ops": 4}, Thorough: map[string]int{"ops": 5}, PathCap: 400000},
			{Pkg: "fasthttp", Func: "vhC29RequestOps", Quick: map[string]int{"ops": 4}, Thorough: map[string]int{"ops": 5}, PathCap: 400000},
			{Pkg: "fasthttp", Func: "vhC29SpecialResponse", Quick: map[string]int{"ops": 2}, Thorough: map[string]int{"ops": 3}, PathCap: 1500000},
			{Pkg: "fasthttp", Func: "vhC29SpecialRequest", Quick: map[string]int{"ops": 2}, Thorough: map[string]int{"ops": 3}, PathCap: 1500000},
			{Pkg: "fasthttp", Func: "vhC29ParsedRequest", Quick: map[string]int{"lines": 5}, Thorough: map[string]int{"lines": 6}, PathCap: 3000000},
		},
		Assume: []string{
			"wire-parsed request headers (vhC29ParsedRequest): 3..`lines` field lines drawn from Cookie / X-A / X-B lines in any order, read with the real RequestHeader.Read, then one call touching another name (Cookie, PeekKeys, Set/SetCookie, Del or Add of X-B): the X-A values and their order stay what the wire carried, also after write and read-back",
			"operation alphabet Add/Set/Del over the ordinary names {X-A, x-a, X-B, x-C} (mixed case, normalisation on) with one-byte symbolic values ≠ CR/LF, observed through PeekAll/Peek/Len",
			"special names: 2 (quick) / 3 (thorough) Add/Set/Del operations over {Content-Type (two spellings), Server / Host, User-Agent, Connection (value close or arbitrary), Content-Encoding} mixed with ordinary names, one visible symbolic byte per value; the model makes special names single-valued (Add replaces); after the operations the header, a CopyTo copy and the header read back from its own serialisation are compared with the model through Peek/PeekAll",
			"Cookie/Set-Cookie/Trailer/Content-Length/Date/Transfer-Encoding as operands, disabled normalisation and longer values are outside this check",
		},
	})
	register(&Property{
		ID:    "C30",
		Units: []string{"fasthttp.ParseUint", "fasthttp.parseUintBuf", "fasthttp.AppendUint", "fasthttp.readHexInt", "fasthttp.writeHexInt", "fasthttp.parseContentLength", "strconv.AppendUint", "strconv.formatBits"},
		Runs: []Run{
			{Pkg: "fasthttp", Func: "vhC30ParseUintDigits", Quick: map[string]int{"maxDigits": 22}, Thorough: map[string]int{"maxDigits": 26}},
			{Pkg: "fasthttp", Func: "vhC30ParseUintAny", Quick: map[string]int{"maxAny": 4}, Thorough: map[string]int{"maxAny": 6}},
			{Pkg: "fasthttp", Func: "vhC30AppendParse", Quick: map[string]int{"appendBits": 14}, Thorough: map[string]int{"appendBits": 16}},
			{Pkg: "fasthttp", Func: "vhC30HexRoundTrip"},
			{Pkg: "fasthttp", Func: "vhC30HexLen"},
		},
		Assume: []string{
			"refDecFits (decimal-string comparison) is the specification of 'fits in int'",
			"64-bit int only (GOARCH=amd64); the 386 word size is outside this check",
			"AppendUint∘ParseUint inverse is decided for n < 2^appendBits only (64-bit division by 10/100 in strconv.formatBits does not scale in the bit-blasting back end)",
			"hex round trip covers every n in [0, 2^60): a chunk size is a slice length and cannot need more than maxHexIntChars digits",
		},
	})
	register(&Property{
		ID:    "C31",
		Units: []string{"fasthttp.ParseIPv4", "fasthttp.parseIPv4Octet", "fasthttp.AppendIPv4", "fasthttp.AppendUint", "fasthttp.parseRFC1123DateGMT", "fasthttp.ParseHTTPDate", "fasthttp.AppendHTTPDate", "fasthttp.isWeekday3", "fasthttp.parseMonth3", "fasthttp.validateIPv6Literal", "fasthttp.parseIPv6Hextets", "fasthttp.validIPv4", "time.Parse", "time.parse", "time.Date", "net/netip.ParseAddr", "net/netip.parseIPv6", "net/netip.parseIPv4Fields"},
		Runs: []Run{
			{Pkg: "fasthttp", Func: "vhC31Octet"},
			{Pkg: "fasthttp", Func: "vhC31ParseIPv4", Quick: map[string]int{"maxIP": 9}, Thorough: map[string]int{"maxIP": 10}},
			{Pkg: "fasthttp", Func: "vhC31IPv4RoundTrip", Quick: map[string]int{"allOctets": 0}, PathCap: 400000},
			{Pkg: "fasthttp", Func: "vhC31HTTPDateFastPath"},
			{Pkg: "fasthttp", Func: "vhC31HTTPDateCalendar"},
			{Pkg: "fasthttp", Func: "vhC31HTTPDateRoundTrip"},
			{Pkg: "fasthttp", Func: "vhC31IPv6Literal", Quick: map[string]int{"window": 1}, Thorough: map[string]int{"window": 2}, PathCap: 1500000},
		},
		Assume: []string{
			"calendar rules (vhC31HTTPDateCalendar): 28/29/30 Feb, 31 Apr, 31 Dec of every century year CC00 and every year 20YY (digits enumerated, not symbolic: calendar arithmetic is division by constants): the fast parser and ParseHTTPDate accept exactly the dates the interpreted time.Parse accepts, with the same instant",
			"HTTP dates: the 29-byte input is \"Mon, 02 Jan 2006 15:04:05 GMT\" with one of 15 byte groups (weekday, each separator, day, month, the two low year digits, hour, minute, second, zone) replaced by arbitrary bytes; the fast parser and the standard library's time.Parse / time.Date (interpreted from their own SSA) run on the same symbolic input; several groups symbolic at once and the two high year digits are outside; the AppendHTTPDate round trip is checked on a table of 7 boundary instants only (formatting a symbolic instant needs 64-bit division by calendar constants)",
			"IPv6 literals: 10 address templates (::, ::1, 1::, eight hextets, inner ::, IPv4-mapped and other IPv4-embedded forms, a zone) with a window of `window` arbitrary bytes overwritten or inserted at every position, compared with net/netip.ParseAddr interpreted from the standard library's SSA; wider windows are outside",
			"ParseIPv4 inputs are arbitrary byte strings of length ≤ maxIP (a full 15-byte dotted quad is outside the bound; single octets of every length ≤ 4 are covered by vhC31Octet)",
		},
	})
	register(&Property{
		ID:    "C32",
		Units: []string{"fasthttp.ishex", "fasthttp.unhex", "fasthttp.normalizeHeaderKey", "fasthttp.AppendHTMLEscape", "fasthttp.AppendQuotedArg", "fasthttp.appendQuotedPath", "net/textproto.CanonicalMIMEHeaderKey", "fasthttp.isValidHeaderKey", "fasthttp.lowercaseBytes"},
		Runs: []Run{
			{Pkg: "fasthttp", Func: "vhC32Tables"},
			{Pkg: "fasthttp", Func: "vhC32QuoteBytes"},
			{Pkg: "fasthttp", Func: "vhC32Canonical"},
			{Pkg: "fasthttp", Func: "vhC32HTMLEscape"},
		},
		Assume: []string{"table predicates are written from RFC 3986 §2.3 / RFC 9110 §5.6.2, §5.5 (harness/fasthttp/c32.go), not from bytesconv_table_gen.go"},
	})
}

func init() {
	register(&Property{
		ID:    "C01",
		Units: []string{"fasthttp.(*RequestHeader).parse", "fasthttp.(*RequestHeader).Read", "fasthttp.(*RequestHeader).tryRead", "fasthttp.(*headerScanner)", "fasthttp.readRawHeaders", "fasthttp.parseContentLength", "fasthttp.nextLine", "bufio.(*Reader)"},
		Runs: []Run{
			{Pkg: "fasthttp", Func: "vhC01HeadFraming", Quick: map[string]int{"fields": 3, "clDigits": 2}, Thorough: map[string]int{"fields": 4, "clDigits": 3}},
			{Pkg: "fasthttp", Func: "vhC01ChunkedBody", Quick: map[string]int{"holeLen": 3}, Thorough: map[string]int{"holeLen": 4}, PathCap: 1500000},
		},
		Assume: []string{
			"head-level obligation only: input family = POST head (HTTP/1.1 or 1.0) with up to `fields` framing fields drawn from {Content-Length: <symbolic bytes>, Transfer-Encoding: chunked | identity | gzip, chunked | chunked, gzip, Connection: keep-alive}",
			"composition assumed for the head-level harness, not encoded: Server.serveConnCounted closes the connection when RequestHeader.Read fails or Request.Header.ConnectionClose() is true (server.go)",
			"vhC01ChunkedBody runs the real serve loop (scripted connection, MaxRequestBodySize 32) on a chunked POST with one hole of arbitrary bytes — the first chunk-size line (≤ holeLen bytes), the two bytes after the chunk data, or ≤ holeLen bytes after the last-chunk size — followed by a second request, in one or two segments, ReduceMemoryUsage on/off; oracle: an independent RFC 9112 §7.1 chunk reader (harness/fasthttp/c01.go); the boundary is compared up to empty lines in front of the next request; DisableHeaderNamesNormalizing, GetOnly, DisablePreParseMultipartForm and small ReadBufferSize are outside",
		},
	})
	register(&Property{
		ID:    "C05",
		Units: []string{"fasthttp.(*ResponseHeader)", "fasthttp.(*RequestHeader)", "fasthttp.(*header)", "fasthttp.removeNewLines", "fasthttp.normalizeHeaderKey", "fasthttp.appendHeaderLine", "fasthttp.initHeaderValueBytes", "fasthttp.appendRequestCookieBytes"},
		Runs: []Run{
			{Pkg: "fasthttp", Func: "vhC05ResponseSetters", Quick: map[string]int{"nameLen": 2, "valLen": 2}, Thorough: map[string]int{"nameLen": 2, "valLen": 3}},
			{Pkg: "fasthttp", Func: "vhC05RequestSetters", Quick: map[string]int{"nameLen": 2, "valLen": 2}, Thorough: map[string]int{"nameLen": 2, "valLen": 3}},
			{Pkg: "fasthttpproxy", Func: "vhC05ProxyConnect", Quick: map[string]int{"addrLen": 2}, Thorough: map[string]int{"addrLen": 2}},
		},
		Assume: []string{
			"proxy half (vhC05ProxyConnect, package fasthttpproxy): httpProxyDial with a target of ≤ addrLen arbitrary bytes (between \"h\" and \":80\"), with and without proxy credentials, over a recording connection that answers 200: the CONNECT request has CR / LF only as the CRLF ends of its 3 / 4 lines, and a target containing CR or LF is refused before anything is written",
			"one setter call with arbitrary bytes (name ≤ nameLen, value ≤ valLen) on a fresh header, serialised with Header(); setters covered: Set/Add/SetBytesKV (ordinary and special names), SetContentType, SetServer, SetStatusMessage, SetContentEncoding, SetMethod, SetRequestURI, SetHost, SetUserAgent, SetProtocol, SetReferer, SetCookie",
			"trailer names, the proxy CONNECT target and Request/Response-level URI setters are outside this check; the default Date header is switched off (noDefaultDate)",
		},
	})
	register(&Property{
		ID:    "C06",
		Units: []string{"fasthttp.(*RequestHeader).SetCookie", "fasthttp.(*RequestHeader).collectCookies", "fasthttp.parseRequestCookies", "fasthttp.appendRequestCookieBytes", "fasthttp.(*cookieScanner)", "fasthttp.decodeCookieArg", "fasthttp.validCookieValue", "fasthttp.(*RequestHeader).peek"},
		Runs: []Run{
			{Pkg: "fasthttp", Func: "vhC06RequestCookies", Quick: map[string]int{"cookies": 2, "keyLen": 1, "valLen": 1}, Thorough: map[string]int{"cookies": 2, "keyLen": 1, "valLen": 2}, PathCap: 1500000},
			{Pkg: "fasthttp", Func: "vhC06ResponseCookie", Quick: map[string]int{"keyLen": 1, "valLen": 1, "pathLen": 2}, Thorough: map[string]int{"keyLen": 1, "valLen": 1, "pathLen": 2}, PathCap: 1500000},
		},
		Assume: []string{
			"request cookies: up to `cookies` SetCookie calls with arbitrary key/value bytes; the server side is a second RequestHeader given the serialised Cookie value, fresh or reused after an earlier request with cookies",
			"response cookies: Cookie built from arbitrary key (≤ keyLen) and value (≤ valLen) bytes plus one of {no string attribute, domain ≤ valLen bytes, path '/' or '/%' + ≤ pathLen bytes through SetPath or SetPathBytes} and one of 8 flag combinations (Secure, HttpOnly, Partitioned, the four SameSite modes, Max-Age 5 / -1); serialised through ResponseHeader.SetCookie and parsed by Cookie.ParseBytes; Expires (time formatting) and several string attributes at once are outside this check",
		},
	})
	register(&Property{
		ID:    "C08",
		Units: []string{"fasthttp.(*Args).ParseBytes", "fasthttp.(*Cookie).ParseBytes", "fasthttp.(*URI).Parse", "fasthttp.(*URI).parse", "fasthttp.ParseByteRange", "fasthttp.(*RequestHeader).Read", "fasthttp.(*ResponseHeader).Read", "fasthttp.VisitHeaderParams", "fasthttp.(*headerScanner)", "fasthttp.parseRequestCookies", "fasthttp.(*RequestHeader).parse", "fasthttp.(*ResponseHeader).parse"},
		Runs: []Run{
			{Pkg: "fasthttp", Func: "vhC08SmallBuffers", Quick: map[string]int{"bufLen": 3}, Thorough: map[string]int{"bufLen": 5}},
			{Pkg: "fasthttp", Func: "vhC08RequestHeadNoOverRead", Quick: map[string]int{"holeLen": 2, "contLen": 2}, Thorough: map[string]int{"holeLen": 3, "contLen": 2}},
			{Pkg: "fasthttp", Func: "vhC08ChunkSizeLine"},
			{Pkg: "fasthttp", Func: "vhC08SplitReads"},
		},
		Assume: []string{
			"no-panic/termination: the engine turns any panic, out-of-range index/slice, nil dereference or step-budget overrun on any explored path into a violation; inputs are fully symbolic buffers of length ≤ bufLen, plus the templated request heads of vhC08RequestHeadNoOverRead for the no-over-read clause",
			"chunk-size lines of 14..17 arbitrary hex digits in a chunked request or response with a symbolic body limit in [1,8]; complete chunked-with-trailer and fixed-length requests/responses (two symbolic body bytes) delivered in two reads split inside the last 14 bytes or inside the head, followed by further bytes: the reader terminates, yields the same body and trailer, and consumes nothing beyond the message",
			"multipart forms, long bodies and buffers beyond the stated lengths are outside this check",
		},
	})
	register(&Property{
		ID:    "C09",
		Units: []string{"fasthttp.(*RequestHeader).Read", "fasthttp.(*ResponseHeader).Read", "fasthttp.(*ResponseHeader).tryRead", "fasthttp.(*ResponseHeader).parse", "fasthttp.(*RequestHeader).readLoop", "fasthttp.(*RequestHeader).tryRead", "fasthttp.(*RequestHeader).parse", "fasthttp.readRawHeaders", "fasthttp.(*headerScanner)", "fasthttp.nextLine", "bufio.(*Reader)"},
		Runs: []Run{
			{Pkg: "fasthttp", Func: "vhC09RequestHead", Quick: map[string]int{"holeLen": 2, "contLen": 2}, Thorough: map[string]int{"holeLen": 3, "contLen": 2}, PathCap: 1500000},
			{Pkg: "fasthttp", Func: "vhC09ResponseHead", Quick: map[string]int{"holeLen": 2, "contLen": 2}, Thorough: map[string]int{"holeLen": 3, "contLen": 2}, PathCap: 1500000},
			{Pkg: "fasthttp", Func: "vhC09NoWaiting", Quick: map[string]int{"holeLen": 2}, Thorough: map[string]int{"holeLen": 3}, PathCap: 1500000},
		},
		Assume: []string{
			"request heads only: five templates with a symbolic hole of ≤ holeLen bytes (header name, header value, Content-Length value, request target, line break position) × four blank-line spellings (CRLF CRLF, LF LF, LF CRLF, CRLF LF) × two arbitrary continuations of ≤ contLen bytes; the same for response heads (five templates: header name, header value, Content-Length, status code, line-break position)",
			"no waiting: a complete request or response head from the same templates delivered in one, two or three reads whose cuts fall inside its last five bytes; the parser must not ask the connection for more once the whole head has been delivered (with the listed finding active only heads ending in CRLF CRLF are considered)",
		},
	})
}

func init() {
	register(&Property{
		ID:    "C12",
		Units: []string{"fasthttp.(*perIPConnCounter)", "fasthttp.(*perIPConn)", "fasthttp.wrapPerIPConn", "fasthttp.acquirePerIPConn", "fasthttp.getUint32IP", "fasthttp.(*Server).tryAcquireConcurrency", "fasthttp.(*Server).releaseConcurrency", "fasthttp.(*Server).writeFastError"},
		Runs: []Run{
			{Pkg: "fasthttp", Func: "vhC12PerIP", Quick: map[string]int{"steps": 5}, Thorough: map[string]int{"steps": 7}},
			{Pkg: "fasthttp", Func: "vhC12ConcurrencyStep"},
			{Pkg: "fasthttp", Func: "vhC12ServeConnBalance", Quick: map[string]int{"conns": 3}, Thorough: map[string]int{"conns": 4}},
			{Pkg: "fasthttp", Func: "vhC12ServeConnOverflow", NoNative: true},
		},
		Assume: []string{
			"sequential histories only: up to `steps` open/close operations over two client IPv4 addresses with MaxConnsPerIP ∈ {1,2}, each wrapped handle closed by its owner (an immediate second Close included) and then dropped; tryAcquireConcurrency as a one-step contract from an arbitrary counter ≤ limit",
			"overlapping ServeConn calls (vhC12ServeConnOverflow): Concurrency 1, a first connection whose handler takes 50 ms of virtual time and one or two further ServeConn calls made meanwhile: each is refused (ErrConcurrencyLimit, 503, closed), the counters return to zero and a later connection is served; schedule choices only, not re-run natively",
			"serve-loop pairing (vhC12ServeConnBalance): up to `conns` connections served one after the other through the real ServeConn with Concurrency ∈ {1,2}: plain request, hijacking request (KeepHijackedConns on/off), malformed request, silent client; none may be rejected and the concurrency and open counters must be back at zero",
			"concurrent interleavings of accepts and the listener path (Server.Serve, worker pool) are outside this check; fmt.Fprintf is an approximating stub (only the status line written by formatStatusLine is inspected)",
		},
	})
	register(&Property{
		ID:    "C13",
		Units: []string{"fasthttp.(*workerPool)"},
		Runs: []Run{
			{Pkg: "fasthttp", Func: "vhC13WorkerPool", Quick: map[string]int{"conns": 3}, Thorough: map[string]int{"conns": 4}, NoNative: true},
			{Pkg: "fasthttp", Func: "vhC13Lifecycle", NoNative: true},
		},
		Assume: []string{
			"goroutines, channels, mutexes and timers run on the engine's cooperative scheduler with virtual time: switch points are blocking operations, runtime.Gosched and the vYield schedule choice inside the worker function and after each Serve; `conns` connections, MaxWorkersCount ∈ {1,2}, each handler returning nil or errHijacked",
			"sampled paths are not re-run natively: the schedule choices of the cooperative scheduler cannot be imposed on the real runtime (counterexamples would still be replayed, and reported as unconfirmed if the real scheduler does not reproduce them)",
			"timed histories (vhC13Lifecycle, virtual clock, MaxWorkersCount 2–3, MaxIdleWorkerDuration 1 s, a worker function that takes 20 ms): a cleanup round in which one idle worker is stale and another fresh retires exactly the stale one and later connections are still served once; Stop called while every worker is busy leaves no worker once they finish",
			"preemption between arbitrary instructions (data-race level interleavings) and Stop racing with in-flight Serve calls are outside this check",
		},
	})
	register(&Property{
		ID:    "C40",
		Units: []string{"fasthttp.(*LBClient)", "fasthttp.(*lbClient)"},
		Runs: []Run{
			{Pkg: "fasthttp", Func: "vhC40Route", Quick: map[string]int{"clients": 3}, Thorough: map[string]int{"clients": 5}},
			{Pkg: "fasthttp", Func: "vhC40NoClients"},
			{Pkg: "fasthttp", Func: "vhC40RemoveDuringCall", NoNative: true},
		},
		Assume: []string{
			"one LBClient call from an arbitrary state satisfying the invariant penalty ≤ maxPenalty (inductive step), up to `clients` fake BalancingClients with symbolic pending counts, totals, penalties and outcomes; time.AfterFunc/time.Sleep run on the engine's virtual clock",
			"vhC40RemoveDuringCall: one call selecting among 2..3 clients (the selection yields at every load it reads) while another goroutine removes a suffix of the clients, on the engine's cooperative scheduler: no panic, the call goes to exactly one client or reports ErrNoAvailableClients, later calls use the remaining clients; choices only, not re-run natively",
			"several concurrent calls (the 'once concurrent calls settle' clause) are outside this check",
		},
	})
}

func init() {
	serveUnits := []string{"fasthttp.(*Server).ServeConn", "fasthttp.(*Server).serveConn", "fasthttp.(*Server).serveConnCounted", "fasthttp.(*Server).setState", "fasthttp.writeResponse", "fasthttp.(*Request).", "fasthttp.(*Response).", "fasthttp.(*RequestHeader).", "fasthttp.(*ResponseHeader).", "fasthttp.(*requestStream)", "fasthttp.hijackConnHandler", "fasthttp.(*RequestCtx)", "bufio."}
	serveAssume := "the real Server.ServeConn loop is interpreted on a scripted in-memory net.Conn (one segment per Read, no deadlines, writes always succeed); NoDefaultDate and NoDefaultServerHeader are set; TLS, timeouts, listener/worker-pool path (Server.Serve) and write errors are outside this check"
	register(&Property{
		ID:    "C02",
		Units: serveUnits,
		Runs: []Run{
			{Pkg: "fasthttp", Func: "vhC02UnreadBody", Quick: map[string]int{"big": 1}, Thorough: map[string]int{"big": 1}},
			{Pkg: "fasthttp", Func: "vhC02StreamAcrossConns"},
			{Pkg: "fasthttp", Func: "vhC02StreamedTail"},
			{Pkg: "fasthttp", Func: "vhC02StreamedBadTrailer"},
		},
		Assume: []string{serveAssume,
			"streamed tails: with StreamRequestBody a fixed-length body of 8292 bytes whose last 100 bytes arrive in the same read as a pipelined 6 kB POST whose body spells a request exactly where a refilled 4096-byte reader would resume (with/without Expect: 100-continue and ReduceMemoryUsage); a streamed chunked body whose trailer section is malformed and spells a request",
			"input family: POST /first whose body spells a complete request (31 bytes, or 9031 bytes with the request-shaped bytes after the 8 KiB prefetch), fixed-length or chunked, with/without Expect: 100-continue (accepted or rejected by ContinueHandler), followed by GET /second in the same or the next segment; handler reads none, 5 bytes or all of the stream; StreamRequestBody on/off; the inputs are choices over this grammar (no free symbolic bytes), all decided on the symbolic executor",
		},
	})
	register(&Property{
		ID:    "C03",
		Units: serveUnits,
		Runs: []Run{
			{Pkg: "fasthttp", Func: "vhC03ResponseFraming", Quick: map[string]int{"bodyLen": 2}, Thorough: map[string]int{"bodyLen": 5}, PathCap: 1500000},
			{Pkg: "fasthttp", Func: "vhC03TwoCalls", Quick: map[string]int{"bodyLen": 2}, Thorough: map[string]int{"bodyLen": 3}, PathCap: 1500000},
			{Pkg: "fasthttp", Func: "vhC03HandSet", Quick: map[string]int{"bodyLen": 2}, Thorough: map[string]int{"bodyLen": 3}},
			{Pkg: "fasthttp", Func: "vhC03StreamMismatch", Quick: map[string]int{"bodyLen": 3}, Thorough: map[string]int{"bodyLen": 6}},
			{Pkg: "fasthttp", Func: "vhC03Timeout"},
		},
		Assume: []string{serveAssume,
			"handler programs: status ∈ {200, 204, 304, 404, 999} × one body-building call from {SetBody, SetBodyString+AppendBody, SetBodyStream exact size, SetBodyStream unknown size, SetBodyRaw, SetBodyStreamWriter} with ≤ bodyLen arbitrary body bytes (streams read in bulk, byte-wise, or delivering their last bytes together with io.EOF), answering GET or HEAD on HTTP/1.1, followed by a second fixed request; two such calls in a row (the second replacing the first); Content-Length / Transfer-Encoding / Connection set by hand before or after the body call; body streams one byte shorter or longer than the declared size; TimeoutError / TimeoutErrorWithCode answering GET, HEAD and HTTP/1.0 keep-alive; wire bytes are split by an independent RFC 9112 §6 reader that rejects a message carrying both Content-Length and Transfer-Encoding (harness/fasthttp/c03.go)",
			"status message/other headers/cookies set by the handler (C05), compression (C22), SkipBody, trailers and three or more calls are outside this check",
		},
	})
	register(&Property{
		ID:    "C07",
		Units: serveUnits,
		Runs: []Run{
			{Pkg: "fasthttp", Func: "vhC07RequestBodyLimit", Quick: map[string]int{"maxLimit": 6, "maxBody": 8}, Thorough: map[string]int{"maxLimit": 8, "maxBody": 9}},
			{Pkg: "fasthttp", Func: "vhC07HeadTooLarge"},
			{Pkg: "fasthttp", Func: "vhC07AnnouncedTooLarge", Quick: map[string]int{"maxLimit": 4}, Thorough: map[string]int{"maxLimit": 8}},
			{Pkg: "fasthttp", Func: "vhC07PerRequestLimit"},
			{Pkg: "fasthttp", Func: "vhC07ClientResponseLimit", Quick: map[string]int{"maxLimit": 6, "maxBody": 8}, Thorough: map[string]int{"maxLimit": 8, "maxBody": 9}},
			{Pkg: "fasthttp", Func: "vhC07DecompressLimit", Quick: map[string]int{"maxLimit": 5, "maxBody": 7}, Thorough: map[string]int{"maxLimit": 8, "maxBody": 10}, NoNative: true},
			{Pkg: "fasthttp", Func: "vhC07MultipartGzipLimit", NoNative: true},
			{Pkg: "fasthttp", Func: "vhC07MultipartStreamLimit", NoNative: true},
		},
		Assume: []string{
			"client side (vhC07ClientResponseLimit): the real HostClient with MaxResponseBodySize = L ∈ [1,maxLimit] against a scripted server answering with n ≤ maxBody arbitrary body bytes, fixed length / one chunk / delimited by the close in reads of ≤ 2 bytes: n ≤ L is returned whole, n > L is ErrBodyTooLarge; the codecs themselves (gzip / deflate / brotli / zstd inflation) are not interpretable and are the environment of the next two harnesses",serveAssume,
			"decompressing *WithLimit helpers (vhC07DecompressLimit): the codec constructors and their Read/Reset/Close methods (klauspost gzip.Reader, zlib.NewReader, brotli.Reader, zstd.Decoder) are harness stubs delivering one scripted inflated stream of n ≤ maxBody arbitrary bytes in reads of ≤ 1..3 bytes; the real Request/Response Body{Gunzip,Inflate,Unbrotli,Unzstd}WithLimit and BodyUncompressedWithLimit (all four encodings), the reader pools (each call made twice: fresh reader, then pooled reader through Reset), write{Gunzip,Inflate,Unbrotli,Unzstd}, copyZeroAllocWithLimit, copyZeroAlloc and ByteBuffer.ReadFrom run as they are, limit L ∈ [1,maxLimit]: at most L+1 inflated bytes are ever pulled out of the codec, n > L is ErrBodyTooLarge, n ≤ L is returned whole. vhC07MultipartGzipLimit: MultipartFormWithLimit(L) over a buffered gzip body whose inflated stream is a fixed 59-byte well-formed form, L ∈ [1,61]: at most L+1 bytes inflated, refused when the form is longer than L, parsed otherwise (mime/multipart interpreted). vhC07MultipartStreamLimit: the same form as a streamed request body (SetBodyStream, size unknown), identity or gzip (the standard library's gzip.NewReader / Reader.Read stubbed the same way), L ∈ [1,61]: at most L+1 bytes of the form are pulled from the stream, refused beyond L, parsed otherwise. Outside: what the real codecs buffer internally, compressed input that is itself malformed",
			"server-side clauses only: MaxRequestBodySize = L symbolic in [1, maxLimit], a non-streamed POST with n ≤ maxBody arbitrary body bytes, fixed-length or chunked in one or two chunks, followed by a second request; ReadBufferSize = 64 with heads of 33..153 bytes",
			"per-request limits (vhC07PerRequestLimit): server limit 3, HeaderReceived raises it to 9 for /up only; two POSTs (/up and /p in either order, 0..11 body bytes each, fixed-length or one chunk) on one keep-alive connection: each is dispatched exactly when its body fits the limit of its own request",
			"announced sizes (vhC07AnnouncedTooLarge): Content-Length or a single chunk-size line announcing 1..40 bytes, the data arriving in later segments, limit L from MaxRequestBodySize or from a smaller per-request RequestConfig returned by HeaderReceived (server limit 64), with and without Expect: 100-continue, with and without a multipart/form-data content type; once the announcement exceeds L the data segment must never be read from the connection",
			"streamed bodies, limits in the KiB/MiB range (incl. the 4 MiB default) and other ReadBufferSize values are outside this check; the error status is only required to be 4xx (fasthttp answers 400, not 413, for an oversized body)",
		},
	})
	register(&Property{
		ID:    "C34",
		Units: serveUnits,
		Runs: []Run{
			{Pkg: "fasthttp", Func: "vhC34ResponseStream", Quick: map[string]int{"dataLen": 4}, Thorough: map[string]int{"dataLen": 8}},
			{Pkg: "fasthttp", Func: "vhC34CompressedStream", Quick: map[string]int{"dataLen": 3}, Thorough: map[string]int{"dataLen": 5}, NoNative: true},
			{Pkg: "fasthttp", Func: "vhC34RequestStream", Quick: map[string]int{"dataLen": 4}, Thorough: map[string]int{"dataLen": 8}},
			{Pkg: "fasthttp", Func: "vhC02StreamAcrossConns"},
		},
		Assume: []string{
			"request side (vhC34RequestStream): a request body stream of exact or unknown size written by the real Request.Write and read back by the real Request.Read; streams may hand over their last bytes together with io.EOF (both sides)",serveAssume + " (this harness additionally injects write failures)",
			"response body streams only: an io.ReadCloser with ≤ dataLen arbitrary bytes, read one byte at a time or in bulk, declared size exact or unknown (-1), optional panic in the first or second Read, optional failure of every connection write; SetBodyStreamWriter, Reset/Release paths without a write, and declared sizes that differ from the produced length (C03) are outside this check",
			"compressed streams (vhC34CompressedStream): newCompressedBodyStream with an identity codec (the real codecs are C22's subject) over ≤ dataLen arbitrary bytes; the consumer discards at once, after one byte, or reads to the end, and closes once or twice, with a schedule choice point after every copied piece; not re-run natively (schedule-dependent)",
			"request body streams (vhC02StreamAcrossConns): a chunked upload that breaks off inside a chunk, then a well-formed chunked upload on another connection of the same Server (pooled stream objects): the second handler reads exactly its own body",
		},
	})
	register(&Property{
		ID:    "C10",
		Units: serveUnits,
		Runs: []Run{
			{Pkg: "fasthttp", Func: "vhC10Persistence", Quick: map[string]int{"requests": 2}, Thorough: map[string]int{"requests": 3}, PathCap: 1500000},
			{Pkg: "fasthttp", Func: "vhC04Sequential", Quick: map[string]int{"calls": 2}, Thorough: map[string]int{"calls": 3}, PathCap: 1500000},
		},
		Assume: []string{serveAssume,
			"server half: up to `requests` requests drawn from {HTTP/1.1, HTTP/1.1 close, HTTP/1.0, HTTP/1.0 keep-alive, POST with body} × DisableKeepalive × MaxRequestsPerConn ∈ {0,1} × handler SetConnectionClose position, followed by a sentinel request that is answered only if the connection is still open; MaxRequestsPerConn ∈ {0,1,2}, ReduceMemoryUsage on/off, and a handler that calls TimeoutError at one position; responses are split by an independent minimal reader; CloseOnShutdown is outside this check",
			"client half (vhC04Sequential): " + clientAssume + "; 2/3 sequential calls, responses that say close (or requests that do) must leave the connection closed and never reused, with and without StreamResponseBody",
		},
	})
	register(&Property{
		ID:    "C17",
		Units: serveUnits,
		Runs: []Run{
			{Pkg: "fasthttp", Func: "vhC17Hijack", Quick: map[string]int{"tailLen": 3}, Thorough: map[string]int{"tailLen": 6}},
			{Pkg: "fasthttp", Func: "vhC17HijackAfterOtherRequests", NoNative: true},
		},
		Assume: []string{
			"hijack after other requests (vhC17HijackAfterOtherRequests): the hijacking request is first on its connection or follows an ordinary request or one whose handler called HijackSetNoResponse(true) without hijacking; optional per-request ReadTimeout through HeaderReceived; the connection records the deadlines the server sets: every request is answered before the hijack, bytes sent later reach the hijack handler, and no read deadline is left on the hijacked connection",serveAssume,
			"one hijacking GET followed by ≤ tailLen arbitrary bytes, delivered with the request, later, or split after the first byte; HijackSetNoResponse, KeepHijackedConns and ReduceMemoryUsage on/off; the hijack handler reads the connection to EOF; the clause 'the server never reads or writes that connection again' is not decided (the scripted connection cannot tell the hijack handler's reads from the server's)",
		},
	})
	register(&Property{
		ID:    "C11",
		Units: serveUnits,
		Runs: []Run{
			{Pkg: "fasthttp", Func: "vhC11Differential"},
		},
		Assume: []string{serveAssume,
			"one connection, two requests: request 1 from 4 kinds (form POST, chunked PUT, GET with cookies/UA, POST with Expect: 100-continue) carrying two symbolic token bytes in its headers, cookie, query and body, and a handler that consumes the body and dirties user values, response status, headers, cookie, content type and body; request 2 is a fixed GET; ReduceMemoryUsage, StreamRequestBody and segmenting on/off",
			"several connections, parse errors, rejected expectations, timeouts, hijacks and multipart forms are outside this check",
		},
	})
	register(&Property{
		ID:    "C14",
		Units: serveUnits,
		Runs: []Run{
			{Pkg: "fasthttp", Func: "vhC14ConnState", Quick: map[string]int{"requests": 2}, Thorough: map[string]int{"requests": 3}},
			{Pkg: "fasthttp", Func: "vhC14ServePath", NoNative: true},
		},
		Assume: []string{serveAssume,
			"connection histories: 0..`requests` requests (one per Read) from {HTTP/1.1, close, HTTP/1.0, HTTP/1.0 keep-alive, POST with body}, optional hijack by one handler, ReduceMemoryUsage on/off; timeouts are outside this check",
			"listener path (vhC14ServePath): the real Server.Serve (accept loop, worker pool) over a scripted listener on the engine's scheduler with virtual time: one connection whose handler takes 100 ms and up to three more (closing request, keep-alive request, silent) arriving meanwhile — refused when Concurrency is 1 — ended by a failing listener with the clients leaving later, or by Shutdown, before or after the slow handler finishes; every accepted connection's reported states form New (Active Idle)* [Active] (Closed|Hijacked); schedule choices only, not re-run natively",
		},
	})
}

func init() {
	register(&Property{
		ID:    "C20",
		Units: []string{"fasthttp.doRequestFollowRedirects", "fasthttp.getRedirectURL", "fasthttp.stripSensitiveHeadersOnRedirect", "fasthttp.shouldStripSensitiveHeadersOnRedirect", "fasthttp.isDomainOrSubdomainBytes", "fasthttp.hostnameFrom", "fasthttp.splitHostPortBytes", "fasthttp.(*URI)", "fasthttp.splitHostURI", "fasthttp.(*Request).parseURI", "fasthttp.(*Request).SetRequestURI"},
		Runs: []Run{
			{Pkg: "fasthttp", Func: "vhC20Redirects", Quick: map[string]int{"redirects": 1, "hostLen": 2}, Thorough: map[string]int{"redirects": 1, "hostLen": 2}},
			{Pkg: "fasthttp", Func: "vhC20Redirects", Thorough: map[string]int{"redirects": 2, "hostLen": 0}, ThoroughOnly: true, PathCap: 600000},
			{Pkg: "fasthttp", Func: "vhC20Chain"},
		},
		Assume: []string{
			"redirect chains (vhC20Chain): two or three absolute redirects (302 / 307) over nine hosts built around the initial host a.co — subdomains, look-alikes, prefixes and suffixes of earlier hops, upper case — with a fresh Request or one used before for a longer host name: at every hop the trust decision is against the initial host",
			"the real redirect loop (doRequestFollowRedirects) with a recording clientDoer: initial URL http://a.co/start with Authorization and Cookie set, GET or POST with body; each hop answers 301/302/303/307/308 with Location = relative path, or {http://, https://, //, HTTP://u:p@} + ≤ hostLen arbitrary host-label bytes + {\"\", a.co, .a.co, xa.co} + {\"\", :81} + /p; MaxRedirects ∈ {0,1,2}; trust rule written independently (exact host or dot-suffix, ASCII case-insensitive, port ignored)",
			"IPv6 literals, percent-escapes and non-label bytes in the host, Cookie2/Proxy-*/WWW-Authenticate (only Authorization, Proxy-Authorization and Cookie are observed) and the public Client/HostClient wrappers are outside this check",
		},
	})
}

func init() {
	register(&Property{
		ID:    "C33",
		Units: []string{"fasthttputil.(*PipeConns)", "fasthttputil.(*pipeConn)", "fasthttputil.NewPipeConns", "fasthttputil.acquireByteBuffer", "fasthttputil.releaseByteBuffer", "fasthttputil.(*InmemoryListener)", "fasthttputil.NewInmemoryListener"},
		Runs: []Run{
			{Pkg: "fasthttputil", Func: "vhC33PipeStream", Quick: map[string]int{"writes": 2, "writeLen": 3}, Thorough: map[string]int{"writes": 3, "writeLen": 4}},
			{Pkg: "fasthttputil", Func: "vhC33ReadTimeout", Quick: map[string]int{"writes": 3, "writeLen": 3}, Thorough: map[string]int{"writes": 3, "writeLen": 4}, NoNative: true, PathCap: 1500000},
			{Pkg: "fasthttputil", Func: "vhC33Listener", NoNative: true},
		},
		Assume: []string{
			"vhC33ReadTimeout: an optional first chunk of ≤ 2 arbitrary bytes read completely, then one or two Reads that time out on the idle pipe (read deadline already past, or 10 ms of virtual time), the deadline cleared, then `writes` chunks of ≤ writeLen arbitrary bytes each optionally followed by one Read of 1..2 bytes, Close and drain: the reader gets exactly the bytes written, in order, then EOF; the chunk buffers go through the modelled sync.Pool (Get returns the most recently Put object), so a buffer released twice is handed to two owners; not re-run natively (virtual clock)",
			"PipeConns half only, sequential histories: up to `writes` writes of ≤ writeLen arbitrary bytes on one end (either direction), optionally interleaved with reads of buffer size 1 or 8 on the other end, then Close of the writing end, drain with 4-byte reads, and a write after Close; channels and sync.Pool run on the engine's scheduler",
			"listener (vhC33Listener): one or two dialer goroutines, an accepter loop and a Close issued after 0..3 scheduler rounds, on the engine's cooperative scheduler (switch points: blocking channel operations and explicit yields; a select with several ready cases explores each); choices only, not re-run natively",
			"concurrent writers/readers on one pipe end, deadlines and closing the reading end first are outside this check",
		},
	})
}

var clientUnits = []string{"fasthttp.(*HostClient).Do", "fasthttp.(*HostClient).DoTimeout", "fasthttp.(*HostClient).do", "fasthttp.(*HostClient).doNonNilReqResp", "fasthttp.(*transport).RoundTrip", "fasthttp.(*HostClient).AcquireConn", "fasthttp.(*HostClient).ReleaseConn", "fasthttp.(*HostClient).CloseConn", "fasthttp.(*HostClient).decConnsCount", "fasthttp.(*HostClient).dialHostHard", "fasthttp.dialAddr", "fasthttp.isIdempotent", "fasthttp.(*Request).Write", "fasthttp.(*Response).ReadLimitBody", "fasthttp.(*Response).", "fasthttp.(*ResponseHeader).", "bufio."}

const clientAssume = "the real HostClient (retry loop, transport.RoundTrip, connection pool, request writer, response reader) is interpreted against a scripted network (harness/fasthttp/client.go): HostClient.Dial returns in-memory connections whose Read/Write follow a script chosen per dial; deadlines set on the connection are ignored by the script (faults are injected explicitly), time runs on the engine's virtual clock; TLS and the default TCP dialer are outside"

func init() {
	register(&Property{
		ID:    "C19",
		Units: clientUnits,
		Runs: []Run{
			{Pkg: "fasthttp", Func: "vhC19Faults", Quick: map[string]int{"maxAttempts": 3}, Thorough: map[string]int{"maxAttempts": 6, "resetFault": 1}, PathCap: 600000},
			{Pkg: "fasthttp", Func: "vhC19Callbacks", Quick: map[string]int{"maxAttempts": 3}, Thorough: map[string]int{"maxAttempts": 4}, PathCap: 600000},
			{Pkg: "fasthttp", Func: "vhC19Timeout"},
		},
		Assume: []string{clientAssume,
			"per dial one of {answer 200, write error, EOF before the response, read timeout, (thorough: connection reset,) response body larger than MaxResponseBodySize, dial error}; methods GET/HEAD/PUT/POST/DELETE/PATCH with a buffered body or a body stream; MaxIdemponentCallAttempts symbolic in [-1, maxAttempts] (≤ 0 means the default 5); RetryIf / RetryIfErr callbacks answering arbitrarily per call; DoTimeout(1 s) with attempts that consume 0 / 0.3 s / 1.1 s each and a RetryIfErr that may reset the timeout",
			"a 'transmission' is a dialled connection on which the client called Write; RetryIfErrUpstream, MaxConnWaitTimeout and connection reuse between attempts are outside this check",
		},
	})
}

func init() {
	register(&Property{
		ID:    "C27",
		Units: []string{"fasthttp.(*URI).Parse", "fasthttp.(*URI).parse", "fasthttp.splitHostURI", "fasthttp.parseHost", "fasthttp.unescape", "fasthttp.shouldEscape", "fasthttp.validateIPv6Literal", "fasthttp.parseIPv6Hextets", "fasthttp.validIPv4", "fasthttp.normalizePath", "fasthttp.(*URI).FullURI", "fasthttp.(*URI).AppendBytes", "fasthttp.(*URI).RequestURI", "fasthttp.appendQuotedPath", "fasthttp.(*Args).ParseBytes", "fasthttp.(*Args).AppendBytes", "fasthttp.isValidScheme", "fasthttp.validUserinfo", "net/url.Parse", "net/url.parse", "net/url.parseAuthority", "net/url.parseHost", "net/url.unescape", "net/url.getScheme"},
		Runs: []Run{
			{Pkg: "fasthttp", Func: "vhC27RoundTrip", Quick: map[string]int{"tailLen": 2}, Thorough: map[string]int{"tailLen": 3}, PathCap: 1500000},
			{Pkg: "fasthttp", Func: "vhC27NetURL", Quick: map[string]int{"tailLen": 2}, Thorough: map[string]int{"tailLen": 3}, PathCap: 1500000},
		},
		Assume: []string{
			"input family: one of 12 (round trip) / 9 (net/url) prefixes covering scheme spellings, empty and non-empty hosts, userinfo, an IPv6 literal, a port, and positions inside path / query / fragment / a percent escape, followed by ≤ tailLen arbitrary bytes; the property's own exclusion (decoded host contains '%') is assumed",
			"net/url.Parse is interpreted from the standard library's own SSA on the same symbolic input (no model of it); longer free tails, userinfo serialisation (FullURI does not emit it) and DisablePathNormalizing are outside this check",
		},
	})
}

func init() {
	register(&Property{
		ID:    "C04",
		Units: clientUnits,
		Runs: []Run{
			{Pkg: "fasthttp", Func: "vhC04Sequential", Quick: map[string]int{"calls": 2}, Thorough: map[string]int{"calls": 3}, PathCap: 1500000},
			{Pkg: "fasthttp", Func: "vhC04Pipeline", Quick: map[string]int{"calls": 4}, Thorough: map[string]int{"calls": 5}, NoNative: true},
			{Pkg: "fasthttp", Func: "vhC04OverlappingStreams"},
			{Pkg: "fasthttp", Func: "vhC04PipelineAfterTimeout", NoNative: true},
		},
		Assume: []string{
			"responses open at the same time (vhC04OverlappingStreams): StreamResponseBody, two or three calls made before any body is read, each body arriving in a read of its own after the head (fixed length or chunked, one symbolic byte), then read in one of three orders: each stream yields its own request's body",
			"calls after a timeout (vhC04PipelineAfterTimeout): PipelineClient against a server answering 150 ms late; one or two calls give up after 100 ms, then one or two calls with a 2 s timeout follow on the same connection after 0 / 60 / 200 ms: each gets the response to its own request; virtual clock, not re-run natively",clientAssume,
			"PipelineClient (vhC04Pipeline): `calls` concurrent DoTimeout(1 s) calls through one PipelineClient (MaxConns 1) on the engine's scheduler with virtual time, against a reactive in-memory server that answers every complete request with that request's path; the first connection may be closed by the server after 1 or 2 requests, of which a prefix was answered; every successful call must carry its own path; cooperative schedules only, choices only, not re-run natively",
			"sequential calls (vhC04Sequential) (2 quick / 3 thorough GETs through one HostClient, default MaxConns): each connection answers the j-th request written on it with the j-th response of its script; response kinds {Content-Length keep-alive, Content-Length + Connection: close, chunked, chunked whose single chunk continues with bytes that spell a complete response}, each carrying two arbitrary tag bytes; delivered in one read or split after the first two body bytes; StreamResponseBody on/off with the caller reading none / 2 bytes / all of the stream before closing it; request Connection: close on/off",
			"concurrent HostClient calls, timeouts racing the response, and servers that close mid-response are outside this check",
		},
	})
}

var fsUnits = []string{"fasthttp.(*fsHandler).handleRequest", "fasthttp.(*fsHandler).pathToFilePath", "fasthttp.(*fsHandler).openFSFile", "fasthttp.(*fsHandler).compressAndOpenFSFile", "fasthttp.(*fsHandler).openIndexFile", "fasthttp.(*fsHandler).newFSFile", "fasthttp.NewVHostPathRewriter", "fasthttp.NewPathSlashesStripper", "fasthttp.NewPathPrefixStripper", "fasthttp.stripLeadingSlashes", "fasthttp.hasDotDotPathSegment", "fasthttp.normalizePath", "fasthttp.(*URI).parse", "fasthttp.(*FS).initRequestHandler", "fasthttp.(*FS).normalizeRoot", "fasthttp.(*inMemoryCacheManager)", "fasthttp.(*fsFile)", "fasthttp.(*bigFileReader)", "fasthttp.ParseByteRange", "fasthttp.(*RequestCtx).IfModifiedSince"}

const fsAssume = "the real FS request handler is interpreted over an in-memory recording fs.FS (harness/fasthttp/fsfix.go) whose files count Close calls and flag operations after Close; the default OS file system (os.Open/os.Stat/os.Create), symlinks, Windows separators, mime.TypeByExtension and content sniffing results are outside"

func init() {
	register(&Property{
		ID:    "C23",
		Units: fsUnits,
		Runs: []Run{
			{Pkg: "fasthttp", Func: "vhC23FSRoot", Quick: map[string]int{"targetLen": 2, "hostLen": 1}, Thorough: map[string]int{"targetLen": 3, "hostLen": 1}, PathCap: 3000000},
			{Pkg: "fasthttp", Func: "vhC23OSRoot", Quick: map[string]int{"targetLen": 3}, Thorough: map[string]int{"targetLen": 4}, NoNative: true},
		},
		Assume: []string{
			"operating-system branch (vhC23OSRoot): FS.FS unset, Root /srv/r, the built-in rewriters; (*osFS).Open and (*osFS).Stat are replaced under the engine by harness stubs (//verif:stub) that record the name and answer 'does not exist': every name the real path-joining code hands to the operating system is the root or lexically below it; targets: '/' + ≤targetLen arbitrary bytes, '/s/' + 2 bytes, '/ab' + 2 bytes; not re-run natively (a native run would touch the real file system)",fsAssume,
			"request target '/' + ≤ targetLen arbitrary bytes through the real URI parser and path normaliser; Root ∈ {r, r/s, empty}; Compress on/off (Accept-Encoding: gzip); no rewriter or NewVHostPathRewriter / NewPathSlashesStripper / NewPathPrefixStripper with count 0..2; host of ≤ hostLen arbitrary bytes for the virtual-host rewriter; every file is absent, so the subject is which names are passed to Open",
			"obligations: every opened name is the root or lexically below it without a '..' segment; a path containing NUL opens nothing and is answered 400; a rewritten path with a '..' segment opens nothing",
		},
	})
}

func init() {
	register(&Property{
		ID:    "C25",
		Units: fsUnits,
		Runs: []Run{
			{Pkg: "fasthttp", Func: "vhC25Handles", Quick: map[string]int{"requests": 2, "delayKinds": 2}, Thorough: map[string]int{"requests": 2, "delayKinds": 3}, PathCap: 3000000},
		},
		Assume: []string{fsAssume,
			"sequential requests (≤ 2) on fresh connections for {two files, a missing file, a directory} × GET/HEAD × {no extra header, a satisfiable range, an unsatisfiable range, If-Modified-Since equal to the modification time}; every file read takes 0 / 2.5 s (/ 0.7 s in thorough) of virtual time and requests are spaced by the same choices, with CacheDuration = 1 s, so the real cleaner goroutine (ticker on the engine's virtual clock) evicts entries between requests and while a response is reading; the cleaner is finally stopped through FS.CleanStop",
			"truly concurrent requests (two responses reading one file at the same time) and compressed-file caches are outside this check",
		},
	})
}

func init() {
	register(&Property{
		ID:    "C21",
		Units: append([]string{"fasthttp.(*Client).Do", "fasthttp.(*Client).hostClient", "fasthttp.(*Client).DoRedirects", "fasthttp.doRequestFollowRedirects", "fasthttp.AddMissingPort", "fasthttp.newClientTLSConfig", "fasthttp.tlsServerName", "fasthttp.(*HostClient).cachedTLSConfig", "fasthttp.(*URI).isHTTPS", "fasthttp.(*URI).isHTTP"}, clientUnits...),
		Runs: []Run{
			{Pkg: "fasthttp", Func: "vhC21ClientSchemes", Modelled: true},
			{Pkg: "fasthttp", Func: "vhC21HostClient", Modelled: true},
			{Pkg: "fasthttp", Func: "vhC21Redirect", Modelled: true},
		},
		Assume: []string{clientAssume,
			"crypto/tls is replaced by a transparent model (engine/interp/intr_tls.go): tls.Client wraps the dialled connection, reports the configured ServerName to it, the handshake succeeds, and Read/Write pass plaintext through while marking it as 'inside TLS'; nothing of the real TLS stack is checked. Natively (sample validation, replays) the real crypto/tls runs against the scripted connection, the handshake fails, and only the safety obligations (no https request bytes on a raw connection, no http request inside TLS) are evaluated",
			"the scripted network is handed to the Client / HostClient through the Dial option or through the DialTimeout option (a choice); two requests through one Client: the first with a scheme of 4 or 5 arbitrary ASCII letters, the second with http / https / HTTPS / ftp, to the same or another host; a HostClient with IsTLS on/off and an arbitrary 4-5 letter scheme; DoRedirects from http to https and from https to http; LBClient and PipelineClient are outside this check",
		},
	})
}

func init() {
	register(&Property{
		ID:    "C41",
		Units: []string{"fasthttp.(*TCPDialer).dial", "fasthttp.(*TCPDialer).tryDial", "fasthttp.(*TCPDialer).getTCPAddrs", "fasthttp.resolveTCPAddrs", "fasthttp.(*TCPDialer).DialTimeout", "fasthttp.wrapDialWithUpstream", "fasthttp.AcquireTimer", "fasthttp.ReleaseTimer", "context.WithDeadline"},
		Runs: []Run{
			{Pkg: "fasthttp", Func: "vhC41Dialer", Quick: map[string]int{"dials": 3}, Thorough: map[string]int{"dials": 4}, NoNative: true, PathCap: 1500000},
			{Pkg: "fasthttp", Func: "vhC41Rotation", NoNative: true},
			{Pkg: "fasthttp", Func: "vhC41ConcurrentRotation", NoNative: true},
			{Pkg: "fasthttp", Func: "vhC41SocketDeadlineFirst", NoNative: true},
		},
		Assume: []string{
			"vhC41SocketDeadlineFirst: one DialTimeout / DialDualStackTimeout (1 ms or 1 s, with and without a Concurrency limit) to a hanging endpoint where the stub reports the expiry in each of the three ways the net package can: through ctx.Done(), as the poller's os.ErrDeadlineExceeded inside a *net.OpError, or as net's timeout error that matches context.DeadlineExceeded — the latter two returned 1 µs of virtual time before the context's own timer fires (net arms the socket deadline from, and compares the clock with, the context's deadline, so it can report the expiry while ctx.Err() is still nil; seen natively in 11022 of 19200 dials to a listener with a full accept queue before the fix in /repo): the outcome must be ErrDialTimeout with the upstream address in all three",
			"the real TCPDialer (slot channel, timers, context deadline, DNS cache in a modelled sync.Map) on the engine's cooperative scheduler with virtual time; (*net.Dialer).DialContext is replaced under the engine by a harness stub (//verif:stub) that counts dials in progress, yields, and then connects, refuses, or hangs until the context's deadline, as chosen per address; the Resolver is a harness fake",
			"`dials` concurrent DialTimeout(1 s) calls with Concurrency ∈ {1,2} and DisableDNSResolution; one dial of a host resolving to 2..3 addresses with each endpoint connecting / refusing / hanging (the expiry reported in any of the three ways of vhC41SocketDeadlineFirst, after which no further address may be tried); switch points are blocking operations and the stub's yield; inputs are choices only (no symbolic data), so the deciding step is exhaustive exploration of the choice and schedule tree on the symbolic executor",
			"sampled paths are not re-run natively (natively the real net.Dialer would dial the network); the operating system's adherence to the deadline, the DNS cache cleaner and the default resolver are outside this check",
		},
	})
}

func init() {
	register(&Property{
		ID:    "C16",
		Units: []string{"fasthttp.TimeoutWithCodeHandler", "fasthttp.(*RequestCtx).TimeoutErrorWithCode", "fasthttp.(*RequestCtx).TimeoutErrorWithResponse", "fasthttp.(*Server).ServeConn", "fasthttp.(*Server).serveConnCounted", "fasthttp.(*Server).acquireCtx", "fasthttp.(*Server).releaseCtx", "fasthttp.initTimer", "fasthttp.stopTimer", "fasthttp.writeResponse"},
		Runs: []Run{
			{Pkg: "fasthttp", Func: "vhC16LateHandler", NoNative: true},
			{Pkg: "fasthttp", Func: "vhC16TimeoutErrorWithResponse", NoNative: true},
		},
		Assume: []string{
			"handed-over responses (vhC16TimeoutErrorWithResponse): the handler passes its own Response to TimeoutErrorWithResponse and then rewrites body (same or greater length), a header and the status of that object, at once or 20 ms later: the client receives what was handed over; two symbolic bytes in body and header",
			"the real TimeoutWithCodeHandler (100 ms) and serve loop on a scripted connection, engine scheduler with virtual time: the wrapped handler of request 1 wakes up at 150 / 230 / 400 ms and again 20 / 200 ms later and rewrites status, headers (two symbolic bytes), body, Connection and the request URI of its RequestCtx each time; request 2 arrives at once or at 220 ms and its handler takes 0 or 50 ms, so the late writes fall before, inside and after the handling of request 2; ReduceMemoryUsage on/off; Concurrency default or 1 (then request 2 must be answered 429 exactly when the abandoned handler still holds the only slot)",
			"interleaving happens at the sleep points chosen above (cooperative scheduler), not between arbitrary instructions: data races of a late handler with the serve loop are C37's subject and outside; handlers that write to ctx.Conn() directly are outside; sampled paths are not re-run natively (real time cannot be forced onto the virtual timeline)",
		},
	})
}

func init() {
	register(&Property{
		ID:    "C18",
		Units: append([]string{"fasthttp.(*HostClient).queueForIdle", "fasthttp.(*HostClient).dialConnFor", "fasthttp.(*wantConn).tryDeliver", "fasthttp.(*wantConn).cancel", "fasthttp.(*wantConn).waiting", "fasthttp.(*wantConnQueue)", "fasthttp.(*HostClient).CloseIdleConnections", "fasthttp.(*HostClient).ConnsCount", "fasthttp.AcquireTimer", "fasthttp.ReleaseTimer"}, clientUnits...),
		Runs: []Run{
			{Pkg: "fasthttp", Func: "vhC18Pool", Quick: map[string]int{"calls": 3}, Thorough: map[string]int{"calls": 3}, NoNative: true, PathCap: 3000000},
		},
		Assume: []string{clientAssume,
			"`calls` concurrent HostClient.Do calls as goroutines on the engine's cooperative scheduler (virtual time) with MaxConns ∈ {1,2} and MaxConnWaitTimeout 0 or 500 ms; every dial may fail, every response may say Connection: close; the scripted network yields inside Dial and before it answers, so calls interleave there and at every blocking operation of the pool (mutex, wantConn channel, timer); obligations: live connections ≤ MaxConns at every dial, no second request written to a connection before the response to the first was handed over, every call ends with success or one of ErrNoFreeConns / ErrTimeout / the dial error / ErrConnectionClosed within the wait timeout, ConnsCount = idle + lent at quiescence and 0 after CloseIdleConnections with every connection closed exactly once",
			"instruction-level preemption (data races), the idle-connection cleaner and connection reuse across more than `calls` requests are outside this check; inputs are choices only; sampled paths are not re-run natively (schedule-dependent)",
		},
	})
}

func init() {
	register(&Property{
		ID:    "C15",
		Units: []string{"fasthttp.(*Server).Serve", "fasthttp.(*Server).ShutdownWithContext", "fasthttp.(*Server).Shutdown", "fasthttp.(*Server).closeIdleConns", "fasthttp.(*Server).closeListenersLocked", "fasthttp.acceptConn", "fasthttp.(*Server).serveConn", "fasthttp.(*Server).serveConnCounted", "fasthttp.(*workerPool)", "fasthttp.(*RequestCtx).Done"},
		Runs: []Run{
			{Pkg: "fasthttp", Func: "vhC15Shutdown", NoNative: true},
		},
		Assume: []string{
			"the real Server.Serve (accept loop, worker pool), serve loop and Shutdown on the engine's cooperative scheduler with virtual time, over a scripted listener and blocking in-memory connections: connection 1 sends one or two pipelined requests whose handler takes 0 or 300 ms and then stays open; an optional connection 2 is served once and left idle; Shutdown is called 10 or 150 ms after the requests were sent",
			"obligations after Shutdown returned nil: the listener is closed, Serve has returned nil, no handler is running, every handler that started has its response on the wire (one response per started handler), a handler still running when shutdown began sees its Done channel closed, idle connections were closed rather than waited for (Shutdown takes at most the handler time plus two polling ticks), counters settle; CloseOnShutdown, ShutdownWithContext deadlines, TLS and hijacked connections are outside; choices only, not re-run natively (schedule-dependent)",
		},
	})
}

func init() {
	register(&Property{
		ID:    "C35",
		Units: []string{"fasthttp.(*Request).MultipartForm", "fasthttp.(*Request).MultipartFormWithLimit", "fasthttp.(*Request).RemoveMultipartFormFiles", "fasthttp.(*Request).ResetBody", "fasthttp.(*Request).Reset", "fasthttp.(*Request).ContinueReadBody", "fasthttp.(*Request).readLimitBody", "fasthttp.(*RequestCtx).MultipartForm", "fasthttp.(*Server).serveConnCounted"},
		Runs: []Run{
			{Pkg: "fasthttp", Func: "vhC35TempFiles", NoNative: true},
		},
		Assume: []string{
			"temporary-file half only. mime/multipart creates temporary files only for parts beyond 16 MiB, so under the engine (*multipart.Reader).ReadForm and (*multipart.Form).RemoveAll are replaced by harness stubs (//verif:stub): the form is read with the real mime/multipart part reader (NextPart over the framed body, interpreted), a file part stands for one temporary file, RemoveAll marks it removed; when fasthttp parses, caches, hands out and drops the form is the real code, on the real serve loop",
			"a multipart POST (well-formed or malformed) followed by a second request in the same or the next segment; DisablePreParseMultipartForm, ReduceMemoryUsage, StreamRequestBody and a request-body pool size limit on/off; the handler ignores the form, asks for it once or twice, removes the files itself, or asks with MultipartFormWithLimit at the body size and one byte below it; obligations: nothing is left when the next request is dispatched or when the connection is done, every form is removed, at most one parse per request",
			"the WriteMultipartForm / ReadForm round trip (all inside mime/multipart and os), timed-out requests and the real temporary files are outside; choices only; not re-run natively (the stubs only exist under the engine)",
		},
	})
}

func init() {
	register(&Property{
		ID:    "C22",
		Units: []string{"fasthttp.CompressHandlerLevel", "fasthttp.CompressHandlerBrotliLevel", "fasthttp.(*RequestHeader).HasAcceptEncodingBytes", "fasthttp.(*Response).gzipBody", "fasthttp.(*Response).deflateBody", "fasthttp.(*Response).brotliBody", "fasthttp.(*Response).zstdBody", "fasthttp.newCompressedBodyStream", "fasthttp.(*ResponseHeader).isCompressibleContentType", "fasthttp.(*ResponseHeader).addVaryBytes", "fasthttp.WriteGzipLevel", "fasthttp.WriteDeflateLevel", "fasthttp.WriteBrotliLevel", "fasthttp.WriteZstdLevel", "fasthttp.stacklessWriteGzip", "fasthttp.stacklessWriteDeflate", "fasthttp.stacklessWriteBrotli", "fasthttp.stacklessWriteZstd", "stackless.NewFunc"},
		Runs: []Run{
			{Pkg: "fasthttp", Func: "vhC22CompressHandler", Modelled: true, NoNative: true, PathCap: 1500000},
			{Pkg: "fasthttp", Func: "vhC22Saturation", Quick: map[string]int{"inputLen": 3}, Thorough: map[string]int{"inputLen": 6}, Modelled: true},
		},
		Assume: []string{
			"codecs are abstracted: the DEFLATE / brotli / zstd implementations are loops and tables over whole buffers that no bit-blasting back end decides, so under the engine every codec entry point used here (Append*BytesLevel, compress*BodyStream, nonblockingWrite*) is replaced by a tagging function (//verif:stub): compressing x yields TAG<x>. Claimed is therefore only that the bytes handed to a codec and returned from it are routed correctly; 'round-trips for every input' of the codecs themselves is outside",
			"handler half: CompressHandlerLevel / CompressHandlerBrotliLevel around a handler whose body is 10 or 200 bytes with two arbitrary tail bytes, text/plain or image/png, already carrying Content-Encoding or not, buffered or streamed (10 shapes), for an Accept-Encoding list of one or two elements from a table of 10 (codings, identity, x-gzip, q-values, *), one byte of the first element replaced by an arbitrary token byte: the declared Content-Encoding is one the list names, the body is TAG<original> exactly once, Vary: Accept-Encoding is present, and small / incompressible / already encoded bodies are unchanged",
			"load half (vhC22Saturation): the work queue of stackless.NewFunc is represented by its documented contract — the wrapper runs the function or returns false when saturated; for each Write*Level function either the output decodes to the input (natively: through the real decoders) or an error is returned; the real queue dynamics with thousands of goroutines are outside",
		},
	})
}

func init() {
	register(&Property{
		ID:    "C38",
		Units: []string{"fasthttp.(*PipelineClient).DoTimeout", "fasthttp.(*PipelineClient).DoDeadline", "fasthttp.(*PipelineClient).Do", "fasthttp.(*pipelineConnClient).DoDeadline", "fasthttp.(*pipelineConnClient).Do", "fasthttp.(*pipelineConnClient).worker", "fasthttp.(*pipelineConnClient).writer", "fasthttp.(*pipelineConnClient).reader", "fasthttp.(*pipelineConnClient).pipelineWorker", "fasthttp.(*pipelineConnClient).acquirePipelineWork"},
		Runs: []Run{
			{Pkg: "fasthttp", Func: "vhC38Deadlines", Quick: map[string]int{"calls": 5}, Thorough: map[string]int{"calls": 6}, NoNative: true},
		},
		Assume: []string{
			"the real PipelineClient (worker / writer / reader goroutines, work queues, timers) on the engine's cooperative scheduler with a *virtual* clock, against a reactive in-memory server that answers, stalls (reads, never answers), answers 150 ms late, closes its first connection after one request, or takes one batch of requests without answering and fails the next write (the writer side of the connection fails while requests are unanswered; later connections answer); `calls` calls started together or 10 ms apart (5 are needed to fill reader + response queue + writer + request queue with MaxPendingRequests 1), DoTimeout(100 ms) or Do without a deadline, MaxPendingRequests ∈ {1,2}, MaxConns 1",
			"'returns by its deadline' is decided on the virtual clock (elapsed ≤ timeout + 5 ms): what is excluded is the real scheduler's slack and wall-clock behaviour, which is what the property's 'plus scheduling slack' concedes anyway; interleavings are those of blocking operations (cooperative scheduler), choices only, not re-run natively; several connections (MaxConns > 1) and TLS are outside",
		},
	})
}

func init() {
	register(&Property{
		ID:    "C39",
		Units: []string{"prefork.(*Prefork).prefork", "prefork.(*Prefork).doCommand", "prefork.(*Prefork).shutdownChildren", "prefork.(*Prefork).killChild", "prefork.(*Prefork).prefork$", "sync.(*WaitGroup).Go", "context."},
		Runs: []Run{
			{Pkg: "prefork", Func: "vhC39Supervision", Quick: map[string]int{"maxProcs": 2, "maxThreshold": 1}, Thorough: map[string]int{"maxProcs": 2, "maxThreshold": 1}, NoNative: true, PathCap: 1500000},
			{Pkg: "prefork", Func: "vhC39Supervision", Thorough: map[string]int{"maxProcs": 1, "maxThreshold": 2}, ThoroughOnly: true, NoNative: true, PathCap: 1500000},
		},
		Assume: []string{
			"the real master side of Prefork.prefork (Reuseport = true, so no listener is bound) on the engine's cooperative scheduler with a *virtual* clock, against simulated children: CommandProducer — the repository's own substitution point — returns commands whose process is a harness record, and (*exec.Cmd).Wait, (*os.Process).Signal, (*os.Process).Kill and runtime.GOMAXPROCS are replaced under the engine by harness stubs (//verif:stub): Wait blocks until the simulated child exits, SIGTERM makes it exit at once / after half the grace period / never (chosen per child), Kill ends it",
			"GOMAXPROCS ∈ {1..maxProcs}, RecoverThreshold ∈ {0..maxThreshold}, RecoverInterval ∈ {0, 200 ms}, ShutdownGracePeriod ∈ {100 ms, 1 s}; a fate goroutine makes up to RecoverThreshold+1 children exit (cleanly or with an error), each after a pause of 0 / 50 / 500 ms, also while the master is tearing down; one fault: the k-th spawn fails, the k-th OnChildSpawn returns an error, or OnMasterReady returns an error",
			"child side (listenAsChild, watchMaster), the default re-exec command, the non-reuseport listener hand-over and Windows are outside; interleavings are those of blocking operations; choices only, not re-run natively (the stubs do not exist in a native build)",
		},
	})
}

func init() {
	register(&Property{
		ID:    "C36",
		Units: []string{"fasthttpadaptor.NewFastHTTPHandler", "fasthttpadaptor.(*writer)", "fasthttpadaptor.ConvertRequest", "fasthttpadaptor.acquireWriter", "fasthttpadaptor.releaseWriter", "net/http.(*conn).serve", "net/http.(*conn).readRequest", "net/http.readRequest", "net/http.(*response)", "net/http.(*chunkWriter)", "net/http.ReadRequest", "net/http.(*Server).Serve", "fasthttp.(*Server).serveConn"},
		Runs: []Run{
			{Pkg: "fasthttpadaptor", Func: "vhC36Handler", Quick: map[string]int{"ops": 3}, Thorough: map[string]int{"ops": 4}, PathCap: 1500000},
			{Pkg: "fasthttpadaptor", Func: "vhC36ConvertRequest"},
		},
		Assume: []string{
			"the oracle is net/http itself, interpreted by the engine: the same handler program is served by net/http's own Server (Serve, conn.serve, readRequest, response, chunkWriter — all interpreted from the Go release's source) and by fasthttp's Server through NewFastHTTPHandler, each over a scripted in-memory connection, and the two byte streams are read back by one client-side reader (interim 1xx responses skipped; body by Content-Length, chunked or close)",
			"handler programs: up to `ops` operations from WriteHeader(103|201|204|304|404), Header().Add/Set/Del on X-A, X-B, Content-Type, Write of 3 bytes (one symbolic), Write of no bytes, echo of the request body, echo of method / path / Host / protocol / a repeated request field, Flush — against GET, HEAD, POST-with-body (HTTP/1.1, Connection: close) and an HTTP/1.0 GET; compared: final status, the values of the handler-set fields, a handler-set Content-Type, body. Content sniffing (http.DetectContentType) is one constant for both sides under the engine; Date / Server / default Content-Type / framing fields are not compared; trailers, Hijack, bodies beyond net/http's 2 KiB write buffer, panicking handlers and request bodies read by the handler are outside",
			"request half: net/http's parse (http.ReadRequest) against ConvertRequest called inside the real fasthttp serve loop, over 5 methods × 6 targets (origin-form with query, absolute-form, escaped, \"//p\") × HTTP/1.1|1.0 × 8 header sets (repeated, mixed-case, Cookie twice, User-Agent/Accept/Content-Type, Pragma, Connection) × no body | Content-Length | chunked, plus a symbolic byte in the path or query and in the Host (header or absolute target); compared: method, URL fields, RequestURI, Proto/ProtoMajor/ProtoMinor, Host, the header map over 12 names and its size, body. Requests either side refuses are not compared; ContentLength / TransferEncoding / RemoteAddr / TLS fields are outside",
		},
	})
}

func init() {
	register(&Property{
		ID:    "C37",
		Units: []string{"fasthttp.(*Server).Serve", "fasthttp.(*Server).serveConn", "fasthttp.(*Server).Shutdown", "fasthttp.(*workerPool)", "fasthttp.(*HostClient)", "fasthttp.(*Client)", "fasthttp.(*PipelineClient)", "fasthttp.(*pipelineConnClient)", "fasthttp.(*LBClient)", "fasthttp.(*lbClient)", "fasthttp.(*TCPDialer)", "fasthttp.(*fsHandler)", "fasthttp.(*FS)"},
		Runs: []Run{
			{Pkg: "fasthttp", Func: "vhC37Server", NoNative: true, Race: true},
			{Pkg: "fasthttp", Func: "vhC37HostClient", NoNative: true, Race: true},
			{Pkg: "fasthttp", Func: "vhC37Client", NoNative: true, Race: true},
			{Pkg: "fasthttp", Func: "vhC37FS", NoNative: true, Race: true},
			{Pkg: "fasthttp", Func: "vhC37LBClient", NoNative: true, Race: true},
			{Pkg: "fasthttp", Func: "vhC37TimeoutStream", NoNative: true, Race: true},
			{Pkg: "fasthttp", Func: "vhC37Pipeline", NoNative: true, Race: true},
			{Pkg: "fasthttp", Func: "vhC37DialerRefresh", NoNative: true, Race: true},
			{Pkg: "fasthttp", Func: "vhC38Deadlines", Quick: map[string]int{"calls": 5}, Thorough: map[string]int{"calls": 6}, NoNative: true, Race: true},
			{Pkg: "fasthttp", Func: "vhC41ConcurrentRotation", NoNative: true, Race: true},
			{Pkg: "fasthttp", Func: "vhC41Dialer", Quick: map[string]int{"dials": 3}, Thorough: map[string]int{"dials": 4}, NoNative: true, Race: true},
			{Pkg: "fasthttp", Func: "vhC15Shutdown", NoNative: true, Race: true},
			{Pkg: "fasthttp", Func: "vhC40RemoveDuringCall", NoNative: true, Race: true},
			{Pkg: "fasthttp", Func: "vhC13WorkerPool", Quick: map[string]int{"conns": 3}, Thorough: map[string]int{"conns": 3}, NoNative: true, Race: true},
			{Pkg: "fasthttp", Func: "vhC16LateHandler", NoNative: true, Race: true},
			{Pkg: "fasthttp", Func: "vhC18Pool", Quick: map[string]int{"calls": 2}, Thorough: map[string]int{"calls": 2}, NoNative: true, Race: true},
			{Pkg: "fasthttp", Func: "vhC04Pipeline", Quick: map[string]int{"calls": 3}, Thorough: map[string]int{"calls": 4}, NoNative: true, Race: true},
			{Pkg: "fasthttp", Func: "vhC14ServePath", NoNative: true, Race: true},
			{Pkg: "fasthttputil", Func: "vhC33Listener", NoNative: true, Race: true},
		},
		Assume: []string{
			"happens-before race detection inside the symbolic interpreter (engine/interp/race.go): a vector clock per goroutine, a shadow cell (last write, reads since) per memory slot and per map; go statements, mutex / RWMutex lock and unlock, channel send / receive / close / select, WaitGroup, Cond, Pool Get/Put, every sync/atomic operation, the sync.Map model and timer callbacks are acquire and/or release operations (where the exact Go-memory-model edge would need more bookkeeping the model adds edges, so it can miss a race but a missing edge is never the reason for a report); an access through sync/atomic is synchronisation as well as an access: it conflicts with an unordered plain access to the same word, never with another atomic access; a race whose two sites are both in harness code is not reported",
			"a race is reported when two accesses to one slot or map, at least one a write, from different goroutines are unordered by happens-before on a path the engine runs — independent of the order the cooperative scheduler ran them in, but only for accesses that both occur on that path; the paths are those of the harness choices (options, request kinds, delays on the virtual clock), not all interleavings",
			"uses exercised: one Server serving 2–3 connections through the worker pool with counters read from outside and Shutdown during traffic (also the C15 harness); one HostClient / Client called from 2–3 goroutines with MaxConns 1–2, slow and closing servers, idle-connection cleaners and CloseIdleConnections; PipelineClient (the C38 harness, and vhC37Pipeline: two callers and a short MaxIdleConnDuration so that the writer's idle check runs between calls); LBClient with concurrent calls, AddClient and RemoveClients (also the C40 harness); TCPDialer concurrent dials and address rotation (the C41 harnesses) and concurrent dials while an expired DNS entry is being refreshed, successfully or not (vhC37DialerRefresh); one FS handler called from two goroutines with the cache cleaner running; TimeoutHandler over a streamed request body that is still arriving when the timeout fires (vhC37TimeoutStream); the worker pool (C13 harness), TimeoutHandler with a handler that outlives its deadline and follows the retention rules (C16 harness), the HostClient connection pool under MaxConns (C18 harness), pipelined calls (C04 harness) refused / outliving connections on the Serve path (C14 harness), and fasthttputil's in-memory listener with concurrent dialers, accepter and Close (C33 harness). TLS, compression, streaming bodies, hijacked connections and the race detector's view of the real runtime (native -race runs) are outside; counterexamples are not re-run natively",
		},
	})
}
