package drive

import (
	"fmt"
	"os"

	"verif/engine/interp"
)

// CmdSelftest loads /repo with the harness overlay, builds SSA and runs the
// trivial harness and the serve-loop smoke harness through the solver: it
// proves that the toolchain, the module cache and the solver are usable
// offline before any check is run.
func CmdSelftest(args []string) int {
	ld, err := Load([]string{"fasthttp"}, "amd64")
	if err != nil {
		fmt.Fprintln(os.Stderr, "selftest: load:", err)
		return 2
	}
	sp := ld.Pkgs["fasthttp"]
	for _, h := range []string{"vhTrivial", "vhServeSmoke"} {
		fn := sp.Func(h)
		if fn == nil {
			fmt.Fprintln(os.Stderr, "selftest: missing harness", h)
			return 2
		}
		st, err := interp.Explore(ld.Prog, fn, interp.ExploreOpts{
			Workers: 2, Solver: "z3-new", TimeoutMs: 10000, WordBits: ld.WordBits, InitPkg: sp,
			Setup: func(it *interp.Interp) { it.InitAllow = DefaultInitAllow },
		})
		if err != nil || len(st.Violations) > 0 || len(st.Problems) > 0 || st.Discharged == 0 {
			fmt.Fprintf(os.Stderr, "selftest: %s failed: err=%v violations=%d problems=%v discharged=%d\n", h, err, len(st.Violations), st.Problems, st.Discharged)
			return 2
		}
	}
	// the race detector's own conformance programs: five racy ones (all
	// reported) and seven correctly synchronised ones (none reported)
	ld2, err := Load([]string{"fasthttputil"}, "amd64")
	if err != nil {
		fmt.Fprintln(os.Stderr, "selftest: load:", err)
		return 2
	}
	os.Setenv("GOSYM_RACE_ALL", "1")
	defer os.Unsetenv("GOSYM_RACE_ALL")
	sp2 := ld2.Pkgs["fasthttputil"]
	for h, want := range map[string]int{"vhRaceSelfRacy": 5, "vhRaceSelfClean": 0} {
		fn := sp2.Func(h)
		if fn == nil {
			fmt.Fprintln(os.Stderr, "selftest: missing harness", h)
			return 2
		}
		st, err := interp.Explore(ld2.Prog, fn, interp.ExploreOpts{
			Workers: 2, Solver: "z3-new", TimeoutMs: 10000, WordBits: ld2.WordBits, InitPkg: sp2, MaxViolations: 100,
			Setup: func(it *interp.Interp) { it.InitAllow = DefaultInitAllow; it.RaceOn() },
		})
		races := 0
		if st != nil {
			for _, v := range st.Violations {
				if v.Assert == "no-data-race" {
					races++
				}
			}
		}
		if err != nil || len(st.Problems) > 0 || races != want || len(st.Violations) != want {
			fmt.Fprintf(os.Stderr, "selftest: %s: err=%v races reported=%d (want %d) problems=%v\n", h, err, races, want, st.Problems)
			return 2
		}
	}
	fmt.Println("selftest ok")
	return 0
}
