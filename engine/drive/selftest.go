package drive

func CmdSelftest(args []string) int { return 0 }
