package interp

import (
	"fmt"
	"go/types"

	"golang.org/x/tools/go/ssa"

	"verif/engine/sym"
)

func (it *Interp) callBuiltin(fr *Frame, b *ssa.Builtin, args []Value, call *ssa.Call) Value {
	S := it.S
	argType := func(i int) types.Type {
		if call != nil {
			return call.Call.Args[i].Type()
		}
		if sig, ok := b.Type().(*types.Signature); ok && i < sig.Params().Len() {
			return sig.Params().At(i).Type()
		}
		return nil
	}
	switch b.Name() {
	case "len":
		return S.Const(it.wordBits, uint64(it.lenOf(args[0])))
	case "cap":
		switch x := args[0].(type) {
		case SliceV:
			return S.Const(it.wordBits, uint64(x.Cap))
		case *ChanV:
			if x == nil {
				return S.Const(it.wordBits, 0)
			}
			return S.Const(it.wordBits, uint64(x.cap))
		case PtrV: // *array
			at := argType(0).Underlying().(*types.Pointer).Elem().Underlying().(*types.Array)
			return S.Const(it.wordBits, uint64(at.Len()))
		case AggV:
			at := argType(0).Underlying().(*types.Array)
			return S.Const(it.wordBits, uint64(at.Len()))
		}
	case "append":
		return it.appendOp(args[0].(SliceV), args[1], argType(0))
	case "copy":
		dst := args[0].(SliceV)
		es := it.sizeOf(argType(0).Underlying().(*types.Slice).Elem())
		switch src := args[1].(type) {
		case SliceV:
			n := dst.Len
			if src.Len < n {
				n = src.Len
			}
			it.copySlots(dst.Obj, dst.Off, src.Obj, src.Off, n*es)
			return S.Const(it.wordBits, uint64(n))
		case StrV:
			n := dst.Len
			if src.Len() < n {
				n = src.Len()
			}
			for i := 0; i < n; i++ {
				it.setSlot(dst.Obj, dst.Off+i, it.strByte(src, i))
			}
			return S.Const(it.wordBits, uint64(n))
		}
	case "close":
		it.chanClose(args[0].(*ChanV))
		return nil
	case "delete":
		it.mapDelete(args[0].(*MapV), args[1])
		return nil
	case "clear":
		switch x := args[0].(type) {
		case *MapV:
			if x != nil {
				for i := range x.Entries {
					if !x.Entries[i].Del {
						it.mapDelete(x, x.Entries[i].K)
					}
				}
			}
		case SliceV:
			et := argType(0).Underlying().(*types.Slice).Elem()
			es := it.sizeOf(et)
			z := it.zeroSlots(et, nil)
			for i := 0; i < x.Len; i++ {
				for k := 0; k < es; k++ {
					it.setSlot(x.Obj, x.Off+i*es+k, z[k])
				}
			}
		}
		return nil
	case "print", "println":
		return nil
	case "recover":
		g := it.cur
		top := g.stack[len(g.stack)-1]
		if top.deferOf != nil && top.deferPanic != nil && !top.deferPanic.recovered {
			top.deferPanic.recovered = true
			return top.deferPanic.val
		}
		return IfaceV{}
	case "min", "max":
		r := args[0]
		t := argType(0)
		for i := 1; i < len(args); i++ {
			var pick *sym.Term // pick args[i] over r
			if b.Name() == "min" {
				pick = it.binop(tokenLSS, t, args[i], r, t).(*sym.Term)
			} else {
				pick = it.binop(tokenLSS, t, r, args[i], t).(*sym.Term)
			}
			if rv, ok := r.(*sym.Term); ok {
				r = S.Ite(pick, args[i].(*sym.Term), rv)
			} else if it.Branch(pick) {
				r = args[i]
			}
		}
		return r
	case "ssa:wrapnilchk":
		if p, ok := args[0].(PtrV); ok && p.Obj == nil {
			it.throwRuntime("value method called using nil pointer")
		}
		return args[0]
	case "ssa:deferstack":
		return deferStackV{fr: fr}
	case "SliceData":
		s := args[0].(SliceV)
		if s.Obj == nil {
			return PtrV{}
		}
		return PtrV{Obj: s.Obj, Off: s.Off}
	case "StringData":
		s := args[0].(StrV)
		if s.Len() == 0 {
			return PtrV{}
		}
		o, off, _ := it.strObj(s)
		return PtrV{Obj: o, Off: off}
	case "String":
		p := args[0].(PtrV)
		n := int(it.concretizeInt(args[1].(*sym.Term), types.Typ[types.Int], 0, 0))
		if n == 0 || p.Obj == nil {
			return StrV{}
		}
		return StrV{Obj: p.Obj, Off: p.Off, N: n}
	case "Slice":
		p := args[0].(PtrV)
		n := int(it.concretizeInt(args[1].(*sym.Term), types.Typ[types.Int], 0, 0))
		if p.Obj == nil {
			return SliceV{}
		}
		return SliceV{Obj: p.Obj, Off: p.Off, Len: n, Cap: n}
	case "Add":
		p := args[0].(PtrV)
		n := int(it.concretizeInt(args[1].(*sym.Term), types.Typ[types.Int], 0, 0))
		return PtrV{Obj: p.Obj, Off: p.Off + n}
	case "panic":
		panic(goPanic{val: args[0], msg: it.panicMsg(args[0])})
	}
	it.unsupported("builtin " + b.Name())
	return nil
}

func (it *Interp) lenOf(v Value) int {
	switch x := v.(type) {
	case StrV:
		return x.Len()
	case SliceV:
		return x.Len
	case *MapV:
		return it.mapLen(x)
	case *ChanV:
		if x == nil {
			return 0
		}
		return len(x.buf)
	case AggV:
		return len(x.Slots) // only correct for arrays of leaves; arrays are handled below
	case PtrV:
		it.unsupported("len(*array) without type")
	}
	it.unsupported(fmt.Sprintf("len of %T", v))
	return 0
}

// copySlots copies n slots handling overlap like memmove.
func (it *Interp) copySlots(dst *Obj, doff int, src *Obj, soff int, n int) {
	if n == 0 {
		return
	}
	if it.race != nil {
		it.raceMem(src, soff, n, false)
	}
	if dst == src && doff > soff {
		for i := n - 1; i >= 0; i-- {
			it.setSlot(dst, doff+i, src.Slots[soff+i])
		}
		return
	}
	for i := 0; i < n; i++ {
		it.setSlot(dst, doff+i, src.Slots[soff+i])
	}
}

// appendOp implements append(s, t...) where t is a slice or string.
func (it *Interp) appendOp(s SliceV, t Value, st types.Type) Value {
	et := st.Underlying().(*types.Slice).Elem()
	es := it.sizeOf(et)
	var n int
	var srcObj *Obj
	var srcOff int
	var str StrV
	isStr := false
	switch x := t.(type) {
	case SliceV:
		n, srcObj, srcOff = x.Len, x.Obj, x.Off
	case StrV:
		n = x.Len()
		str = x
		isStr = true
	default:
		it.unsupported(fmt.Sprintf("append of %T", t))
	}
	if n == 0 {
		return s
	}
	need := s.Len + n
	res := s
	if it.race != nil {
		if srcObj != nil {
			it.raceMem(srcObj, srcOff, n*es, false)
		}
		if need > s.Cap && s.Obj != nil {
			it.raceMem(s.Obj, s.Off, s.Len*es, false)
		}
	}
	if need > s.Cap {
		nc := it.growCap(s.Cap, need, es)
		o := it.newObj(nc*es, "append")
		if s.Obj != nil {
			copy(o.Slots, s.Obj.Slots[s.Off:s.Off+s.Len*es])
		}
		// zero the rest
		if es == 1 {
			z := it.zeroLeaf(et)
			for i := s.Len; i < nc; i++ {
				o.Slots[i] = z
			}
		} else if es > 0 {
			z := it.zeroSlots(et, nil)
			for i := s.Len; i < nc; i++ {
				copy(o.Slots[i*es:], z)
			}
		}
		res = SliceV{Obj: o, Off: 0, Len: s.Len, Cap: nc}
	}
	if isStr {
		for i := 0; i < n; i++ {
			it.setSlot(res.Obj, res.Off+(res.Len+i)*es, it.strByte(str, i))
		}
	} else {
		it.copySlots(res.Obj, res.Off+res.Len*es, srcObj, srcOff, n*es)
	}
	res.Len = need
	return res
}

// growCap mimics the runtime's growth policy closely enough for code whose
// behaviour depends on spare capacity: double while small, then 1.25x, rounded
// up to the runtime's byte size classes for single-byte elements.
func (it *Interp) growCap(oldCap, need, es int) int {
	nc := oldCap
	dbl := nc + nc
	if need > dbl {
		nc = need
	} else {
		const threshold = 256
		if oldCap < threshold {
			nc = dbl
		} else {
			for nc < need {
				nc += (nc + 3*threshold) / 4
			}
		}
	}
	if es == 1 {
		return roundupsize(nc)
	}
	return nc
}

var sizeClasses = []int{8, 16, 24, 32, 48, 64, 80, 96, 112, 128, 144, 160, 176, 192, 208, 224, 240, 256, 288, 320, 352, 384, 416, 448, 480, 512, 576, 640, 704, 768, 896, 1024, 1152, 1280, 1408, 1536, 1792, 2048, 2304, 2688, 3072, 3200, 3456, 4096, 4864, 5376, 6144, 6528, 6784, 6912, 8192, 9472, 9728, 10240, 10880, 12288, 13568, 14336, 16384, 18432, 19072, 20480, 21760, 24576, 27264, 28672, 32768}

func roundupsize(n int) int {
	for _, c := range sizeClasses {
		if n <= c {
			return c
		}
	}
	return (n + 8191) &^ 8191
}
