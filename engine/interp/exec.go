package interp

import (
	"fmt"
	"go/constant"
	"go/token"
	"go/types"
	"strings"

	"golang.org/x/tools/go/ssa"

	"verif/engine/sym"
)

type fnInfo struct {
	idx    map[ssa.Value]int
	n      int
	consts map[*ssa.Const]Value
}

type deferred struct {
	fn   *FuncV
	args []Value
}

type Frame struct {
	fn     *ssa.Function
	info   *fnInfo
	regs   []Value
	env    []Value
	block  *ssa.BasicBlock
	prev   *ssa.BasicBlock
	pc     int
	defers []deferred
	// where to put the result in the caller
	retTo ssa.Value // call instruction in the caller frame (nil: discard)
	// panic handling
	panicking  bool      // this frame is being unwound by a panic
	recovering bool      // a deferred call recovered; finish defers then go to Recover
	deferOf    *Frame    // this frame is a deferred call made on behalf of deferOf
	deferPanic *panicRec // the panic active when this deferred call was started
	native     func(ret Value) // continuation run (instead of retTo) when the frame returns
	barrier    bool            // frame started by callSync
}

type panicRec struct {
	val       Value // IfaceV
	recovered bool
	msg       string
}

type gState int

const (
	gRunnable gState = iota
	gBlocked
	gDone
)

type Goroutine struct {
	id     int
	stack  []*Frame
	state  gState
	panics []*panicRec
	unwinding bool
	// blocking
	waitDesc string
	wake     func() bool // returns true when the goroutine can proceed (and performs the op)
	exitPanic *panicRec
	vc        vclock // race detection
}

// goPanic is thrown (as a host panic) by helpers to start an interpreted panic.
type goPanic struct {
	val Value
	msg string
}

// pathAbort ends the current path.
type pathAbort struct {
	kind string // "unsupported", "infeasible", "budget", "done", "deadlock", "assume"
	msg  string
}

func (it *Interp) unsupported(what string) {
	panic(pathAbort{"unsupported", what + it.where()})
}

func (it *Interp) where() string { return it.whereG(it.cur) }

func (it *Interp) whereG(g *Goroutine) string {
	if g == nil || len(g.stack) == 0 {
		return ""
	}
	var sb strings.Builder
	sb.WriteString(" at ")
	for i := len(g.stack) - 1; i >= 0 && i >= len(g.stack)-6; i-- {
		fr := g.stack[i]
		if i != len(g.stack)-1 {
			sb.WriteString(" <- ")
		}
		sb.WriteString(fr.fn.String())
		if fr.block != nil && fr.pc-1 >= 0 && fr.pc-1 < len(fr.block.Instrs) {
			pos := fr.block.Instrs[fr.pc-1].Pos()
			if pos != token.NoPos {
				p := it.Prog.Fset.Position(pos)
				sb.WriteString(fmt.Sprintf("(%s:%d)", shortFile(p.Filename), p.Line))
			}
		}
	}
	return sb.String()
}

func shortFile(f string) string {
	if i := strings.LastIndexByte(f, '/'); i >= 0 {
		return f[i+1:]
	}
	return f
}

func (it *Interp) throwRuntime(msg string) {
	panic(goPanic{val: it.runtimeError(msg), msg: "runtime error: " + msg + it.where()})
}

func (it *Interp) runtimeError(msg string) Value {
	if it.rtErrType != nil {
		return IfaceV{T: it.rtErrType, V: StrV{S: msg}}
	}
	return IfaceV{T: types.Typ[types.String], V: StrV{S: "runtime error: " + msg}}
}

func (it *Interp) info(fn *ssa.Function) *fnInfo {
	if fi, ok := it.fnInfos[fn]; ok {
		return fi
	}
	fi := &fnInfo{idx: map[ssa.Value]int{}, consts: map[*ssa.Const]Value{}}
	n := 0
	for _, p := range fn.Params {
		fi.idx[p] = n
		n++
	}
	for _, fv := range fn.FreeVars {
		fi.idx[fv] = n
		n++
	}
	for _, b := range fn.Blocks {
		for _, ins := range b.Instrs {
			if v, ok := ins.(ssa.Value); ok {
				fi.idx[v] = n
				n++
			}
		}
	}
	fi.n = n
	it.fnInfos[fn] = fi
	return fi
}

func (it *Interp) newFrame(fn *ssa.Function, args []Value, env []Value) *Frame {
	fi := it.info(fn)
	fr := &Frame{fn: fn, info: fi, regs: make([]Value, fi.n)}
	if len(args) != len(fn.Params) {
		panic(fmt.Sprintf("call of %s with %d args, want %d", fn, len(args), len(fn.Params)))
	}
	copy(fr.regs, args)
	for i, e := range env {
		fr.regs[len(fn.Params)+i] = e
	}
	if len(fn.Blocks) > 0 {
		fr.block = fn.Blocks[0]
	}
	return fr
}

func (it *Interp) get(fr *Frame, v ssa.Value) Value {
	switch x := v.(type) {
	case *ssa.Const:
		if c, ok := fr.info.consts[x]; ok {
			return c
		}
		c := it.constValue(x)
		fr.info.consts[x] = c
		return c
	case *ssa.Global:
		return PtrV{Obj: it.globalObj(x)}
	case *ssa.Function:
		return it.funcValue(x)
	case *ssa.Builtin:
		return &FuncV{Builtin: x}
	}
	i, ok := fr.info.idx[v]
	if !ok {
		panic(fmt.Sprintf("get: unknown value %s (%T) in %s", v.Name(), v, fr.fn))
	}
	return fr.regs[i]
}

func (it *Interp) funcValue(fn *ssa.Function) *FuncV {
	if f, ok := it.funcVals[fn]; ok {
		return f
	}
	f := &FuncV{Fn: fn}
	it.funcVals[fn] = f
	return f
}

func (it *Interp) set(fr *Frame, v ssa.Value, val Value) {
	fr.regs[fr.info.idx[v]] = val
}

func (it *Interp) globalObj(g *ssa.Global) *Obj {
	if o, ok := it.globals[g]; ok {
		return o
	}
	t := g.Type().(*types.Pointer).Elem()
	o := it.allocType(t, "global "+g.String())
	if it.trailOn {
		// a global first touched during a path: make it persistent & trailed
		it.objSeq--
		o.ID = 0
	}
	it.globals[g] = o
	return o
}

func (it *Interp) constValue(c *ssa.Const) Value {
	t := c.Type()
	if c.Value == nil {
		return it.zeroValue(t)
	}
	if w, signed, ok := it.intWidth(t); ok {
		if w == 0 {
			return it.S.Bool(constant.BoolVal(c.Value))
		}
		_ = signed
		if c.Value.Kind() == constant.Float {
			f, _ := constant.Float64Val(c.Value)
			return it.S.Const(w, uint64(int64(f)))
		}
		if i, ok := constant.Int64Val(constant.ToInt(c.Value)); ok {
			return it.S.Const(w, uint64(i))
		}
		u, _ := constant.Uint64Val(constant.ToInt(c.Value))
		return it.S.Const(w, u)
	}
	if isString(t) {
		return StrV{S: constant.StringVal(c.Value)}
	}
	if isFloat(t) {
		if b := t.Underlying().(*types.Basic); b.Info()&types.IsComplex != 0 {
			re, _ := constant.Float64Val(constant.Real(c.Value))
			im, _ := constant.Float64Val(constant.Imag(c.Value))
			return FloatV{Cpx: complex(re, im)}
		}
		f, _ := constant.Float64Val(c.Value)
		return FloatV{F: f}
	}
	if _, ok := t.Underlying().(*types.Interface); ok {
		// untyped constant in interface position cannot occur in SSA
		return IfaceV{}
	}
	panic(fmt.Sprintf("constValue: unhandled const %s of type %s", c, t))
}

// ---------------------------------------------------------------------
// main loop

// runGoroutines executes until all goroutines are done or blocked.
func (it *Interp) runLoop() {
	for {
		// Go semantics: the program ends when the main goroutine returns,
		// whatever other goroutines (tickers, refreshers) are still doing.
		if len(it.gs) > 0 && it.gs[0].state == gDone {
			return
		}
		g := it.pickRunnable()
		if g == nil {
			return
		}
		it.cur = g
		it.runSegment(g)
	}
}

// runSegment runs g until it blocks, finishes, or yields.
func (it *Interp) runSegment(g *Goroutine) {
	defer func() {
		if r := recover(); r != nil {
			if gp, ok := r.(goPanic); ok {
				it.startPanic(g, gp.val, gp.msg)
				return
			}
			panic(r)
		}
	}()
	for g.state == gRunnable && !it.yieldReq {
		if len(g.stack) == 0 {
			g.state = gDone
			it.goroutineExit(g)
			return
		}
		fr := g.stack[len(g.stack)-1]
		if g.unwinding {
			it.unwindStep(g, fr)
			continue
		}
		if fr.recovering {
			if len(fr.defers) > 0 {
				d := fr.defers[len(fr.defers)-1]
				fr.defers = fr.defers[:len(fr.defers)-1]
				it.callValue(g, fr, nil, d.fn, d.args, nil)
				continue
			}
			fr.recovering = false
			fr.panicking = false
			if fr.fn.Recover != nil {
				fr.prev = fr.block
				fr.block = fr.fn.Recover
				fr.pc = 0
				continue
			}
			it.doReturn(g, fr, it.zeroResults(fr.fn))
			continue
		}
		it.steps++
		if it.steps > it.StepBudget {
			panic(pathAbort{"budget", fmt.Sprintf("instruction budget %d exhausted%s", it.StepBudget, it.where())})
		}
		ins := fr.block.Instrs[fr.pc]
		fr.pc++
		it.exec(g, fr, ins)
	}
	it.yieldReq = false
}

func (it *Interp) zeroResults(fn *ssa.Function) Value {
	res := fn.Signature.Results()
	switch res.Len() {
	case 0:
		return nil
	case 1:
		return it.zeroValue(res.At(0).Type())
	}
	tv := make(TupleV, res.Len())
	for i := range tv {
		tv[i] = it.zeroValue(res.At(i).Type())
	}
	return tv
}

func (it *Interp) startPanic(g *Goroutine, val Value, msg string) {
	g.panics = append(g.panics, &panicRec{val: val, msg: msg})
	g.unwinding = true
}

func (it *Interp) unwindStep(g *Goroutine, fr *Frame) {
	p := g.panics[len(g.panics)-1]
	fr.panicking = true
	if len(fr.defers) > 0 {
		d := fr.defers[len(fr.defers)-1]
		fr.defers = fr.defers[:len(fr.defers)-1]
		g.unwinding = false
		nf := it.callValue(g, fr, nil, d.fn, d.args, nil)
		if nf != nil {
			nf.deferOf = fr
			nf.deferPanic = p
		} else {
			// the deferred call was native/intrinsic and has already completed
			it.afterDeferredReturn(g, fr, p)
		}
		return
	}
	// no more defers in this frame: pop it
	g.stack = g.stack[:len(g.stack)-1]
	if fr.native != nil {
		// frames with native continuations are dropped silently during unwinding
	}
	if len(g.stack) == 0 {
		g.state = gDone
		g.exitPanic = p
		g.unwinding = false
		it.goroutineExit(g)
	}
}

func (it *Interp) afterDeferredReturn(g *Goroutine, parent *Frame, p *panicRec) {
	if p.recovered {
		// remove p from the panic stack
		for i := len(g.panics) - 1; i >= 0; i-- {
			if g.panics[i] == p {
				g.panics = append(g.panics[:i], g.panics[i+1:]...)
				break
			}
		}
		parent.recovering = true
		g.unwinding = false
		return
	}
	g.unwinding = true
}

func (it *Interp) doReturn(g *Goroutine, fr *Frame, result Value) {
	g.stack = g.stack[:len(g.stack)-1]
	if fr.deferOf != nil {
		it.afterDeferredReturn(g, fr.deferOf, fr.deferPanic)
		return
	}
	if fr.native != nil {
		fr.native(result)
		return
	}
	if fr.retTo != nil && len(g.stack) > 0 {
		caller := g.stack[len(g.stack)-1]
		it.set(caller, fr.retTo, result)
	}
}

// ---------------------------------------------------------------------
// calls

// callValue calls fv with args on goroutine g. If the callee is interpreted a
// new frame is pushed and returned; otherwise the call completes immediately
// and the result is stored via retTo (when non-nil) in caller.
func (it *Interp) callValue(g *Goroutine, caller *Frame, retTo ssa.Value, fv *FuncV, args []Value, native func(Value)) *Frame {
	if fv == nil {
		it.throwRuntime("invalid memory address or nil pointer dereference (nil func call)")
	}
	if fv.Bound {
		args = append([]Value{fv.Recv}, args...)
	}
	deliver := func(res Value) {
		if native != nil {
			native(res)
		} else if retTo != nil && caller != nil {
			it.set(caller, retTo, res)
		}
	}
	if fv.Builtin != nil {
		deliver(it.callBuiltin(caller, fv.Builtin, args, nil))
		return nil
	}
	if fv.Native != "" {
		nf := it.natives[fv.Native]
		if nf == nil {
			it.unsupported("native function value " + fv.Native)
		}
		deliver(nf(it, fv, args))
		return nil
	}
	fn := fv.Fn
	for depth := 0; ; depth++ {
		if intr := it.intrinsicFor(fn); intr != nil {
			res := intr(it, args)
			if tc, ok := res.(tailCall); ok {
				if tc.fn.Fn == nil || tc.fn.Bound {
					// generic path
					return it.callValue(g, caller, retTo, tc.fn, tc.args, native)
				}
				fn = tc.fn.Fn
				args = tc.args
				fv = tc.fn
				if tc.then != nil {
					prev := native
					then := tc.then
					rt, cl := retTo, caller
					native = func(v Value) {
						r := then(v)
						if prev != nil {
							prev(r)
						} else if rt != nil && cl != nil {
							it.set(cl, rt, r)
						}
					}
				}
				continue
			}
			deliver(res)
			return nil
		}
		break
	}
	if len(fn.Blocks) == 0 {
		it.unsupported("call of function without body: " + fn.String())
	}
	if len(g.stack) > it.MaxDepth {
		panic(pathAbort{"budget", "call depth exceeded" + it.where()})
	}
	fr := it.newFrame(fn, args, fv.Env)
	fr.retTo = retTo
	fr.native = native
	g.stack = append(g.stack, fr)
	it.noteFunc(fn)
	return fr
}

type tailCall struct {
	fn   *FuncV
	args []Value
	then func(Value) Value // optional post-processing of the result
}

func (it *Interp) noteFunc(fn *ssa.Function) {
	if it.FuncsSeen != nil {
		it.FuncsSeen[fn]++
	}
}

// resolveCall evaluates the callee and arguments of a call.
func (it *Interp) resolveCall(fr *Frame, c *ssa.CallCommon) (*FuncV, []Value) {
	var args []Value
	if c.IsInvoke() {
		recv := it.get(fr, c.Value)
		iv, ok := recv.(IfaceV)
		if !ok {
			panic(fmt.Sprintf("invoke on non-interface %T", recv))
		}
		if iv.T == nil {
			it.throwRuntime("invalid memory address or nil pointer dereference (nil interface method call " + c.Method.Name() + ")")
		}
		fn := it.lookupMethod(iv.T, c.Method)
		if fn == nil {
			it.unsupported(fmt.Sprintf("method %s not found on %s", c.Method.Name(), iv.T))
		}
		args = make([]Value, 0, len(c.Args)+1)
		args = append(args, iv.V)
		for _, a := range c.Args {
			args = append(args, it.get(fr, a))
		}
		return it.funcValue(fn), args
	}
	args = make([]Value, len(c.Args))
	for i, a := range c.Args {
		args[i] = it.get(fr, a)
	}
	callee := it.get(fr, c.Value)
	fv, ok := callee.(*FuncV)
	if !ok {
		panic(fmt.Sprintf("call of non-function %T", callee))
	}
	return fv, args
}

type methKey struct {
	t types.Type
	m *types.Func
}

func (it *Interp) lookupMethod(t types.Type, m *types.Func) *ssa.Function {
	k := methKey{t, m}
	if fn, ok := it.methCache[k]; ok {
		return fn
	}
	ms := it.Prog.MethodSets.MethodSet(t)
	sel := ms.Lookup(m.Pkg(), m.Name())
	var fn *ssa.Function
	if sel != nil {
		fn = it.Prog.MethodValue(sel)
	}
	it.methCache[k] = fn
	return fn
}

// ---------------------------------------------------------------------
// instruction execution

func (it *Interp) exec(g *Goroutine, fr *Frame, ins ssa.Instruction) {
	switch x := ins.(type) {
	case *ssa.DebugRef:
	case *ssa.UnOp:
		it.set(fr, x, it.unop(g, fr, x))
	case *ssa.BinOp:
		it.set(fr, x, it.binop(x.Op, x.X.Type(), it.get(fr, x.X), it.get(fr, x.Y), x.Y.Type()))
	case *ssa.Call:
		fv, args := it.resolveCall(fr, &x.Call)
		if fv != nil && fv.Builtin != nil {
			it.set(fr, x, it.callBuiltin(fr, fv.Builtin, args, x))
			return
		}
		it.callValue(g, fr, x, fv, args, nil)
	case *ssa.ChangeInterface:
		it.set(fr, x, it.get(fr, x.X))
	case *ssa.ChangeType:
		it.set(fr, x, it.get(fr, x.X))
	case *ssa.Convert:
		it.set(fr, x, it.convert(x.X.Type(), x.Type(), it.get(fr, x.X)))
	case *ssa.MultiConvert:
		it.set(fr, x, it.convert(x.X.Type(), x.Type(), it.get(fr, x.X)))
	case *ssa.SliceToArrayPointer:
		s := it.get(fr, x.X).(SliceV)
		n := int(x.Type().(*types.Pointer).Elem().Underlying().(*types.Array).Len())
		if s.Len < n {
			it.throwRuntime("cannot convert slice to array pointer: length too short")
		}
		if s.Obj == nil {
			it.set(fr, x, PtrV{})
		} else {
			it.set(fr, x, PtrV{Obj: s.Obj, Off: s.Off})
		}
	case *ssa.MakeInterface:
		it.set(fr, x, IfaceV{T: x.X.Type(), V: it.get(fr, x.X)})
	case *ssa.Extract:
		it.set(fr, x, it.get(fr, x.Tuple).(TupleV)[x.Index])
	case *ssa.Slice:
		it.set(fr, x, it.sliceOp(fr, x))
	case *ssa.Return:
		var res Value
		switch len(x.Results) {
		case 0:
		case 1:
			res = it.get(fr, x.Results[0])
		default:
			tv := make(TupleV, len(x.Results))
			for i, r := range x.Results {
				tv[i] = it.get(fr, r)
			}
			res = tv
		}
		it.doReturn(g, fr, res)
	case *ssa.RunDefers:
		if len(fr.defers) > 0 {
			d := fr.defers[len(fr.defers)-1]
			fr.defers = fr.defers[:len(fr.defers)-1]
			fr.pc-- // come back here until the list is empty
			it.callValue(g, fr, nil, d.fn, d.args, nil)
		}
	case *ssa.Panic:
		v := it.get(fr, x.X)
		panic(goPanic{val: v, msg: it.panicMsg(v)})
	case *ssa.Send:
		it.chanSend(g, fr, it.get(fr, x.Chan), it.get(fr, x.X))
	case *ssa.Store:
		it.store(it.get(fr, x.Addr).(PtrV), x.Val.Type(), it.get(fr, x.Val))
	case *ssa.If:
		c := it.get(fr, x.Cond).(*sym.Term)
		if !c.IsConst() && it.tryMerge(g, fr, c) {
			return
		}
		succ := 1
		if it.Branch(c) {
			succ = 0
		}
		fr.prev = fr.block
		fr.block = fr.block.Succs[succ]
		fr.pc = 0
	case *ssa.Jump:
		fr.prev = fr.block
		fr.block = fr.block.Succs[0]
		fr.pc = 0
	case *ssa.Defer:
		fv, args := it.resolveCall(fr, &x.Call)
		target := fr
		if x.DeferStack != nil {
			ds := it.get(fr, x.DeferStack)
			if h, ok := ds.(deferStackV); ok {
				target = h.fr
			}
		}
		target.defers = append(target.defers, deferred{fn: fv, args: args})
	case *ssa.Go:
		fv, args := it.resolveCall(fr, &x.Call)
		it.spawn(fv, args)
	case *ssa.MakeChan:
		size := it.concretizeInt(it.get(fr, x.Size).(*sym.Term), x.Size.Type(), 0, 1<<16)
		it.set(fr, x, it.newChan(x.Type().Underlying().(*types.Chan), int(size)))
	case *ssa.Alloc:
		t := x.Type().(*types.Pointer).Elem()
		tag := x.Comment
		if tag == "" {
			tag = "alloc"
		}
		it.set(fr, x, PtrV{Obj: it.allocType(t, tag)})
	case *ssa.MakeSlice:
		n := int(it.concretizeInt(it.get(fr, x.Len).(*sym.Term), x.Len.Type(), 0, it.MaxMake))
		c := int(it.concretizeInt(it.get(fr, x.Cap).(*sym.Term), x.Cap.Type(), 0, it.MaxMake))
		if n < 0 || c < n {
			it.throwRuntime("makeslice: len out of range")
		}
		et := x.Type().Underlying().(*types.Slice).Elem()
		it.set(fr, x, it.makeSlice(et, n, c))
	case *ssa.MakeMap:
		it.set(fr, x, it.newMap(x.Type().Underlying().(*types.Map)))
	case *ssa.Range:
		it.set(fr, x, it.rangeIter(it.get(fr, x.X), x.X.Type()))
	case *ssa.Next:
		it.set(fr, x, it.iterNext(it.get(fr, x.Iter).(*iterV), x))
	case *ssa.FieldAddr:
		p := it.get(fr, x.X).(PtrV)
		if p.Obj == nil {
			it.throwRuntime("invalid memory address or nil pointer dereference")
		}
		st := x.X.Type().Underlying().(*types.Pointer).Elem()
		l := it.layoutOf(st)
		it.set(fr, x, PtrV{Obj: p.Obj, Off: p.Off + l.fields[x.Field]})
	case *ssa.Field:
		a := it.get(fr, x.X).(AggV)
		l := it.layoutOf(x.X.Type())
		ft := x.X.Type().Underlying().(*types.Struct).Field(x.Field).Type()
		fl := it.layoutOf(ft)
		off := l.fields[x.Field]
		if fl.leaf {
			it.set(fr, x, a.Slots[off])
		} else {
			out := make([]Value, fl.size)
			copy(out, a.Slots[off:off+fl.size])
			it.set(fr, x, AggV{out})
		}
	case *ssa.IndexAddr:
		it.set(fr, x, it.indexAddr(fr, x))
	case *ssa.Index:
		it.set(fr, x, it.indexOp(fr, x))
	case *ssa.Lookup:
		it.set(fr, x, it.lookup(fr, x))
	case *ssa.MapUpdate:
		m := it.get(fr, x.Map).(*MapV)
		if m == nil {
			panic(goPanic{val: it.runtimeError("assignment to entry in nil map"), msg: "assignment to entry in nil map"})
		}
		it.mapSet(m, it.get(fr, x.Key), it.get(fr, x.Value))
	case *ssa.TypeAssert:
		it.set(fr, x, it.typeAssert(x, it.get(fr, x.X)))
	case *ssa.MakeClosure:
		fn := x.Fn.(*ssa.Function)
		env := make([]Value, len(x.Bindings))
		for i, b := range x.Bindings {
			env[i] = it.get(fr, b)
		}
		it.set(fr, x, &FuncV{Fn: fn, Env: env})
	case *ssa.Phi:
		// handled in bulk at block entry: evaluate all phis in parallel
		it.execPhis(fr, x)
	case *ssa.Select:
		it.selectOp(g, fr, x)
	default:
		it.unsupported(fmt.Sprintf("instruction %T", ins))
	}
}

// execPhis evaluates every φ of the block in parallel; called on the first one.
func (it *Interp) execPhis(fr *Frame, first *ssa.Phi) {
	blk := fr.block
	pi := -1
	for i, p := range blk.Preds {
		if p == fr.prev {
			pi = i
			break
		}
	}
	if pi < 0 {
		panic("phi: predecessor not found in " + fr.fn.String())
	}
	var vals []Value
	var phis []*ssa.Phi
	i := fr.pc - 1
	for ; i < len(blk.Instrs); i++ {
		p, ok := blk.Instrs[i].(*ssa.Phi)
		if !ok {
			break
		}
		phis = append(phis, p)
		vals = append(vals, it.get(fr, p.Edges[pi]))
	}
	for k, p := range phis {
		it.set(fr, p, vals[k])
	}
	fr.pc = i
}

func (it *Interp) panicMsg(v Value) string {
	iv, ok := v.(IfaceV)
	if !ok {
		return it.show(v)
	}
	if iv.T == nil {
		return "panic(nil)"
	}
	if s, ok := iv.V.(StrV); ok {
		if cs, ok := it.concStr(s); ok {
			return cs
		}
	}
	return "panic value of type " + iv.T.String()
}

type deferStackV struct{ fr *Frame }

// ---------------------------------------------------------------------
// type assertion

func (it *Interp) implements(dyn types.Type, iface *types.Interface) bool {
	k := implKey{dyn, iface}
	if r, ok := it.implCache[k]; ok {
		return r
	}
	r := types.Implements(dyn, iface)
	it.implCache[k] = r
	return r
}

type implKey struct {
	t types.Type
	i *types.Interface
}

func (it *Interp) typeAssert(x *ssa.TypeAssert, v Value) Value {
	iv := v.(IfaceV)
	at := x.AssertedType
	ok := false
	if iv.T != nil {
		if ai, isI := at.Underlying().(*types.Interface); isI {
			ok = it.implements(iv.T, ai)
		} else {
			ok = types.Identical(iv.T, at)
		}
	}
	var res Value
	if ok {
		if _, isI := at.Underlying().(*types.Interface); isI {
			res = iv
		} else {
			res = iv.V
		}
	}
	if x.CommaOk {
		if !ok {
			res = it.zeroValue(at)
		}
		return TupleV{res, it.S.Bool(ok)}
	}
	if !ok {
		msg := fmt.Sprintf("interface conversion: interface is %v, not %s", iv.T, at)
		panic(goPanic{val: it.runtimeError(msg), msg: "runtime error: " + msg + it.where()})
	}
	return res
}
