package interp

import (
	"fmt"
	"os"
	"sort"
	"sync"
	"time"

	"golang.org/x/tools/go/ssa"

	"verif/engine/sym"
)

// InputRec is one v* input of the harness, in call order.
type InputRec struct {
	Name  string
	Kind  string // "bytes", "int", "bool", "choice"
	Terms []*sym.Term
	Conc  int64 // for "choice"
	W     uint8
	Signed bool
}

// InputVal is an InputRec valued under a model (what the native replay reads).
type InputVal struct {
	Name  string  `json:"name"`
	Kind  string  `json:"kind"`
	Bytes []int   `json:"bytes,omitempty"`
	Int   int64   `json:"int"`
	Uint  uint64  `json:"uint,omitempty"`
}

type Violation struct {
	Harness string     `json:"harness"`
	Assert  string     `json:"assert"`
	Msg     string     `json:"msg,omitempty"`
	Inputs  []InputVal `json:"inputs"`
	Prefix  []int64    `json:"prefix,omitempty"`
	Notes   []string   `json:"notes,omitempty"`
}

// Path is the state of one execution path.
type Path struct {
	it       *Interp
	prefix   []int64
	pos      int
	taken    []int64
	concrete bool
	inputs   []InputRec
	vars     []*sym.Term
	model    map[string]uint64
	hasModel bool
	conds    []*sym.Term

	newWork    [][]int64
	violations []Violation
	reached    map[string]bool
	asserts    map[string]int // evaluations per assert id
	discharged int
	undecided  []string
	nontrivial bool
	notes      []string
}

type PathResult struct {
	Status     string // "ok", "infeasible", "unsupported", "budget", "deadlock", "panic", "error"
	RaceAccesses, RaceSyncOps int64
	RaceGoroutines  int
	BudgetViolation bool // status "budget" already turned into a "terminates" violation candidate
	Msg        string
	Violations []Violation
	Reached    map[string]bool
	Asserts    map[string]int
	Discharged int
	Undecided  []string
	NewWork    [][]int64
	Nontrivial bool
	Steps      int
	Sample     []InputVal
	Decisions  int
}

func (p *Path) note(s string) { p.notes = append(p.notes, s) }

// fetchModel asks the solver for a model of the current assertion stack.
func (p *Path) fetchModel() bool {
	it := p.it
	r := it.Solver.Check()
	if r != sym.Sat {
		p.hasModel = false
		return false
	}
	return p.readModel()
}

// readModel reads variable values after a Sat answer.
func (p *Path) readModel() bool {
	it := p.it
	var q []*sym.Term
	for _, v := range p.vars {
		if it.Solver.IsDefined(v) {
			q = append(q, v)
		}
	}
	vals, err := it.Solver.Values(q)
	if err != nil {
		p.hasModel = false
		return false
	}
	m := make(map[string]uint64, len(q))
	for i, v := range q {
		m[v.Name] = vals[i]
	}
	p.model = m
	p.hasModel = true
	return true
}

func (p *Path) evalBool(c *sym.Term) bool {
	return p.it.S.Eval(c, p.model, map[*sym.Term]uint64{}) != 0
}

func (p *Path) assertCond(c *sym.Term) {
	p.conds = append(p.conds, c)
	p.it.Solver.Assert(c)
}

// Branch decides a boolean condition, forking the path when both outcomes
// are feasible.
func (it *Interp) Branch(c *sym.Term) bool {
	if c.IsConst() {
		return c.K == 1
	}
	if it.noFork {
		panic(specAbort{})
	}
	p := it.path
	if p == nil || p.concrete {
		it.unsupported("symbolic branch outside a path")
	}
	S := it.S
	if p.pos < len(p.prefix) {
		d := p.prefix[p.pos]
		p.pos++
		p.taken = append(p.taken, d)
		if d == 1 {
			p.assertCond(c)
		} else {
			p.assertCond(S.BNot(c))
		}
		p.hasModel = false
		return d == 1
	}
	p.nontrivial = true
	if !p.hasModel {
		p.fetchModel()
	}
	var first bool
	var otherFeasible sym.Result
	if p.hasModel {
		first = p.evalBool(c)
		other := c
		if first {
			other = S.BNot(c)
		}
		otherFeasible = it.Solver.CheckWith(other)
	} else {
		// no model available (solver said unknown for the prefix): two-sided
		rt := it.Solver.CheckWith(c)
		switch rt {
		case sym.Unsat:
			first = false
			otherFeasible = sym.Unsat
		default:
			first = true
			otherFeasible = it.Solver.CheckWith(S.BNot(c))
			if rt == sym.Unknown && otherFeasible == sym.Unsat {
				// fine: true side it is
			}
		}
	}
	d := int64(0)
	if first {
		d = 1
	}
	if otherFeasible != sym.Unsat {
		alt := make([]int64, len(p.taken)+1)
		copy(alt, p.taken)
		alt[len(p.taken)] = 1 - d
		p.newWork = append(p.newWork, alt)
	}
	p.taken = append(p.taken, d)
	if first {
		p.assertCond(c)
	} else {
		p.assertCond(S.BNot(c))
	}
	return first
}

// Split returns a concrete value for t, forking over every feasible value.
func (it *Interp) Split(t *sym.Term, signed bool) int64 {
	conv := func(u uint64) int64 {
		if signed {
			return it.S.Const(t.W, u).SignedVal()
		}
		return int64(u)
	}
	if t.IsConst() {
		return conv(t.K)
	}
	if it.noFork {
		panic(specAbort{})
	}
	p := it.path
	if p == nil || p.concrete {
		it.unsupported("symbolic split outside a path")
	}
	S := it.S
	if p.pos < len(p.prefix) {
		d := p.prefix[p.pos]
		p.pos++
		p.taken = append(p.taken, d)
		p.assertCond(S.Eq(t, S.Const(t.W, uint64(d))))
		p.hasModel = false
		return conv(uint64(d))
	}
	p.nontrivial = true
	if !p.hasModel {
		if !p.fetchModel() {
			panic(pathAbort{"unknown", "solver gave no model at a case split" + it.where()})
		}
	}
	v0 := S.Eval(t, p.model, map[*sym.Term]uint64{})
	// enumerate the other feasible values
	it.Solver.Push()
	it.Solver.Assert(S.BNot(S.Eq(t, S.Const(t.W, v0))))
	var others []uint64
	for {
		r := it.Solver.Check()
		if r == sym.Unsat {
			break
		}
		if r == sym.Unknown {
			it.Solver.Pop()
			panic(pathAbort{"unknown", "solver unknown while enumerating a case split" + it.where()})
		}
		vals, err := it.Solver.Values([]*sym.Term{t})
		if err != nil {
			it.Solver.Pop()
			panic(pathAbort{"unknown", "cannot read model while enumerating a case split: " + err.Error()})
		}
		others = append(others, vals[0])
		if len(others) > it.MaxSplit() {
			it.Solver.Pop()
			panic(pathAbort{"unsupported", fmt.Sprintf("case split wider than %d values", it.MaxSplit()) + it.where()})
		}
		it.Solver.Assert(S.BNot(S.Eq(t, S.Const(t.W, vals[0]))))
	}
	it.Solver.Pop()
	sort.Slice(others, func(i, j int) bool { return others[i] < others[j] })
	for _, o := range others {
		alt := make([]int64, len(p.taken)+1)
		copy(alt, p.taken)
		alt[len(p.taken)] = int64(o)
		p.newWork = append(p.newWork, alt)
	}
	p.taken = append(p.taken, int64(v0))
	p.assertCond(S.Eq(t, S.Const(t.W, v0)))
	return conv(v0)
}

func (it *Interp) MaxSplit() int { return 300 }

// Choose forks over 0..n-1 without involving the solver.
func (it *Interp) Choose(n int) int {
	if it.noFork {
		panic(specAbort{})
	}
	p := it.path
	if p == nil || p.concrete {
		it.unsupported("choice outside a path")
	}
	if n <= 1 {
		return 0
	}
	if p.pos < len(p.prefix) {
		d := p.prefix[p.pos]
		p.pos++
		p.taken = append(p.taken, d)
		return int(d)
	}
	for k := n - 1; k >= 1; k-- {
		alt := make([]int64, len(p.taken)+1)
		copy(alt, p.taken)
		alt[len(p.taken)] = int64(k)
		p.newWork = append(p.newWork, alt)
	}
	p.taken = append(p.taken, 0)
	return 0
}

// Assume constrains the path.
func (it *Interp) Assume(c *sym.Term) {
	if c.IsTrue() {
		return
	}
	if c.IsFalse() {
		panic(pathAbort{"infeasible", "assumption false"})
	}
	p := it.path
	if p.pos < len(p.prefix) || (p.hasModel && p.evalBool(c)) {
		// inside the replayed prefix feasibility was established before
		p.assertCond(c)
		if p.pos < len(p.prefix) {
			p.hasModel = false
		}
		return
	}
	it.Solver.Push()
	it.Solver.Assert(c)
	r := it.Solver.Check()
	if r == sym.Unsat {
		it.Solver.Pop()
		panic(pathAbort{"infeasible", "assumption unsatisfiable"})
	}
	ok := false
	if r == sym.Sat {
		ok = p.readModel()
	}
	it.Solver.Pop()
	p.assertCond(c)
	p.hasModel = ok
}

func (p *Path) valueInputs() []InputVal {
	it := p.it
	memo := map[*sym.Term]uint64{}
	out := make([]InputVal, 0, len(p.inputs))
	for _, in := range p.inputs {
		iv := InputVal{Name: in.Name, Kind: in.Kind}
		switch in.Kind {
		case "bytes":
			iv.Bytes = make([]int, len(in.Terms))
			for i, t := range in.Terms {
				iv.Bytes[i] = int(it.S.Eval(t, p.model, memo))
			}
		case "choice":
			iv.Int = in.Conc
		default:
			u := it.S.Eval(in.Terms[0], p.model, memo)
			iv.Uint = u
			if in.Signed {
				iv.Int = it.S.Const(in.W, u).SignedVal()
			} else {
				iv.Int = int64(u)
			}
		}
		out = append(out, iv)
	}
	return out
}

// Assert checks an obligation on the current path.
func (it *Interp) Assert(id string, c *sym.Term) {
	p := it.path
	p.asserts[id]++
	if c.IsTrue() {
		p.discharged++
		return
	}
	S := it.S
	nc := S.BNot(c)
	violated := false
	if !c.IsFalse() && p.hasModel && !p.evalBool(nc) {
		// current model satisfies c; ask the solver for a violating one
		it.Solver.Push()
		it.Solver.Assert(nc)
		r := it.Solver.CheckPatient()
		switch r {
		case sym.Unsat:
			p.discharged++
		case sym.Unknown:
			p.undecided = append(p.undecided, id)
		case sym.Sat:
			save, saveOK := p.model, p.hasModel
			if p.readModel() {
				violated = true
				p.recordViolation(id, "")
			} else {
				p.undecided = append(p.undecided, id)
			}
			p.model, p.hasModel = save, saveOK
		}
		it.Solver.Pop()
		if !violated {
			p.assertCond(c)
			return
		}
	} else {
		if !p.hasModel {
			// need a model of pc ∧ ¬c
			it.Solver.Push()
			it.Solver.Assert(nc)
			r := it.Solver.CheckPatient()
			switch r {
			case sym.Unsat:
				p.discharged++
			case sym.Unknown:
				p.undecided = append(p.undecided, id)
			case sym.Sat:
				if p.readModel() {
					violated = true
					p.recordViolation(id, "")
				} else {
					p.undecided = append(p.undecided, id)
				}
				p.hasModel = false
			}
			it.Solver.Pop()
		} else {
			// the current model already violates the assertion
			violated = true
			p.recordViolation(id, "")
		}
	}
	if c.IsFalse() {
		panic(pathAbort{"done", "assertion " + id + " fails on every input of this path"})
	}
	// continue under the assumption that the assertion holds
	if violated {
		p.hasModel = false
		r := it.Solver.CheckWith(c)
		if r == sym.Unsat {
			panic(pathAbort{"done", "assertion " + id + " fails on every input of this path"})
		}
	}
	p.assertCond(c)
}

func (p *Path) recordViolation(id, msg string) {
	v := Violation{Assert: id, Msg: msg, Inputs: p.valueInputs(), Notes: append([]string(nil), p.notes...)}
	v.Prefix = append([]int64(nil), p.taken...)
	p.violations = append(p.violations, v)
}

// ---------------------------------------------------------------------
// exploration driver

type Stats struct {
	RaceAccesses, RaceSyncOps int64
	RaceGoroutines            int
	Paths       int
	ByStatus    map[string]int
	Steps       int64
	Discharged  int
	Asserts     map[string]int
	Reached     map[string]bool
	Undecided   []string
	Violations  []Violation
	Problems    []string // unsupported / budget / errors (non-green)
	Nontrivial  int
	Samples     [][]InputVal
	Queries     struct{ Sat, Unsat, Unknown, Errors int }
	SolverTime  time.Duration
	Wall        time.Duration
	Funcs       map[string]bool
	Capped      bool
	MaxDecisions int
}

type ExploreOpts struct {
	Workers   int
	PathCap   int
	Solver    string
	TimeoutMs int
	WordBits  uint8
	InitPkg   *ssa.Package
	Setup     func(it *Interp)
	StepBudget int
	MaxViolations int
	Debug     bool
	Deadline  time.Time
	Progress  bool
}

// Explore runs harness fn over all feasible paths.
func Explore(prog *ssa.Program, fn *ssa.Function, opts ExploreOpts) (*Stats, error) {
	if opts.Workers <= 0 {
		opts.Workers = 8
	}
	if opts.PathCap <= 0 {
		opts.PathCap = 200000
	}
	if opts.TimeoutMs <= 0 {
		opts.TimeoutMs = 10000
	}
	if opts.MaxViolations <= 0 {
		opts.MaxViolations = 5
	}
	st := &Stats{ByStatus: map[string]int{}, Asserts: map[string]int{}, Reached: map[string]bool{}, Funcs: map[string]bool{}}
	var mu sync.Mutex
	cond := sync.NewCond(&mu)
	work := [][]int64{{}}
	active := 0
	stop := false
	var firstErr error
	t0 := time.Now()

	var wg sync.WaitGroup
	progDone := make(chan struct{})
	if opts.Progress {
		go func() {
			tk := time.NewTicker(10 * time.Second)
			defer tk.Stop()
			for {
				select {
				case <-progDone:
					return
				case <-tk.C:
					mu.Lock()
					fmt.Fprintf(os.Stderr, "  [%s] %.0fs paths=%d queue=%d active=%d status=%v viol=%d\n", fn.Name(), time.Since(t0).Seconds(), st.Paths, len(work), active, st.ByStatus, len(st.Violations))
					mu.Unlock()
				}
			}
		}()
	}
	defer close(progDone)
	for w := 0; w < opts.Workers; w++ {
		wg.Add(1)
		go func(w int) {
			defer wg.Done()
			var it *Interp
			defer func() {
				if it != nil && it.Solver != nil {
					mu.Lock()
					q := it.Solver.Queries
					st.Queries.Sat += q.Sat
					st.Queries.Unsat += q.Unsat
					st.Queries.Unknown += q.Unknown
					st.Queries.Errors += q.Errors
					st.SolverTime += it.Solver.Time
					for f := range it.FuncsSeen {
						st.Funcs[f.String()] = true
					}
					mu.Unlock()
					it.Solver.Close()
				}
			}()
			for {
				mu.Lock()
				for len(work) == 0 && active > 0 && !stop {
					cond.Wait()
				}
				if stop || (len(work) == 0 && active == 0) {
					mu.Unlock()
					cond.Broadcast()
					return
				}
				prefix := work[len(work)-1]
				work = work[:len(work)-1]
				active++
				mu.Unlock()

				if it == nil {
					it = New(prog, opts.WordBits)
					it.Debug = opts.Debug
					if opts.StepBudget > 0 {
						it.StepBudget = opts.StepBudget
					}
					sv, err := sym.NewSolver(opts.Solver, opts.TimeoutMs)
					if err == nil {
						if lp := os.Getenv("GOSYM_SMTLOG"); lp != "" && w == 0 {
							if f, e := os.Create(lp); e == nil {
								sv.Log = f
							}
						}
						it.Solver = sv
						if opts.Setup != nil {
							opts.Setup(it)
						}
						if opts.InitPkg != nil {
							it.RegisterStubs(opts.InitPkg)
							err = it.RunInit(opts.InitPkg)
						}
					}
					if err != nil {
						mu.Lock()
						if firstErr == nil {
							firstErr = fmt.Errorf("worker init: %w", err)
						}
						stop = true
						active--
						mu.Unlock()
						cond.Broadcast()
						return
					}
				}
				res := it.RunPath(fn, prefix)

				mu.Lock()
				active--
				st.Paths++
				st.ByStatus[res.Status]++
				st.Steps += int64(res.Steps)
				st.RaceAccesses += res.RaceAccesses
				st.RaceSyncOps += res.RaceSyncOps
				if res.RaceGoroutines > st.RaceGoroutines {
					st.RaceGoroutines = res.RaceGoroutines
				}
				st.Discharged += res.Discharged
				if res.Decisions > st.MaxDecisions {
					st.MaxDecisions = res.Decisions
				}
				for k, v := range res.Asserts {
					st.Asserts[k] += v
				}
				for k := range res.Reached {
					st.Reached[k] = true
				}
				st.Undecided = append(st.Undecided, res.Undecided...)
				if res.Nontrivial {
					st.Nontrivial++
				}
				if len(res.Sample) > 0 {
					// keep the first three and the latest three sampled paths
					if len(st.Samples) < 6 {
						st.Samples = append(st.Samples, res.Sample)
					} else {
						st.Samples[3+st.Paths%3] = res.Sample
					}
				}
				switch res.Status {
				case "unsupported", "budget", "error", "unknown", "deadlock":
					if (res.Status == "budget" || res.Status == "deadlock") && res.BudgetViolation {
						break
					}
					if len(st.Problems) < 20 {
						st.Problems = append(st.Problems, res.Status+": "+res.Msg)
					}
				}
				st.Violations = append(st.Violations, res.Violations...)
				if len(st.Violations) >= opts.MaxViolations {
					stop = true
				}
				work = append(work, res.NewWork...)
				if st.Paths+len(work) > opts.PathCap && st.Paths >= opts.PathCap {
					st.Capped = true
					stop = true
				}
				if !opts.Deadline.IsZero() && time.Now().After(opts.Deadline) {
					st.Capped = true
					stop = true
				}
				mu.Unlock()
				cond.Broadcast()
			}
		}(w)
	}
	wg.Wait()
	st.Wall = time.Since(t0)
	if len(work) > 0 && len(st.Violations) < opts.MaxViolations {
		st.Capped = true
	}
	return st, firstErr
}

// RunPath executes one path following prefix.
func (it *Interp) RunPath(fn *ssa.Function, prefix []int64) (res *PathResult) {
	p := &Path{it: it, prefix: prefix, reached: map[string]bool{}, asserts: map[string]int{}}
	it.path = p
	it.steps = 0
	it.syncState = map[syncKey]*syncObj{}
	it.pools = map[syncKey]*poolState{}
	it.smaps = map[syncKey]*smapState{}
	it.ghost = map[string]Value{}
	it.clock = nil
	it.clockN = 0
	it.Solver.Push()
	res = &PathResult{Status: "ok"}
	func() {
		defer func() {
			if r := recover(); r != nil {
				if pa, ok := r.(pathAbort); ok {
					switch pa.kind {
					case "done", "infeasible":
						res.Status = "ok"
						if pa.kind == "infeasible" {
							res.Status = "infeasible"
						}
					default:
						res.Status = pa.kind
					}
					res.Msg = pa.msg
					return
				}
				res.Status = "error"
				res.Msg = fmt.Sprintf("engine panic: %v%s", r, it.where())
				if it.Debug {
					panic(r)
				}
			}
		}()
		err := it.runToCompletion(func(g *Goroutine) {
			it.callValue(g, nil, nil, it.funcValue(fn), nil, nil)
		})
		if err != nil {
			// uncaught interpreted panic or abort inside runToCompletion
			msg := err.Error()
			switch {
			case len(msg) >= 6 && msg[:6] == "panic:":
				res.Status = "panic"
				res.Msg = msg
			default:
				// pathAbort converted to error
				for _, k := range []string{"unsupported", "budget", "infeasible", "done", "unknown", "deadlock"} {
					if len(msg) > len(k) && msg[:len(k)] == k {
						res.Status = k
					}
				}
				if res.Status == "ok" {
					res.Status = "error"
				}
				if res.Status == "done" {
					res.Status = "ok"
				}
				res.Msg = msg
			}
		}
	}()
	if res.Status == "panic" {
		// an uncaught panic is a violation of the implicit no-panic obligation
		if !p.hasModel {
			p.fetchModel()
		}
		if p.hasModel {
			p.recordViolation("no-panic", res.Msg)
		} else {
			p.undecided = append(p.undecided, "no-panic")
		}
	}
	budgetViolation := false
	if res.Status == "budget" || res.Status == "deadlock" {
		// running out of the instruction budget is how non-termination shows:
		// a candidate violation of the implicit "terminates" obligation, to be
		// confirmed by the native replay (which must then time out as well)
		if !p.hasModel {
			p.fetchModel()
		}
		if p.hasModel {
			p.recordViolation("terminates", res.Msg)
			budgetViolation = true
		}
	}
	res.BudgetViolation = budgetViolation
	if res.Status == "ok" && len(p.inputs) > 0 && p.nontrivial {
		if !p.hasModel {
			p.fetchModel()
		}
		if p.hasModel {
			res.Sample = p.valueInputs()
		}
	}
	it.Solver.Pop()
	for it.Solver.Depth() > 0 {
		it.Solver.Pop()
	}
	it.unwindTrail()
	it.path = nil
	res.Violations = p.violations
	res.Reached = p.reached
	res.Asserts = p.asserts
	res.Discharged = p.discharged
	res.Undecided = p.undecided
	res.NewWork = p.newWork
	res.Nontrivial = p.nontrivial
	res.Steps = it.steps
	if it.race != nil {
		res.RaceAccesses, res.RaceSyncOps, res.RaceGoroutines = it.race.accesses, it.race.syncOps, it.race.maxGoroutines
	}
	res.Decisions = len(p.taken)
	return res
}
