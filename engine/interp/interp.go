package interp

import (
	"fmt"
	"go/token"
	"go/types"
	"sort"
	"strings"

	"golang.org/x/tools/go/ssa"

	"verif/engine/sym"
)

var tokenLSS = token.LSS

// Interp is one symbolic interpreter instance (one per worker).
type Interp struct {
	Prog     *ssa.Program
	S        *sym.Store
	Solver   *sym.Solver
	wordBits uint8

	layouts   map[types.Type]*layout
	fnInfos   map[*ssa.Function]*fnInfo
	funcVals  map[*ssa.Function]*FuncV
	globals   map[*ssa.Global]*Obj
	strObjs   map[string]*Obj
	methCache map[methKey]*ssa.Function
	implCache map[implKey]bool
	intrCache map[*ssa.Function]Intrinsic
	stubs     map[string]*ssa.Function // harness-level stubs (//verif:stub)
	natives   map[string]func(*Interp, *FuncV, []Value) Value
	rtErrType types.Type

	objSeq    int
	trailOn   bool
	trailBase int
	trail     []trailEntry

	// goroutines
	gs       []*Goroutine
	cur      *Goroutine
	gSeq     int
	yieldReq bool
	goschedReq bool // runtime.Gosched: run the next runnable goroutine (round robin)
	yieldNext *Goroutine

	// per-path state
	steps      int
	StepBudget int
	MaxDepth   int
	MaxMake    int64
	MaxSymIndex int
	path       *Path
	syncState  map[syncKey]*syncObj
	pools      map[syncKey]*poolState
	smaps      map[syncKey]*smapState
	ghost      map[string]Value
	clock      *sym.Term // seconds, symbolic monotone
	clockN     int

	pdoms   map[*ssa.Function]*pdomInfo
	regions map[*ssa.BasicBlock]*regionInfo
	NoMerge bool
	noFork  bool
	merges  int

	initDone map[*ssa.Package]bool
	uniq     map[string]*Obj
	InitAllow func(pkgPath string) bool

	Params map[string]int  // vParam values for this run
	Known  map[string]bool // active known-finding ids (vKnown)

	race        *raceState
	raceEnabled bool

	FuncsSeen map[*ssa.Function]int
	Debug     bool
	Trace     bool
}

type syncKey struct {
	obj *Obj
	off int
}

func New(prog *ssa.Program, wordBits uint8) *Interp {
	it := &Interp{
		Prog:      prog,
		S:         sym.NewStore(),
		wordBits:  wordBits,
		layouts:   map[types.Type]*layout{},
		fnInfos:   map[*ssa.Function]*fnInfo{},
		funcVals:  map[*ssa.Function]*FuncV{},
		globals:   map[*ssa.Global]*Obj{},
		strObjs:   map[string]*Obj{},
		methCache: map[methKey]*ssa.Function{},
		implCache: map[implKey]bool{},
		intrCache: map[*ssa.Function]Intrinsic{},
		natives:   map[string]func(*Interp, *FuncV, []Value) Value{},
		initDone:  map[*ssa.Package]bool{},
		pdoms:     map[*ssa.Function]*pdomInfo{},
		regions:   map[*ssa.BasicBlock]*regionInfo{},
		FuncsSeen: map[*ssa.Function]int{},
		StepBudget: 3000000,
		MaxDepth:   400,
		MaxMake:    1 << 20,
		MaxSymIndex: 256,
	}
	if rt := prog.ImportedPackage("runtime"); rt != nil {
		if tn := rt.Type("errorString"); tn != nil {
			it.rtErrType = tn.Type()
		}
	}
	it.registerNatives()
	wrapSyncOnce.Do(wrapSyncIntrinsics)
	return it
}

// RunInit interprets the package initialisers of the allowed packages, in
// dependency order, starting from pkg. Must be called before the first path.
func (it *Interp) RunInit(pkg *ssa.Package) error {
	it.trailOn = false
	it.path = &Path{it: it, concrete: true}
	it.syncState = map[syncKey]*syncObj{}
	it.pools = map[syncKey]*poolState{}
	it.ghost = map[string]Value{}
	err := it.runToCompletion(func(g *Goroutine) {
		fn := pkg.Func("init")
		it.callValue(g, nil, nil, it.funcValue(fn), nil, nil)
	})
	if err == nil {
		it.postInit()
	}
	it.path = nil
	it.trailBase = it.objSeq
	it.trailOn = true
	return err
}

// runToCompletion runs a fresh main goroutine until everything stops.
func (it *Interp) runToCompletion(start func(g *Goroutine)) (err error) {
	it.gs = nil
	it.gSeq = 0
	it.raceReset()
	g := it.newGoroutine()
	it.cur = g
	it.raceFork(nil, g)
	defer func() {
		if r := recover(); r != nil {
			if pa, ok := r.(pathAbort); ok {
				if pa.kind == "gopanic" {
					// an uncaught panic in any goroutine ends the program: the
					// same violation of the implicit no-panic obligation
					err = fmt.Errorf("panic: %s", pa.msg)
					return
				}
				err = fmt.Errorf("%s: %s", pa.kind, pa.msg)
				return
			}
			if gp, ok := r.(goPanic); ok {
				err = fmt.Errorf("panic: %s", gp.msg)
				return
			}
			panic(r)
		}
	}()
	start(g)
	it.runLoop()
	if g.exitPanic != nil {
		return fmt.Errorf("panic: %s", g.exitPanic.msg)
	}
	if g.state == gBlocked {
		// nothing can wake the main goroutine any more: the harness never returns
		return fmt.Errorf("deadlock: main goroutine blocked forever (%s)%s", g.waitDesc, it.whereG(g))
	}
	return nil
}

// FuncsEncoded lists the functions interpreted so far (for evidence).
func (it *Interp) FuncsEncoded(prefixes ...string) []string {
	var out []string
	for fn := range it.FuncsSeen {
		s := fn.String()
		if len(prefixes) == 0 {
			out = append(out, s)
			continue
		}
		for _, p := range prefixes {
			if strings.Contains(s, p) {
				out = append(out, s)
				break
			}
		}
	}
	sort.Strings(out)
	return out
}
