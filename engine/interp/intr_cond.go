package interp

import (
	"go/types"
)

// sync.Cond on the cooperative scheduler. L must be a *sync.Mutex (or the
// write side of a *sync.RWMutex). Wait releases L, parks until a Signal or
// Broadcast issued after it parked, and re-acquires L before returning.

type condState struct {
	seq     int // number of Wait calls so far (tickets)
	bcast   int // tickets below this value have been broadcast to
	credits int // Signal credits not yet consumed
	waiting int // parked waiters not covered by a broadcast or a consumed credit
}

func (it *Interp) condAt(p PtrV) *condState {
	k := "__cond:" + itoa(p.Obj.ID) + ":" + itoa(p.Off)
	if v, ok := it.ghost[k]; ok {
		return v.(*condState)
	}
	c := &condState{}
	it.ghost[k] = c
	return c
}

func itoa(n int) string {
	if n == 0 {
		return "0"
	}
	neg := n < 0
	if neg {
		n = -n
	}
	s := ""
	for n > 0 {
		s = string(rune('0'+n%10)) + s
		n /= 10
	}
	if neg {
		s = "-" + s
	}
	return s
}

func (it *Interp) condLocker(c PtrV) PtrV {
	ct := it.Prog.ImportedPackage("sync").Type("Cond").Type()
	st := ct.Underlying().(*types.Struct)
	lay := it.layoutOf(ct)
	for i := 0; i < st.NumFields(); i++ {
		if st.Field(i).Name() == "L" {
			iv, _ := it.load(PtrV{Obj: c.Obj, Off: c.Off + lay.fields[i]}, st.Field(i).Type()).(IfaceV)
			if iv.T == nil {
				it.throwRuntime("invalid memory address or nil pointer dereference (sync.Cond with nil L)")
			}
			ts := iv.T.String()
			if ts != "*sync.Mutex" && ts != "*sync.RWMutex" {
				it.unsupported("sync.Cond over a Locker of type " + ts)
			}
			return iv.V.(PtrV)
		}
	}
	it.unsupported("sync.Cond layout")
	return PtrV{}
}

func init() {
	intrinsics["(*sync.Cond).Wait"] = func(it *Interp, a []Value) Value {
		c := a[0].(PtrV)
		if c.Obj == nil {
			it.throwRuntime("invalid memory address or nil pointer dereference")
		}
		mu := it.condLocker(c)
		cs := it.condAt(c)
		ticket := cs.seq
		cs.seq++
		cs.waiting++
		it.mutexUnlock(mu, true)
		g := it.cur
		released := false
		it.block(g, "Cond.Wait", func() bool {
			if !released {
				if ticket < cs.bcast {
					released = true
				} else if cs.credits > 0 {
					cs.credits--
					cs.waiting--
					released = true
				}
			}
			if !released {
				return false
			}
			s := it.syncAt(mu)
			if !s.locked && s.readers == 0 {
				s.locked = true
				s.owner = g
				it.raceAcquire(syncKey{mu.Obj, mu.Off})
				it.raceAcquire(syncKey{c.Obj, c.Off})
				return true
			}
			return false
		})
		return nil
	}
	intrinsics["(*sync.Cond).Signal"] = func(it *Interp, a []Value) Value {
		c := a[0].(PtrV)
		cs := it.condAt(c)
		// a Signal with nobody waiting is lost
		if cs.waiting-cs.credits > 0 {
			cs.credits++
		}
		return nil
	}
	intrinsics["(*sync.Cond).Broadcast"] = func(it *Interp, a []Value) Value {
		c := a[0].(PtrV)
		cs := it.condAt(c)
		it.raceRelease(syncKey{c.Obj, c.Off})
		cs.bcast = cs.seq
		cs.credits = 0
		cs.waiting = 0
		return nil
	}
}
