package interp

import (
	"go/types"
)

func init() {
	more := map[string]Intrinsic{
		"internal/reflectlite.TypeOf": func(it *Interp, a []Value) Value {
			rt := it.Prog.ImportedPackage("internal/reflectlite").Type("rtype").Type()
			return IfaceV{T: rt, V: AggV{[]Value{PtrV{}}}}
		},
		"(internal/reflectlite.rtype).Elem": func(it *Interp, a []Value) Value {
			rt := it.Prog.ImportedPackage("internal/reflectlite").Type("rtype").Type()
			return IfaceV{T: rt, V: a[0]}
		},
	}
	// reflect.TypeOf: an opaque *rtype, one identity per dynamic type (only
	// comparisons of such values are supported; their methods are not)
	more["reflect.TypeOf"] = func(it *Interp, a []Value) Value {
		iv, ok := a[0].(IfaceV)
		if !ok || iv.T == nil {
			return IfaceV{}
		}
		key := "reflect.TypeOf:" + iv.T.String()
		if it.uniq == nil {
			it.uniq = map[string]*Obj{}
		}
		o := it.uniq[key]
		if o == nil {
			o = it.newObj(1, "rtype")
			it.uniq[key] = o
			if it.trailOn {
				k := key
				it.addUndo(func() { delete(it.uniq, k) })
			}
		}
		rt := it.Prog.ImportedPackage("reflect").Type("rtype").Type()
		return IfaceV{T: types.NewPointer(rt), V: PtrV{Obj: o}}
	}
	more["(internal/reflectlite.rtype).Comparable"] = func(it *Interp, a []Value) Value { return it.S.Bool(true) }
	more["unique.Make"] = func(it *Interp, a []Value) Value {
		key, ok := it.concKey(a[0])
		var o *Obj
		if ok {
			o = it.uniq[key]
		}
		if o == nil {
			var slots []Value
			if ag, isAgg := a[0].(AggV); isAgg {
				slots = append(slots, ag.Slots...)
			} else {
				slots = []Value{a[0]}
			}
			o = it.newObj(len(slots), "unique")
			copy(o.Slots, slots)
			if ok {
				if it.uniq == nil {
					it.uniq = map[string]*Obj{}
				}
				if !it.trailOn {
					it.uniq[key] = o
				} else {
					k := key
					it.uniq[k] = o
					it.addUndo(func() { delete(it.uniq, k) })
				}
			}
		}
		return AggV{[]Value{PtrV{Obj: o}}}
	}
	// runtime.AddCleanup[T, S]: the cleanup never runs inside one bounded run;
	// the result is the zero Cleanup{id uint64; ptr uintptr}.
	more["runtime.AddCleanup"] = func(it *Interp, a []Value) Value {
		return AggV{[]Value{it.S.Const(64, 0), it.S.Const(it.wordBits, 0)}}
	}
	// content types are not the subject of any obligation: a fixed table for
	// the built-in extensions, "" otherwise (so that the caller's own sniffing
	// path — read the first 512 bytes, seek back — still runs), and a constant
	// for the sniffer.
	more["mime.TypeByExtension"] = func(it *Interp, a []Value) Value {
		ext, ok := it.concStr(a[0].(StrV))
		if !ok {
			return StrV{}
		}
		switch ext {
		case ".html", ".htm":
			return it.mkStr("text/html; charset=utf-8")
		case ".css":
			return it.mkStr("text/css; charset=utf-8")
		case ".js":
			return it.mkStr("text/javascript; charset=utf-8")
		case ".json":
			return it.mkStr("application/json")
		case ".png":
			return it.mkStr("image/png")
		case ".txt":
			return it.mkStr("text/plain; charset=utf-8")
		}
		return StrV{}
	}
	more["net/http.DetectContentType"] = func(it *Interp, a []Value) Value {
		return it.mkStr("application/octet-stream")
	}
	// go:linkname: mime/multipart.readMIMEHeader is net/textproto.readMIMEHeader
	more["mime/multipart.readMIMEHeader"] = func(it *Interp, a []Value) Value {
		tp := it.Prog.ImportedPackage("net/textproto")
		if tp == nil || tp.Func("readMIMEHeader") == nil {
			it.unsupported("net/textproto.readMIMEHeader is not in the program")
		}
		return tailCall{fn: it.funcValue(tp.Func("readMIMEHeader")), args: a}
	}
	// GODEBUG settings: every setting has its default value (empty string)
	more["(*internal/godebug.Setting).Value"] = func(it *Interp, a []Value) Value { return StrV{} }
	more["(*internal/godebug.Setting).IncNonDefault"] = noop
	for _, n := range []string{
		"sync.runtime_registerPoolCleanup", "sync.runtime_notifyListCheck", "sync.throw", "sync.fatal",
		"internal/sync.runtime_registerPoolCleanup", "os.runtime_args", "syscall.runtime_envs",
		"internal/godebug.registerMetric", "internal/godebug.setUpdate", "internal/godebug.setNewIncNonDefault",
		"os.checkPidfdOnce", "os.runtime_beforeExit", "internal/poll.runtime_pollServerInit",
	} {
		more[n] = noop
	}
	for k, v := range more {
		intrinsics[k] = v
	}
}

var _ = types.Typ

// postInit fills in the few globals of packages whose initialisers are not
// interpreted (os) from the packages that are.
func (it *Interp) postInit() {
	cp := func(dstPkg, dst, srcPkg, src string) {
		dp, sp := it.Prog.ImportedPackage(dstPkg), it.Prog.ImportedPackage(srcPkg)
		if dp == nil || sp == nil {
			return
		}
		dg, sg := dp.Var(dst), sp.Var(src)
		if dg == nil || sg == nil {
			return
		}
		it.globalObj(dg).Slots[0] = it.globalObj(sg).Slots[0]
	}
	cp("os", "ErrInvalid", "io/fs", "ErrInvalid")
	cp("os", "ErrPermission", "io/fs", "ErrPermission")
	cp("os", "ErrExist", "io/fs", "ErrExist")
	cp("os", "ErrNotExist", "io/fs", "ErrNotExist")
	cp("os", "ErrClosed", "io/fs", "ErrClosed")
	cp("os", "ErrDeadlineExceeded", "internal/poll", "ErrDeadlineExceeded")
	cp("os", "ErrNoDeadline", "internal/poll", "ErrNoDeadline")
}
