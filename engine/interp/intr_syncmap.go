package interp

// sync.Map as an association list (Go 1.24+ implements it on an internal hash
// trie that reads type metadata through unsafe pointers, which the interpreter
// does not model). Keys are compared with Go's interface equality; a
// comparison that depends on symbolic data forks the path.

type smapEntry struct{ k, v Value }
type smapState struct{ entries []smapEntry }

func (it *Interp) smapAt(p PtrV) *smapState {
	if p.Obj == nil {
		it.throwRuntime("invalid memory address or nil pointer dereference")
	}
	k := syncKey{p.Obj, p.Off}
	if it.smaps == nil {
		it.smaps = map[syncKey]*smapState{}
	}
	s := it.smaps[k]
	if s == nil {
		s = &smapState{}
		it.smaps[k] = s
	}
	return s
}

func (it *Interp) smapFind(s *smapState, key Value) int {
	for i, e := range s.entries {
		t := it.eqValues(anyType, e.k, key)
		if t.IsTrue() {
			return i
		}
		if t.IsFalse() {
			continue
		}
		if it.Branch(t) {
			return i
		}
	}
	return -1
}

func init() {
	nilAny := IfaceV{}
	intrinsics["(*sync.Map).Load"] = func(it *Interp, a []Value) Value {
		s := it.smapAt(a[0].(PtrV))
		if i := it.smapFind(s, a[1]); i >= 0 {
			return TupleV{s.entries[i].v, it.S.True}
		}
		return TupleV{nilAny, it.S.False}
	}
	intrinsics["(*sync.Map).Store"] = func(it *Interp, a []Value) Value {
		s := it.smapAt(a[0].(PtrV))
		if i := it.smapFind(s, a[1]); i >= 0 {
			s.entries[i].v = a[2]
		} else {
			s.entries = append(s.entries, smapEntry{a[1], a[2]})
		}
		return nil
	}
	intrinsics["(*sync.Map).Swap"] = func(it *Interp, a []Value) Value {
		s := it.smapAt(a[0].(PtrV))
		if i := it.smapFind(s, a[1]); i >= 0 {
			old := s.entries[i].v
			s.entries[i].v = a[2]
			return TupleV{old, it.S.True}
		}
		s.entries = append(s.entries, smapEntry{a[1], a[2]})
		return TupleV{nilAny, it.S.False}
	}
	intrinsics["(*sync.Map).LoadOrStore"] = func(it *Interp, a []Value) Value {
		s := it.smapAt(a[0].(PtrV))
		if i := it.smapFind(s, a[1]); i >= 0 {
			return TupleV{s.entries[i].v, it.S.True}
		}
		s.entries = append(s.entries, smapEntry{a[1], a[2]})
		return TupleV{a[2], it.S.False}
	}
	del := func(it *Interp, a []Value) (Value, bool) {
		s := it.smapAt(a[0].(PtrV))
		if i := it.smapFind(s, a[1]); i >= 0 {
			v := s.entries[i].v
			s.entries = append(append([]smapEntry(nil), s.entries[:i]...), s.entries[i+1:]...)
			return v, true
		}
		return nilAny, false
	}
	intrinsics["(*sync.Map).LoadAndDelete"] = func(it *Interp, a []Value) Value {
		v, ok := del(it, a)
		return TupleV{v, it.S.Bool(ok)}
	}
	intrinsics["(*sync.Map).Delete"] = func(it *Interp, a []Value) Value {
		del(it, a)
		return nil
	}
	intrinsics["(*sync.Map).Clear"] = func(it *Interp, a []Value) Value {
		it.smapAt(a[0].(PtrV)).entries = nil
		return nil
	}
	intrinsics["(*sync.Map).Range"] = func(it *Interp, a []Value) Value {
		s := it.smapAt(a[0].(PtrV))
		fv, _ := a[1].(*FuncV)
		if fv == nil {
			it.throwRuntime("invalid memory address or nil pointer dereference (nil func call)")
		}
		snapshot := append([]smapEntry(nil), s.entries...)
		for _, e := range snapshot {
			r := it.callSync(fv, []Value{e.k, e.v})
			t, ok := r.(interface{ IsFalse() bool })
			if ok && t.IsFalse() {
				break
			}
		}
		return nil
	}
}
