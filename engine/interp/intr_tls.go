package interp

import (
	"go/types"
)

// A transparent model of crypto/tls for client connections (C21): tls.Client
// wraps the raw connection in a *tls.Conn whose handshake always succeeds and
// whose Read/Write pass the plaintext through to the wrapped connection. When
// the wrapped connection's dynamic type has the marker methods VTLSWrite /
// VTLSRead / VTLSHandshake (harness connections do), those are called instead
// of Write / Read, so a harness can tell bytes that travelled inside TLS from
// bytes written to the raw connection directly. Nothing of the real TLS stack
// (records, certificates, key exchange) is modelled.

func (it *Interp) tlsConnType() types.Type {
	p := it.Prog.ImportedPackage("crypto/tls")
	if p == nil {
		it.unsupported("crypto/tls is not part of the program")
	}
	return p.Type("Conn").Type()
}

// tlsInner returns the wrapped net.Conn of a modelled *tls.Conn.
func (it *Interp) tlsInner(recv Value) IfaceV {
	p := recv.(PtrV)
	if p.Obj == nil {
		it.throwRuntime("invalid memory address or nil pointer dereference")
	}
	iv, ok := p.Obj.Slots[p.Off].(IfaceV)
	if !ok || iv.T == nil {
		it.unsupported("tls.Conn model: wrapped connection is not set")
	}
	return iv
}

func (it *Interp) tlsForward(recv Value, marker, plain string, args ...Value) Value {
	inner := it.tlsInner(recv)
	m := it.lookupMethodByName(inner.T, marker)
	if m == nil {
		m = it.lookupMethodByName(inner.T, plain)
	}
	if m == nil {
		it.unsupported("tls.Conn model: wrapped connection has no " + plain)
	}
	return it.callSync(it.funcValue(m), append([]Value{inner.V}, args...))
}

func init() {
	intrinsics["crypto/tls.Client"] = func(it *Interp, a []Value) Value {
		ct := it.tlsConnType()
		o := it.allocType(ct, "tls.Conn")
		o.Slots[0] = a[0] // field conn
		inner, _ := a[0].(IfaceV)
		if inner.T != nil {
			if m := it.lookupMethodByName(inner.T, "VTLSHandshake"); m != nil {
				// hand the configured ServerName to the harness connection
				name := Value(StrV{})
				if cp, ok := a[1].(PtrV); ok && cp.Obj != nil {
					cfgT := it.Prog.ImportedPackage("crypto/tls").Type("Config").Type()
					st := cfgT.Underlying().(*types.Struct)
					l := it.layoutOf(cfgT)
					for i := 0; i < st.NumFields(); i++ {
						if st.Field(i).Name() == "ServerName" {
							name = cp.Obj.Slots[cp.Off+l.fields[i]]
						}
					}
				}
				it.callSync(it.funcValue(m), []Value{inner.V, name})
			}
		}
		return PtrV{Obj: o}
	}
	nilErr := func(it *Interp, a []Value) Value { return IfaceV{} }
	intrinsics["(*crypto/tls.Conn).Handshake"] = nilErr
	intrinsics["(*crypto/tls.Conn).HandshakeContext"] = nilErr
	intrinsics["(*crypto/tls.Conn).Write"] = func(it *Interp, a []Value) Value {
		return it.tlsForward(a[0], "VTLSWrite", "Write", a[1])
	}
	intrinsics["(*crypto/tls.Conn).Read"] = func(it *Interp, a []Value) Value {
		return it.tlsForward(a[0], "VTLSRead", "Read", a[1])
	}
	for _, n := range []string{"Close", "LocalAddr", "RemoteAddr"} {
		name := n
		intrinsics["(*crypto/tls.Conn)."+name] = func(it *Interp, a []Value) Value {
			return it.tlsForward(a[0], name, name)
		}
	}
	for _, n := range []string{"SetDeadline", "SetReadDeadline", "SetWriteDeadline"} {
		name := n
		intrinsics["(*crypto/tls.Conn)."+name] = func(it *Interp, a []Value) Value {
			return it.tlsForward(a[0], name, name, a[1])
		}
	}
	intrinsics["(*crypto/tls.Config).Clone"] = func(it *Interp, a []Value) Value {
		p := a[0].(PtrV)
		if p.Obj == nil {
			return PtrV{}
		}
		cfgT := it.Prog.ImportedPackage("crypto/tls").Type("Config").Type()
		o := it.allocType(cfgT, "tls.Config")
		n := it.sizeOf(cfgT)
		copy(o.Slots, p.Obj.Slots[p.Off:p.Off+n])
		return PtrV{Obj: o}
	}
}
