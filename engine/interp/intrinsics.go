package interp

import (
	"fmt"
	"go/ast"
	"go/types"
	"strings"

	"golang.org/x/tools/go/ssa"

	"verif/engine/sym"
)

type Intrinsic func(it *Interp, args []Value) Value

func (it *Interp) intrinsicFor(fn *ssa.Function) Intrinsic {
	if in, ok := it.intrCache[fn]; ok {
		return in
	}
	var in Intrinsic
	name := fn.String()
	stubbed := false
	if it.stubs != nil {
		key := name
		if o := fn.Origin(); o != nil {
			key = o.String()
		}
		if st := it.stubs[key]; st != nil && st != fn {
			stubbed = true // a harness stub overrides a built-in intrinsic
		}
	}
	if stubbed {
	} else if f, ok := intrinsics[name]; ok {
		in = f
	} else if o := fn.Origin(); o != nil {
		if f, ok := intrinsics[o.String()]; ok {
			in = f
		}
	}
	if in == nil && it.stubs != nil {
		// harness-level stubs: a harness function annotated "//verif:stub <name>"
		// replaces the named function under the engine (natively the real one runs)
		key := name
		if o := fn.Origin(); o != nil {
			key = o.String()
		}
		if st := it.stubs[key]; st != nil && st != fn {
			sf := st
			in = func(it *Interp, args []Value) Value {
				return tailCall{fn: it.funcValue(sf), args: args}
			}
		}
	}
	if in == nil && fn.Pkg != nil && fn.Signature.Recv() == nil {
		n := fn.Name()
		if len(n) > 1 && n[0] == 'v' && n[1] >= 'A' && n[1] <= 'Z' {
			if f, ok := harnessAPI[n]; ok {
				in = f
			}
		}
	}
	if in == nil && fn.Pkg != nil {
		// package initialisers of packages outside the allow-list are skipped
		if fn.Name() == "init" && fn.Signature.Recv() == nil && fn.Synthetic != "" {
			pp := fn.Pkg.Pkg.Path()
			if it.InitAllow != nil && !it.InitAllow(pp) {
				in = func(it *Interp, args []Value) Value { return nil }
			}
		}
	}
	it.intrCache[fn] = in
	return in
}

func (it *Interp) registerNatives() {}

// RegisterStubs scans a harness package for functions whose doc comment has a
// line "//verif:stub <fully qualified function name>" (e.g.
// "(*net.Dialer).DialContext", "os.Remove") and makes the engine call them in
// place of the named function. A method's stub takes the receiver as its
// first parameter.
func (it *Interp) RegisterStubs(pkg *ssa.Package) {
	if pkg == nil {
		return
	}
	if it.stubs == nil {
		it.stubs = map[string]*ssa.Function{}
	}
	for _, m := range pkg.Members {
		f, ok := m.(*ssa.Function)
		if !ok {
			continue
		}
		fd, ok := f.Syntax().(*ast.FuncDecl)
		if !ok || fd.Doc == nil {
			continue
		}
		for _, c := range fd.Doc.List {
			const pfx = "//verif:stub "
			if strings.HasPrefix(c.Text, pfx) {
				it.stubs[strings.TrimSpace(c.Text[len(pfx):])] = f
			}
		}
	}
}

// callSync runs an interpreted function to completion from native code.
func (it *Interp) callSync(fv *FuncV, args []Value) Value {
	g := it.cur
	var result Value
	done := false
	depth := len(g.stack)
	fr := it.callValue(g, nil, nil, fv, args, func(v Value) { result = v; done = true })
	if fr == nil {
		return result
	}
	fr.barrier = true
	for !done {
		if g.state != gRunnable {
			it.unsupported("goroutine blocked inside a synchronous native callback")
		}
		if len(g.stack) <= depth {
			it.unsupported("synchronous callback frame vanished")
		}
		top := g.stack[len(g.stack)-1]
		if g.unwinding || top.recovering {
			it.unsupported("panic recovered inside a synchronous native callback")
		}
		it.steps++
		if it.steps > it.StepBudget {
			panic(pathAbort{"budget", fmt.Sprintf("instruction budget %d exhausted%s", it.StepBudget, it.where())})
		}
		ins := top.block.Instrs[top.pc]
		top.pc++
		it.exec(g, top, ins)
	}
	return result
}

func (it *Interp) boolV(b bool) Value { return it.S.Bool(b) }
func (it *Interp) intV(n int) Value   { return it.S.Const(it.wordBits, uint64(int64(n))) }

// seq converts a []byte / string value into its byte terms.
func (it *Interp) seq(v Value) []*sym.Term {
	switch x := v.(type) {
	case StrV:
		return it.strBytes(x)
	case SliceV:
		if x.Obj == nil {
			return nil
		}
		return it.sliceBytes(x)
	}
	panic(fmt.Sprintf("seq: %T", v))
}

func (it *Interp) seqIndexByte(s []*sym.Term, c *sym.Term) int {
	for i, b := range s {
		if it.Branch(it.S.Eq(b, c)) {
			return i
		}
	}
	return -1
}

func (it *Interp) seqLastIndexByte(s []*sym.Term, c *sym.Term) int {
	for i := len(s) - 1; i >= 0; i-- {
		if it.Branch(it.S.Eq(s[i], c)) {
			return i
		}
	}
	return -1
}

func (it *Interp) seqEqTerm(a, b []*sym.Term) *sym.Term {
	if len(a) != len(b) {
		return it.S.False
	}
	r := it.S.True
	for i := range a {
		r = it.S.BAnd(r, it.S.Eq(a[i], b[i]))
		if r.IsFalse() {
			break
		}
	}
	return r
}

func (it *Interp) seqIndex(s, sep []*sym.Term) int {
	n := len(sep)
	if n == 0 {
		return 0
	}
	for i := 0; i+n <= len(s); i++ {
		if it.Branch(it.seqEqTerm(s[i:i+n], sep)) {
			return i
		}
	}
	return -1
}

func (it *Interp) seqLastIndex(s, sep []*sym.Term) int {
	n := len(sep)
	if n == 0 {
		return len(s)
	}
	for i := len(s) - n; i >= 0; i-- {
		if it.Branch(it.seqEqTerm(s[i:i+n], sep)) {
			return i
		}
	}
	return -1
}

func (it *Interp) seqCompare(a, b []*sym.Term) int {
	if it.Branch(it.seqEqTerm(a, b)) {
		return 0
	}
	if it.Branch(it.bytesLess(a, b)) {
		return -1
	}
	return 1
}

func (it *Interp) seqCount(s []*sym.Term, c *sym.Term) Value {
	r := it.S.Const(it.wordBits, 0)
	for _, b := range s {
		r = it.S.Bin(sym.OpAdd, r, it.S.BoolToBV(it.S.Eq(b, c), it.wordBits))
	}
	return r
}

func lower(S *sym.Store, c *sym.Term) *sym.Term {
	isUp := S.BAnd(S.Cmp(sym.OpULe, S.Const(8, 'A'), c), S.Cmp(sym.OpULe, c, S.Const(8, 'Z')))
	return S.Ite(isUp, S.Bin(sym.OpAdd, c, S.Const(8, 32)), c)
}

func noop(it *Interp, args []Value) Value { return nil }

var intrinsics = map[string]Intrinsic{}

var harnessAPI = map[string]Intrinsic{}

func init() {
	for k, v := range map[string]Intrinsic{
		// --- internal/bytealg and friends
		"internal/bytealg.IndexByte": func(it *Interp, a []Value) Value {
			return it.intV(it.seqIndexByte(it.seq(a[0]), a[1].(*sym.Term)))
		},
		"internal/bytealg.IndexByteString": func(it *Interp, a []Value) Value {
			return it.intV(it.seqIndexByte(it.seq(a[0]), a[1].(*sym.Term)))
		},
		"internal/bytealg.LastIndexByte": func(it *Interp, a []Value) Value {
			return it.intV(it.seqLastIndexByte(it.seq(a[0]), a[1].(*sym.Term)))
		},
		"internal/bytealg.LastIndexByteString": func(it *Interp, a []Value) Value {
			return it.intV(it.seqLastIndexByte(it.seq(a[0]), a[1].(*sym.Term)))
		},
		"internal/bytealg.Index": func(it *Interp, a []Value) Value {
			return it.intV(it.seqIndex(it.seq(a[0]), it.seq(a[1])))
		},
		"internal/bytealg.IndexString": func(it *Interp, a []Value) Value {
			return it.intV(it.seqIndex(it.seq(a[0]), it.seq(a[1])))
		},
		"internal/bytealg.Count": func(it *Interp, a []Value) Value {
			return it.seqCount(it.seq(a[0]), a[1].(*sym.Term))
		},
		"internal/bytealg.CountString": func(it *Interp, a []Value) Value {
			return it.seqCount(it.seq(a[0]), a[1].(*sym.Term))
		},
		"internal/bytealg.Equal": func(it *Interp, a []Value) Value {
			return it.seqEqTerm(it.seq(a[0]), it.seq(a[1]))
		},
		"internal/bytealg.Compare": func(it *Interp, a []Value) Value {
			return it.intV(it.seqCompare(it.seq(a[0]), it.seq(a[1])))
		},
		"internal/bytealg.CompareString": func(it *Interp, a []Value) Value {
			return it.intV(it.seqCompare(it.seq(a[0]), it.seq(a[1])))
		},
		"internal/bytealg.MakeNoZero": func(it *Interp, a []Value) Value {
			n := int(it.concretizeInt(a[0].(*sym.Term), types.Typ[types.Int], 0, 0))
			return it.makeSlice(types.Typ[types.Uint8], n, n)
		},
		"bytes.IndexByte": func(it *Interp, a []Value) Value {
			return it.intV(it.seqIndexByte(it.seq(a[0]), a[1].(*sym.Term)))
		},
		"strings.IndexByte": func(it *Interp, a []Value) Value {
			return it.intV(it.seqIndexByte(it.seq(a[0]), a[1].(*sym.Term)))
		},
		"bytes.LastIndexByte": func(it *Interp, a []Value) Value {
			return it.intV(it.seqLastIndexByte(it.seq(a[0]), a[1].(*sym.Term)))
		},
		"strings.LastIndexByte": func(it *Interp, a []Value) Value {
			return it.intV(it.seqLastIndexByte(it.seq(a[0]), a[1].(*sym.Term)))
		},
		"bytes.Index": func(it *Interp, a []Value) Value {
			return it.intV(it.seqIndex(it.seq(a[0]), it.seq(a[1])))
		},
		"strings.Index": func(it *Interp, a []Value) Value {
			return it.intV(it.seqIndex(it.seq(a[0]), it.seq(a[1])))
		},
		"bytes.LastIndex": func(it *Interp, a []Value) Value {
			return it.intV(it.seqLastIndex(it.seq(a[0]), it.seq(a[1])))
		},
		"strings.LastIndex": func(it *Interp, a []Value) Value {
			return it.intV(it.seqLastIndex(it.seq(a[0]), it.seq(a[1])))
		},
		"bytes.Equal": func(it *Interp, a []Value) Value {
			return it.seqEqTerm(it.seq(a[0]), it.seq(a[1]))
		},
		"bytes.Compare": func(it *Interp, a []Value) Value {
			return it.intV(it.seqCompare(it.seq(a[0]), it.seq(a[1])))
		},
		"strings.Compare": func(it *Interp, a []Value) Value {
			return it.intV(it.seqCompare(it.seq(a[0]), it.seq(a[1])))
		},
		"bytes.EqualFold":   equalFoldASCII,
		"strings.EqualFold": equalFoldASCII,
		"bytes.Contains": func(it *Interp, a []Value) Value {
			return it.boolV(it.seqIndex(it.seq(a[0]), it.seq(a[1])) >= 0)
		},
		"strings.Contains": func(it *Interp, a []Value) Value {
			return it.boolV(it.seqIndex(it.seq(a[0]), it.seq(a[1])) >= 0)
		},
		"internal/abi.NoEscape":       func(it *Interp, a []Value) Value { return a[0] },
		"internal/abi.Escape":         func(it *Interp, a []Value) Value { return a[0] },
		"strings.(*Builder).copyCheck": noop,
		"internal/stringslite.Index": func(it *Interp, a []Value) Value {
			return it.intV(it.seqIndex(it.seq(a[0]), it.seq(a[1])))
		},
		"internal/stringslite.IndexByte": func(it *Interp, a []Value) Value {
			return it.intV(it.seqIndexByte(it.seq(a[0]), a[1].(*sym.Term)))
		},

		// --- runtime / os / log
		"runtime.GOMAXPROCS": func(it *Interp, a []Value) Value { return it.intV(4) },
		"runtime.NumCPU":     func(it *Interp, a []Value) Value { return it.intV(4) },
		"runtime.Gosched":    func(it *Interp, a []Value) Value { it.yieldReq = true; it.goschedReq = true; return nil },
		"runtime.KeepAlive":  noop,
		"runtime.SetFinalizer": noop,
		"runtime.GC":         noop,
		"runtime.Stack":      func(it *Interp, a []Value) Value { return it.intV(0) },
		"runtime/debug.Stack": func(it *Interp, a []Value) Value { return SliceV{} },
		"os.Getenv":          func(it *Interp, a []Value) Value { return StrV{} },
		"os.Getpid":          func(it *Interp, a []Value) Value { return it.intV(4242) },
		"os.Getpagesize":     func(it *Interp, a []Value) Value { return it.intV(4096) },
		"(*log.Logger).Printf":  noop,
		"(*log.Logger).Println": noop,
		"(*log.Logger).Print":   noop,
		"(*log.Logger).Output":  func(it *Interp, a []Value) Value { return IfaceV{} },
		"log.Printf":            noop,
		"log.Println":           noop,
		"log.Print":             noop,
		"internal/godebug.(*Setting).Value": func(it *Interp, a []Value) Value { return StrV{} },
		"internal/godebug.(*Setting).IncNonDefault": noop,

		// --- sync
		"(*sync.Mutex).Lock":      func(it *Interp, a []Value) Value { it.mutexLock(a[0].(PtrV), true); return nil },
		"(*sync.Mutex).Unlock":    func(it *Interp, a []Value) Value { it.mutexUnlock(a[0].(PtrV), true); return nil },
		"(*sync.Mutex).TryLock":   func(it *Interp, a []Value) Value { return it.boolV(it.mutexTryLock(a[0].(PtrV))) },
		"(*sync.RWMutex).Lock":    func(it *Interp, a []Value) Value { it.mutexLock(a[0].(PtrV), true); return nil },
		"(*sync.RWMutex).Unlock":  func(it *Interp, a []Value) Value { it.mutexUnlock(a[0].(PtrV), true); return nil },
		"(*sync.RWMutex).RLock":   func(it *Interp, a []Value) Value { it.mutexLock(a[0].(PtrV), false); return nil },
		"(*sync.RWMutex).RUnlock": func(it *Interp, a []Value) Value { it.mutexUnlock(a[0].(PtrV), false); return nil },
		"(*sync.WaitGroup).Add": func(it *Interp, a []Value) Value {
			s := it.syncAt(a[0].(PtrV))
			it.raceRelease(syncKey{a[0].(PtrV).Obj, a[0].(PtrV).Off})
			s.counter += it.concretizeInt(a[1].(*sym.Term), types.Typ[types.Int], 0, 0)
			if s.counter < 0 {
				panic(goPanic{val: it.runtimeError("sync: negative WaitGroup counter"), msg: "sync: negative WaitGroup counter"})
			}
			return nil
		},
		"(*sync.WaitGroup).Done": func(it *Interp, a []Value) Value {
			s := it.syncAt(a[0].(PtrV))
			it.raceRelease(syncKey{a[0].(PtrV).Obj, a[0].(PtrV).Off})
			s.counter--
			if s.counter < 0 {
				panic(goPanic{val: it.runtimeError("sync: negative WaitGroup counter"), msg: "sync: negative WaitGroup counter"})
			}
			return nil
		},
		"(*sync.WaitGroup).Wait": func(it *Interp, a []Value) Value {
			s := it.syncAt(a[0].(PtrV))
			rk := syncKey{a[0].(PtrV).Obj, a[0].(PtrV).Off}
			if s.counter > 0 {
				it.block(it.cur, "WaitGroup.Wait", func() bool {
					if s.counter <= 0 {
						it.raceAcquire(rk)
						return true
					}
					return false
				})
				return nil
			}
			it.raceAcquire(rk)
			return nil
		},
		"(*sync.Pool).Get": poolGet,
		"(*sync.Pool).Put": poolPut,

		// --- sync/atomic (plain functions; the typed wrappers are interpreted)
		"sync/atomic.LoadInt32":   atomicLoad, "sync/atomic.LoadInt64": atomicLoad,
		"sync/atomic.LoadUint32":  atomicLoad, "sync/atomic.LoadUint64": atomicLoad,
		"sync/atomic.LoadUintptr": atomicLoad, "sync/atomic.LoadPointer": atomicLoad,
		"sync/atomic.StoreInt32":   atomicStore, "sync/atomic.StoreInt64": atomicStore,
		"sync/atomic.StoreUint32":  atomicStore, "sync/atomic.StoreUint64": atomicStore,
		"sync/atomic.StoreUintptr": atomicStore, "sync/atomic.StorePointer": atomicStore,
		"sync/atomic.AddInt32":   atomicAdd, "sync/atomic.AddInt64": atomicAdd,
		"sync/atomic.AddUint32":  atomicAdd, "sync/atomic.AddUint64": atomicAdd,
		"sync/atomic.AddUintptr": atomicAdd,
		"sync/atomic.SwapInt32":   atomicSwap, "sync/atomic.SwapInt64": atomicSwap,
		"sync/atomic.SwapUint32":  atomicSwap, "sync/atomic.SwapUint64": atomicSwap,
		"sync/atomic.SwapPointer": atomicSwap,
		"sync/atomic.CompareAndSwapInt32":   atomicCAS, "sync/atomic.CompareAndSwapInt64": atomicCAS,
		"sync/atomic.CompareAndSwapUint32":  atomicCAS, "sync/atomic.CompareAndSwapUint64": atomicCAS,
		"sync/atomic.CompareAndSwapPointer": atomicCAS, "sync/atomic.CompareAndSwapUintptr": atomicCAS,
		"sync/atomic.AndInt32": atomicAndOr(sym.OpAnd), "sync/atomic.AndUint32": atomicAndOr(sym.OpAnd),
		"sync/atomic.OrInt32":  atomicAndOr(sym.OpOr), "sync/atomic.OrUint32": atomicAndOr(sym.OpOr),
		"(*sync/atomic.Value).Load": func(it *Interp, a []Value) Value {
			return it.load(a[0].(PtrV), anyType)
		},
		"(*sync/atomic.Value).Store": func(it *Interp, a []Value) Value {
			if a[1].(IfaceV).T == nil {
				panic(goPanic{val: it.runtimeError("sync/atomic: store of nil value into Value"), msg: "sync/atomic: store of nil value into Value"})
			}
			it.store(a[0].(PtrV), anyType, a[1])
			return nil
		},
		"(*sync/atomic.Value).Swap": func(it *Interp, a []Value) Value {
			old := it.load(a[0].(PtrV), anyType)
			it.store(a[0].(PtrV), anyType, a[1])
			return old
		},
		"(*sync/atomic.Value).CompareAndSwap": func(it *Interp, a []Value) Value {
			old := it.load(a[0].(PtrV), anyType)
			if it.Branch(it.eqValues(anyType, old, a[1])) {
				it.store(a[0].(PtrV), anyType, a[2])
				return it.S.True
			}
			return it.S.False
		},

		// --- errors / fmt
		"errors.Is": errorsIs,
		"errors.As": errorsAs,
		"fmt.Errorf":  fmtErrorf,
		"fmt.Sprintf": func(it *Interp, a []Value) Value { return StrV{S: it.formatApprox(a[0].(StrV), a[1].(SliceV))} },
		"fmt.Sprint":  func(it *Interp, a []Value) Value { return StrV{S: it.formatApprox(StrV{S: "%v"}, a[0].(SliceV))} },
		"fmt.Sprintln": func(it *Interp, a []Value) Value { return StrV{S: it.formatApprox(StrV{S: "%v\n"}, a[0].(SliceV))} },
		"fmt.Appendf": func(it *Interp, a []Value) Value {
			s := it.formatApprox(a[1].(StrV), a[2].(SliceV))
			return it.appendOp(a[0].(SliceV), StrV{S: s}, byteSliceType)
		},
		"fmt.Fprintf": func(it *Interp, a []Value) Value {
			s := it.formatApprox(a[1].(StrV), a[2].(SliceV))
			w := a[0].(IfaceV)
			if w.T == nil {
				it.throwRuntime("nil writer")
			}
			m := it.lookupMethodByName(w.T, "Write")
			if m == nil {
				it.unsupported("Fprintf: writer without Write")
			}
			return tailCall{fn: it.funcValue(m), args: []Value{w.V, it.constByteSlice([]byte(s))}}
		},
		"fmt.Println": func(it *Interp, a []Value) Value { return TupleV{it.intV(0), IfaceV{}} },
		"fmt.Printf":  func(it *Interp, a []Value) Value { return TupleV{it.intV(0), IfaceV{}} },

		// --- time
		"time.Now":   func(it *Interp, a []Value) Value { return it.timeValue(it.nowNs()) },
		"time.now": func(it *Interp, a []Value) Value {
			ns := it.nowNs()
			return TupleV{it.S.Const(64, uint64(ns/1e9)), it.S.Const(32, uint64(ns%1e9)), it.S.Const(64, uint64(ns))}
		},
		"time.runtimeNano": func(it *Interp, a []Value) Value { return it.S.Const(64, uint64(it.nowNs())) },
		"time.Sleep": func(it *Interp, a []Value) Value {
			d := it.concretizeInt(a[0].(*sym.Term), types.Typ[types.Int64], 0, 0)
			if d > 0 {
				it.sleepUntil(it.nowNs() + d)
			}
			return nil
		},
		"time.NewTimer":       timeNewTimer,
		"time.After":          func(it *Interp, a []Value) Value { return it.mkTimer(a[0], 0, nil).ch },
		"time.Tick":           func(it *Interp, a []Value) Value { d := it.concretizeInt(a[0].(*sym.Term), types.Typ[types.Int64], 0, 0); return it.mkTimer(a[0], d, nil).ch },
		"time.AfterFunc":      timeAfterFunc,
		"time.NewTicker":      timeNewTicker,
		"(*time.Timer).Stop":  timerStop,
		"(*time.Timer).Reset": timerReset,
		"(*time.Ticker).Stop": func(it *Interp, a []Value) Value { timerStop(it, a); return nil },
		"(*time.Ticker).Reset": func(it *Interp, a []Value) Value { timerReset(it, a); return nil },
		"(*time.Location).get": func(it *Interp, a []Value) Value {
			p := a[0].(PtrV)
			if p.Obj == nil {
				if g := it.Prog.ImportedPackage("time").Var("utcLoc"); g != nil {
					return PtrV{Obj: it.globalObj(g)}
				}
			}
			return p
		},
	} {
		intrinsics[k] = v
	}
}

var anyType = types.NewInterfaceType(nil, nil)
var byteSliceType = types.NewSlice(types.Typ[types.Uint8])

func (it *Interp) lookupMethodByName(t types.Type, name string) *ssa.Function {
	ms := it.Prog.MethodSets.MethodSet(t)
	for i := 0; i < ms.Len(); i++ {
		sel := ms.At(i)
		if sel.Obj().Name() == name {
			return it.Prog.MethodValue(sel)
		}
	}
	return nil
}

func equalFoldASCII(it *Interp, a []Value) Value {
	x, y := it.seq(a[0]), it.seq(a[1])
	if len(x) != len(y) {
		return it.S.False
	}
	r := it.S.True
	for i := range x {
		// ASCII-only folding; bytes ≥ 0x80 compare exactly (sound for the
		// header/token uses in this code base, which never fold non-ASCII)
		r = it.S.BAnd(r, it.S.Eq(lower(it.S, x[i]), lower(it.S, y[i])))
	}
	return r
}

// ---------------------------------------------------------------------
// atomics

func atomicLoad(it *Interp, a []Value) Value {
	p := a[0].(PtrV)
	if p.Obj == nil {
		it.throwRuntime("invalid memory address or nil pointer dereference")
	}
	return p.Obj.Slots[p.Off]
}

func atomicStore(it *Interp, a []Value) Value {
	p := a[0].(PtrV)
	if p.Obj == nil {
		it.throwRuntime("invalid memory address or nil pointer dereference")
	}
	it.setSlot(p.Obj, p.Off, a[1])
	return nil
}

func atomicAdd(it *Interp, a []Value) Value {
	p := a[0].(PtrV)
	if p.Obj == nil {
		it.throwRuntime("invalid memory address or nil pointer dereference")
	}
	n := it.S.Bin(sym.OpAdd, p.Obj.Slots[p.Off].(*sym.Term), a[1].(*sym.Term))
	it.setSlot(p.Obj, p.Off, n)
	return n
}

func atomicSwap(it *Interp, a []Value) Value {
	p := a[0].(PtrV)
	old := p.Obj.Slots[p.Off]
	it.setSlot(p.Obj, p.Off, a[1])
	return old
}

func atomicCAS(it *Interp, a []Value) Value {
	p := a[0].(PtrV)
	old := p.Obj.Slots[p.Off]
	var eq *sym.Term
	switch o := old.(type) {
	case *sym.Term:
		eq = it.S.Eq(o, a[1].(*sym.Term))
	case PtrV:
		eq = it.eqValues(nil, o, a[1])
	default:
		it.unsupported(fmt.Sprintf("CAS on %T", old))
	}
	if it.Branch(eq) {
		it.setSlot(p.Obj, p.Off, a[2])
		return it.S.True
	}
	return it.S.False
}

func atomicAndOr(op sym.Op) Intrinsic {
	return func(it *Interp, a []Value) Value {
		p := a[0].(PtrV)
		old := p.Obj.Slots[p.Off].(*sym.Term)
		it.setSlot(p.Obj, p.Off, it.S.Bin(op, old, a[1].(*sym.Term)))
		return old
	}
}

// ---------------------------------------------------------------------
// sync.Pool: Get returns the most recently Put object (the adversarial case
// for state-leak properties), else New().

type poolState struct{ items []Value }

func (it *Interp) poolAt(p PtrV) *poolState {
	k := syncKey{p.Obj, p.Off}
	s := it.pools[k]
	if s == nil {
		s = &poolState{}
		it.pools[k] = s
	}
	return s
}

func poolGet(it *Interp, a []Value) Value {
	p := a[0].(PtrV)
	s := it.poolAt(p)
	it.raceSync(syncKey{p.Obj, p.Off})
	if n := len(s.items); n > 0 {
		v := s.items[n-1]
		s.items = s.items[:n-1]
		return v
	}
	// field New
	pt := it.Prog.ImportedPackage("sync").Type("Pool").Type().Underlying().(*types.Struct)
	l := it.layoutOf(it.Prog.ImportedPackage("sync").Type("Pool").Type())
	for i := 0; i < pt.NumFields(); i++ {
		if pt.Field(i).Name() == "New" {
			fv, _ := p.Obj.Slots[p.Off+l.fields[i]].(*FuncV)
			if fv == nil {
				return IfaceV{}
			}
			return tailCall{fn: fv, args: nil}
		}
	}
	return IfaceV{}
}

func poolPut(it *Interp, a []Value) Value {
	if iv, ok := a[1].(IfaceV); ok && iv.T == nil {
		return nil
	}
	s := it.poolAt(a[0].(PtrV))
	it.raceSync(syncKey{a[0].(PtrV).Obj, a[0].(PtrV).Off})
	s.items = append(s.items, a[1])
	return nil
}

// ---------------------------------------------------------------------
// errors

func (it *Interp) unwrapErr(e IfaceV) (IfaceV, bool) {
	if e.T == nil {
		return IfaceV{}, false
	}
	m := it.lookupMethodByName(e.T, "Unwrap")
	if m == nil {
		return IfaceV{}, false
	}
	res := m.Signature.Results()
	if res.Len() != 1 {
		return IfaceV{}, false
	}
	if _, ok := res.At(0).Type().Underlying().(*types.Interface); !ok {
		return IfaceV{}, false // Unwrap() []error: not followed
	}
	r := it.callSync(it.funcValue(m), []Value{e.V})
	iv, _ := r.(IfaceV)
	return iv, true
}

func errorsIs(it *Interp, a []Value) Value {
	err, target := a[0].(IfaceV), a[1].(IfaceV)
	if err.T == nil || target.T == nil {
		return it.boolV(err.T == nil && target.T == nil)
	}
	for depth := 0; depth < 50; depth++ {
		if types.Identical(err.T, target.T) && types.Comparable(err.T) {
			if it.Branch(it.eqValues(err.T, err.V, target.V)) {
				return it.S.True
			}
		}
		if m := it.lookupMethodByName(err.T, "Is"); m != nil && m.Signature.Params().Len() == 1 {
			r := it.callSync(it.funcValue(m), []Value{err.V, target})
			if it.Branch(r.(*sym.Term)) {
				return it.S.True
			}
		}
		next, ok := it.unwrapErr(err)
		if !ok || next.T == nil {
			return it.S.False
		}
		err = next
	}
	return it.S.False
}

func errorsAs(it *Interp, a []Value) Value {
	err, target := a[0].(IfaceV), a[1].(IfaceV)
	if target.T == nil {
		panic(goPanic{val: it.runtimeError("errors: target cannot be nil"), msg: "errors: target cannot be nil"})
	}
	pt, ok := target.T.Underlying().(*types.Pointer)
	if !ok {
		panic(goPanic{val: it.runtimeError("errors: target must be a non-nil pointer"), msg: "errors: target must be a non-nil pointer"})
	}
	tt := pt.Elem()
	for depth := 0; err.T != nil && depth < 50; depth++ {
		match := false
		if ti, isI := tt.Underlying().(*types.Interface); isI {
			match = it.implements(err.T, ti)
			if match {
				it.store(target.V.(PtrV), tt, err)
				return it.S.True
			}
		} else if types.Identical(err.T, tt) {
			it.store(target.V.(PtrV), tt, err.V)
			return it.S.True
		}
		if m := it.lookupMethodByName(err.T, "As"); m != nil {
			r := it.callSync(it.funcValue(m), []Value{err.V, target})
			if it.Branch(r.(*sym.Term)) {
				return it.S.True
			}
		}
		next, ok := it.unwrapErr(err)
		if !ok {
			break
		}
		err = next
	}
	return it.S.False
}

func fmtErrorf(it *Interp, a []Value) Value {
	format := a[0].(StrV)
	args := a[1].(SliceV)
	msg := it.formatApprox(format, args)
	fs, _ := it.concStr(format)
	var wrapped []IfaceV
	if strings.Contains(fs, "%w") {
		for i := 0; i < args.Len; i++ {
			iv := args.Obj.Slots[args.Off+i].(IfaceV)
			if iv.T != nil && it.lookupMethodByName(iv.T, "Error") != nil {
				wrapped = append(wrapped, iv)
			}
		}
	}
	fmtPkg := it.Prog.ImportedPackage("fmt")
	if len(wrapped) >= 1 && fmtPkg != nil && fmtPkg.Type("wrapError") != nil {
		wt := fmtPkg.Type("wrapError").Type()
		o := it.allocType(wt, "fmt.wrapError")
		o.Slots[0] = StrV{S: msg}
		o.Slots[1] = wrapped[0]
		return IfaceV{T: types.NewPointer(wt), V: PtrV{Obj: o}}
	}
	ep := it.Prog.ImportedPackage("errors")
	et := ep.Type("errorString").Type()
	o := it.allocType(et, "errors.errorString")
	o.Slots[0] = StrV{S: msg}
	return IfaceV{T: types.NewPointer(et), V: PtrV{Obj: o}}
}

// formatApprox renders a format string with concrete arguments; symbolic
// arguments are shown as "?" (formatting is never the subject of a property).
func (it *Interp) formatApprox(format StrV, args SliceV) string {
	f, ok := it.concStr(format)
	if !ok {
		return "<symbolic format>"
	}
	var sb strings.Builder
	ai := 0
	for i := 0; i < len(f); i++ {
		c := f[i]
		if c != '%' {
			sb.WriteByte(c)
			continue
		}
		i++
		for i < len(f) && strings.IndexByte("+-# 0123456789.", f[i]) >= 0 {
			i++
		}
		if i >= len(f) {
			break
		}
		verb := f[i]
		if verb == '%' {
			sb.WriteByte('%')
			continue
		}
		if ai >= args.Len {
			sb.WriteString("%!" + string(verb) + "(MISSING)")
			continue
		}
		arg := args.Obj.Slots[args.Off+ai]
		ai++
		sb.WriteString(it.fmtArg(arg, verb))
	}
	return sb.String()
}

func (it *Interp) fmtArg(v Value, verb byte) string {
	switch x := v.(type) {
	case IfaceV:
		if x.T == nil {
			return "<nil>"
		}
		if verb != 'T' {
			if m := it.lookupMethodByName(x.T, "Error"); m != nil && m.Signature.Params().Len() == 0 {
				r := it.callSync(it.funcValue(m), []Value{x.V})
				return it.fmtArg(r, 's')
			}
			if m := it.lookupMethodByName(x.T, "String"); m != nil && m.Signature.Params().Len() == 0 && m.Signature.Results().Len() == 1 {
				if _, isPtr := x.V.(PtrV); !isPtr || !x.V.(PtrV).IsNil() {
					r := it.callSync(it.funcValue(m), []Value{x.V})
					return it.fmtArg(r, 's')
				}
			}
		} else {
			return x.T.String()
		}
		if _, signed, ok := it.intWidth(x.T); ok {
			if t, isT := x.V.(*sym.Term); isT && t.IsConst() {
				if t.W == 0 {
					return fmt.Sprint(t.K == 1)
				}
				var n interface{} = t.K
				if signed {
					n = t.SignedVal()
				}
				switch verb {
				case 'x':
					return fmt.Sprintf("%x", n)
				case 'X':
					return fmt.Sprintf("%X", n)
				case 'c':
					return fmt.Sprintf("%c", n)
				case 'q':
					return fmt.Sprintf("%q", n)
				}
				return fmt.Sprint(n)
			}
			return "?"
		}
		return it.fmtArg(x.V, verb)
	case StrV:
		if s, ok := it.concStr(x); ok {
			if verb == 'q' {
				return fmt.Sprintf("%q", s)
			}
			return s
		}
		return strings.Repeat("?", x.Len())
	case SliceV:
		if x.Obj != nil && x.Len > 0 {
			if _, ok := x.Obj.Slots[x.Off].(*sym.Term); ok && x.Obj.Slots[x.Off].(*sym.Term).W == 8 {
				s, ok := it.concStr(StrV{Obj: x.Obj, Off: x.Off, N: x.Len})
				if ok {
					if verb == 'q' {
						return fmt.Sprintf("%q", s)
					}
					if verb == 's' {
						return s
					}
					return fmt.Sprint([]byte(s))
				}
				return strings.Repeat("?", x.Len)
			}
		}
		return "[...]"
	case *sym.Term:
		if x.IsConst() {
			return fmt.Sprint(x.K)
		}
		return "?"
	case FloatV:
		return fmt.Sprint(x.F)
	case PtrV:
		if x.Obj == nil {
			return "<nil>"
		}
		return "0xc000000000"
	}
	return "?"
}

// ---------------------------------------------------------------------
// timers

func (it *Interp) mkTimer(d Value, period int64, fn *FuncV) *timerState {
	dur := it.concretizeInt(d.(*sym.Term), types.Typ[types.Int64], 0, 0)
	t := &timerState{when: it.nowNs() + dur, active: true, fn: fn, period: period}
	if fn == nil {
		tt := types.NewChan(types.SendRecv, it.Prog.ImportedPackage("time").Type("Time").Type())
		t.ch = it.newChan(tt, 1)
		t.ch.timer = t
	}
	it.addTimer(t)
	it.raceArm(t)
	return t
}

func (it *Interp) timerObj(t *timerState, typeName string) Value {
	tp := it.Prog.ImportedPackage("time").Type(typeName).Type()
	o := it.allocType(tp, "time."+typeName)
	st := tp.Underlying().(*types.Struct)
	l := it.layoutOf(tp)
	for i := 0; i < st.NumFields(); i++ {
		if st.Field(i).Name() == "C" && t.ch != nil {
			o.Slots[l.fields[i]] = t.ch
		}
	}
	it.ghost[fmt.Sprintf("__timer%d", o.ID)] = t
	return PtrV{Obj: o}
}

func (it *Interp) timerOf(p PtrV) *timerState {
	if p.Obj == nil {
		it.throwRuntime("nil Timer")
	}
	t, _ := it.ghost[fmt.Sprintf("__timer%d", p.Obj.ID)].(*timerState)
	if t == nil {
		it.unsupported("Timer not created by NewTimer/AfterFunc")
	}
	return t
}

func timeNewTimer(it *Interp, a []Value) Value {
	return it.timerObj(it.mkTimer(a[0], 0, nil), "Timer")
}

func timeNewTicker(it *Interp, a []Value) Value {
	d := it.concretizeInt(a[0].(*sym.Term), types.Typ[types.Int64], 0, 0)
	if d <= 0 {
		panic(goPanic{val: it.runtimeError("non-positive interval for NewTicker"), msg: "non-positive interval for NewTicker"})
	}
	return it.timerObj(it.mkTimer(a[0], d, nil), "Ticker")
}

func timeAfterFunc(it *Interp, a []Value) Value {
	return it.timerObj(it.mkTimer(a[0], 0, a[1].(*FuncV)), "Timer")
}

func timerStop(it *Interp, a []Value) Value {
	t := it.timerOf(a[0].(PtrV))
	was := t.active
	t.active = false
	return it.boolV(was)
}

func timerReset(it *Interp, a []Value) Value {
	t := it.timerOf(a[0].(PtrV))
	was := t.active
	d := it.concretizeInt(a[1].(*sym.Term), types.Typ[types.Int64], 0, 0)
	t.when = it.nowNs() + d
	t.active = true
	it.raceArm(t)
	if t.period > 0 {
		t.period = d
	}
	return it.boolV(was)
}
