package interp

import (
	"go/token"

	"golang.org/x/tools/go/ssa"

	"verif/engine/sym"
)

// If-conversion of pure acyclic regions: when a symbolic branch guards a small
// side-effect-free region that rejoins at the branch's immediate
// post-dominator, both sides are evaluated and the φ-nodes at the join become
// ite terms, instead of forking the path. This is what keeps `&&`/`||` and
// `if c { x = … }` in harnesses, reference models and byte-class tests from
// doubling the number of paths.

type specAbort struct{}

type pdomInfo struct {
	ipdom map[*ssa.BasicBlock]*ssa.BasicBlock
}

func (it *Interp) postDom(fn *ssa.Function) *pdomInfo {
	if p, ok := it.pdoms[fn]; ok {
		return p
	}
	n := len(fn.Blocks)
	// pd[i] = set of blocks post-dominating i (bitset over n+1, n = virtual exit)
	words := (n + 1 + 63) / 64
	full := make([]uint64, words)
	for i := 0; i <= n; i++ {
		full[i/64] |= 1 << (i % 64)
	}
	pd := make([][]uint64, n+1)
	for i := range pd {
		pd[i] = append([]uint64(nil), full...)
	}
	pd[n] = make([]uint64, words)
	pd[n][n/64] |= 1 << (n % 64)
	succs := func(b *ssa.BasicBlock) []int {
		if len(b.Succs) == 0 {
			return []int{n}
		}
		out := make([]int, len(b.Succs))
		for i, s := range b.Succs {
			out[i] = s.Index
		}
		return out
	}
	changed := true
	tmp := make([]uint64, words)
	for changed {
		changed = false
		for i := n - 1; i >= 0; i-- {
			b := fn.Blocks[i]
			copy(tmp, full)
			for _, s := range succs(b) {
				for w := range tmp {
					tmp[w] &= pd[s][w]
				}
			}
			tmp[i/64] |= 1 << (i % 64)
			for w := range tmp {
				if tmp[w] != pd[i][w] {
					changed = true
					copy(pd[i], tmp)
					break
				}
			}
		}
	}
	count := func(s []uint64) int {
		c := 0
		for _, w := range s {
			for ; w != 0; w &= w - 1 {
				c++
			}
		}
		return c
	}
	info := &pdomInfo{ipdom: map[*ssa.BasicBlock]*ssa.BasicBlock{}}
	for i := 0; i < n; i++ {
		// immediate post-dominator: the strict post-dominator with the largest pdom set
		best, bestC := -1, -1
		for j := 0; j < n; j++ {
			if j == i || pd[i][j/64]&(1<<(j%64)) == 0 {
				continue
			}
			if c := count(pd[j]); c > bestC {
				best, bestC = j, c
			}
		}
		if best >= 0 {
			info.ipdom[fn.Blocks[i]] = fn.Blocks[best]
		}
	}
	it.pdoms[fn] = info
	return info
}

type regionInfo struct {
	ok    bool
	join  *ssa.BasicBlock
	order []*ssa.BasicBlock // topological order of the region's blocks
}

const maxRegionBlocks = 24
const maxRegionInstrs = 160

func pureInstr(ins ssa.Instruction) bool {
	switch x := ins.(type) {
	case *ssa.BinOp:
		if x.Op == token.QUO || x.Op == token.REM {
			c, ok := x.Y.(*ssa.Const)
			return ok && c.Value != nil && !c.IsNil() && c.Value.String() != "0"
		}
		return true
	case *ssa.UnOp:
		return x.Op != token.ARROW
	case *ssa.Convert, *ssa.ChangeType, *ssa.ChangeInterface, *ssa.MakeInterface, *ssa.Extract,
		*ssa.Field, *ssa.FieldAddr, *ssa.IndexAddr, *ssa.Index, *ssa.Phi, *ssa.DebugRef, *ssa.Slice:
		return true
	case *ssa.Lookup:
		return !x.CommaOk && isString(x.X.Type())
	case *ssa.Call:
		if b, ok := x.Call.Value.(*ssa.Builtin); ok {
			switch b.Name() {
			case "len", "cap", "min", "max":
				return true
			}
		}
		return false
	case *ssa.TypeAssert:
		return x.CommaOk
	}
	return false
}

func (it *Interp) region(fn *ssa.Function, b *ssa.BasicBlock) *regionInfo {
	if r, ok := it.regions[b]; ok {
		return r
	}
	r := &regionInfo{}
	it.regions[b] = r
	j := it.postDom(fn).ipdom[b]
	if j == nil {
		return r
	}
	// collect region blocks
	in := map[*ssa.BasicBlock]bool{}
	var order []*ssa.BasicBlock
	state := map[*ssa.BasicBlock]int{} // 1 = visiting, 2 = done
	ninstr := 0
	okay := true
	var visit func(x *ssa.BasicBlock)
	visit = func(x *ssa.BasicBlock) {
		if !okay || x == j {
			return
		}
		if x == b {
			okay = false // cycle through the branch block
			return
		}
		switch state[x] {
		case 1:
			okay = false // cycle
			return
		case 2:
			return
		}
		state[x] = 1
		in[x] = true
		if len(in) > maxRegionBlocks {
			okay = false
			return
		}
		for i, ins := range x.Instrs {
			if i == len(x.Instrs)-1 {
				switch ins.(type) {
				case *ssa.If, *ssa.Jump:
				default:
					okay = false
					return
				}
				continue
			}
			if !pureInstr(ins) {
				okay = false
				return
			}
			ninstr++
		}
		if ninstr > maxRegionInstrs || len(x.Succs) == 0 {
			okay = false
			return
		}
		for _, s := range x.Succs {
			visit(s)
		}
		state[x] = 2
		order = append(order, x)
	}
	for _, s := range b.Succs {
		visit(s)
	}
	if !okay {
		return r
	}
	// every predecessor of a region block must be b or in the region
	for x := range in {
		for _, p := range x.Preds {
			if p != b && !in[p] {
				return r
			}
		}
	}
	// reverse post-order = topological order
	for l, h := 0, len(order)-1; l < h; l, h = l+1, h-1 {
		order[l], order[h] = order[h], order[l]
	}
	r.ok = true
	r.join = j
	r.order = order
	return r
}

// tryMerge attempts to if-convert the region guarded by the If at the end of
// fr.block. On success control is at the join block with its φs evaluated.
func (it *Interp) tryMerge(g *Goroutine, fr *Frame, cond *sym.Term) (merged bool) {
	if it.NoMerge || it.noFork {
		return false
	}
	b := fr.block
	r := it.region(fr.fn, b)
	if !r.ok {
		return false
	}
	S := it.S
	savedPrev, savedPC := fr.prev, fr.pc
	defer func() {
		it.noFork = false
		if !merged {
			fr.block, fr.prev, fr.pc = b, savedPrev, savedPC
		}
		if rec := recover(); rec != nil {
			fallback := false
			switch x := rec.(type) {
			case specAbort, goPanic:
				fallback = true
			case pathAbort:
				fallback = x.kind == "unsupported"
			}
			if fallback {
				merged = false
				fr.block, fr.prev, fr.pc = b, savedPrev, savedPC
				return
			}
			panic(rec)
		}
	}()
	it.noFork = true
	type edge struct{ from, to *ssa.BasicBlock }
	eg := map[edge]*sym.Term{}
	eg[edge{b, b.Succs[0]}] = cond
	if prev, ok := eg[edge{b, b.Succs[1]}]; ok {
		eg[edge{b, b.Succs[1]}] = S.BOr(prev, S.BNot(cond))
	} else {
		eg[edge{b, b.Succs[1]}] = S.BNot(cond)
	}
	phiVal := func(x *ssa.BasicBlock, p *ssa.Phi) Value {
		var res Value
		var resT *sym.Term
		first := true
		for i, pred := range x.Preds {
			gd, ok := eg[edge{pred, x}]
			if !ok || gd.IsFalse() {
				continue
			}
			v := it.get(fr, p.Edges[i])
			if first {
				res = v
				resT, _ = v.(*sym.Term)
				first = false
				continue
			}
			vt, isT := v.(*sym.Term)
			if isT && resT != nil {
				resT = S.Ite(gd, vt, resT)
				res = resT
				continue
			}
			// non-scalar: must be identical
			if !it.sameValue(res, v) {
				panic(specAbort{})
			}
		}
		if first {
			panic(specAbort{})
		}
		return res
	}
	for _, x := range r.order {
		// guard of x
		gx := S.False
		for _, p := range x.Preds {
			if e, ok := eg[edge{p, x}]; ok {
				gx = S.BOr(gx, e)
			}
		}
		// φs (parallel)
		var phis []*ssa.Phi
		var pvals []Value
		k := 0
		for ; k < len(x.Instrs); k++ {
			p, ok := x.Instrs[k].(*ssa.Phi)
			if !ok {
				break
			}
			phis = append(phis, p)
			pvals = append(pvals, phiVal(x, p))
		}
		for i, p := range phis {
			it.set(fr, p, pvals[i])
		}
		fr.block = x
		for ; k < len(x.Instrs); k++ {
			ins := x.Instrs[k]
			fr.pc = k + 1
			switch t := ins.(type) {
			case *ssa.If:
				c, ok := it.get(fr, t.Cond).(*sym.Term)
				if !ok {
					panic(specAbort{})
				}
				for si, sgn := range []*sym.Term{c, S.BNot(c)} {
					e := edge{x, x.Succs[si]}
					gd := S.BAnd(gx, sgn)
					if prev, ok := eg[e]; ok {
						gd = S.BOr(prev, gd)
					}
					eg[e] = gd
				}
			case *ssa.Jump:
				e := edge{x, x.Succs[0]}
				gd := gx
				if prev, ok := eg[e]; ok {
					gd = S.BOr(prev, gd)
				}
				eg[e] = gd
			default:
				it.exec(g, fr, ins)
				it.steps++
			}
		}
	}
	// join block φs
	j := r.join
	var phis []*ssa.Phi
	var pvals []Value
	k := 0
	for ; k < len(j.Instrs); k++ {
		p, ok := j.Instrs[k].(*ssa.Phi)
		if !ok {
			break
		}
		phis = append(phis, p)
		pvals = append(pvals, phiVal(j, p))
	}
	for i, p := range phis {
		it.set(fr, p, pvals[i])
	}
	fr.prev = b
	fr.block = j
	fr.pc = k
	it.merges++
	return true
}

func (it *Interp) sameValue(a, b Value) bool {
	switch x := a.(type) {
	case *sym.Term:
		y, ok := b.(*sym.Term)
		return ok && x == y
	case PtrV:
		y, ok := b.(PtrV)
		return ok && x == y
	case SliceV:
		y, ok := b.(SliceV)
		return ok && x == y
	case StrV:
		y, ok := b.(StrV)
		return ok && x == y
	case IfaceV:
		y, ok := b.(IfaceV)
		if !ok {
			return false
		}
		if x.T == nil || y.T == nil {
			return x.T == nil && y.T == nil
		}
		return x.T == y.T && it.sameValue(x.V, y.V)
	case *MapV:
		y, ok := b.(*MapV)
		return ok && x == y
	case *ChanV:
		y, ok := b.(*ChanV)
		return ok && x == y
	case *FuncV:
		y, ok := b.(*FuncV)
		return ok && x == y
	case nil:
		return b == nil
	}
	return false
}
