package interp

import (
	"fmt"
	"go/token"
	"go/types"
	"math"
	"unicode/utf8"

	"golang.org/x/tools/go/ssa"

	"verif/engine/sym"
)

func (it *Interp) unop(g *Goroutine, fr *Frame, x *ssa.UnOp) Value {
	v := it.get(fr, x.X)
	switch x.Op {
	case token.MUL: // load
		return it.load(v.(PtrV), x.Type())
	case token.NOT:
		return it.S.BNot(v.(*sym.Term))
	case token.SUB:
		if f, ok := v.(FloatV); ok {
			return FloatV{F: -f.F, Cpx: -f.Cpx}
		}
		return it.S.Neg(v.(*sym.Term))
	case token.XOR:
		return it.S.Not(v.(*sym.Term))
	case token.ARROW:
		it.chanRecv(g, fr, x, v, x.CommaOk)
		return fr.regs[fr.info.idx[x]] // chanRecv stores the result itself (or blocks)
	}
	it.unsupported("unop " + x.Op.String())
	return nil
}

func (it *Interp) binop(op token.Token, xt types.Type, a, b Value, yt types.Type) Value {
	switch av := a.(type) {
	case *sym.Term:
		bv, ok := b.(*sym.Term)
		if !ok {
			panic(fmt.Sprintf("binop %s: term vs %T", op, b))
		}
		return it.intBinop(op, xt, av, bv, yt)
	case StrV:
		bs := b.(StrV)
		switch op {
		case token.ADD:
			return it.strConcat(av, bs)
		case token.EQL:
			return it.strEq(av, bs)
		case token.NEQ:
			return it.S.BNot(it.strEq(av, bs))
		case token.LSS:
			return it.strLess(av, bs)
		case token.GTR:
			return it.strLess(bs, av)
		case token.LEQ:
			return it.S.BNot(it.strLess(bs, av))
		case token.GEQ:
			return it.S.BNot(it.strLess(av, bs))
		}
	case FloatV:
		bf := b.(FloatV)
		if t, ok := xt.Underlying().(*types.Basic); ok && t.Info()&types.IsComplex != 0 {
			switch op {
			case token.ADD:
				return FloatV{Cpx: av.Cpx + bf.Cpx}
			case token.SUB:
				return FloatV{Cpx: av.Cpx - bf.Cpx}
			case token.MUL:
				return FloatV{Cpx: av.Cpx * bf.Cpx}
			case token.QUO:
				return FloatV{Cpx: av.Cpx / bf.Cpx}
			case token.EQL:
				return it.S.Bool(av.Cpx == bf.Cpx)
			case token.NEQ:
				return it.S.Bool(av.Cpx != bf.Cpx)
			}
		}
		is32 := false
		if t, ok := xt.Underlying().(*types.Basic); ok && t.Kind() == types.Float32 {
			is32 = true
		}
		r := func(f float64) Value {
			if is32 {
				f = float64(float32(f))
			}
			return FloatV{F: f}
		}
		switch op {
		case token.ADD:
			return r(av.F + bf.F)
		case token.SUB:
			return r(av.F - bf.F)
		case token.MUL:
			return r(av.F * bf.F)
		case token.QUO:
			return r(av.F / bf.F)
		case token.EQL:
			return it.S.Bool(av.F == bf.F)
		case token.NEQ:
			return it.S.Bool(av.F != bf.F)
		case token.LSS:
			return it.S.Bool(av.F < bf.F)
		case token.LEQ:
			return it.S.Bool(av.F <= bf.F)
		case token.GTR:
			return it.S.Bool(av.F > bf.F)
		case token.GEQ:
			return it.S.Bool(av.F >= bf.F)
		}
	}
	switch op {
	case token.EQL:
		return it.eqValues(xt, a, b)
	case token.NEQ:
		return it.S.BNot(it.eqValues(xt, a, b))
	}
	it.unsupported(fmt.Sprintf("binop %s on %T", op, a))
	return nil
}

func (it *Interp) intBinop(op token.Token, xt types.Type, a, b *sym.Term, yt types.Type) Value {
	S := it.S
	_, signed, _ := it.intWidth(xt)
	switch op {
	case token.ADD:
		return S.Bin(sym.OpAdd, a, b)
	case token.SUB:
		return S.Bin(sym.OpSub, a, b)
	case token.MUL:
		return S.Bin(sym.OpMul, a, b)
	case token.QUO, token.REM:
		if b.IsConst() {
			if b.K == 0 {
				it.throwRuntime("integer divide by zero")
			}
		} else if it.Branch(S.Eq(b, S.Const(b.W, 0))) {
			it.throwRuntime("integer divide by zero")
		}
		if op == token.QUO {
			if signed {
				return S.Bin(sym.OpSDiv, a, b)
			}
			return S.Bin(sym.OpUDiv, a, b)
		}
		if signed {
			return S.Bin(sym.OpSRem, a, b)
		}
		return S.Bin(sym.OpURem, a, b)
	case token.AND:
		if a.W == 0 {
			return S.BAnd(a, b)
		}
		return S.Bin(sym.OpAnd, a, b)
	case token.OR:
		if a.W == 0 {
			return S.BOr(a, b)
		}
		return S.Bin(sym.OpOr, a, b)
	case token.XOR:
		return S.Bin(sym.OpXor, a, b)
	case token.AND_NOT:
		return S.Bin(sym.OpAnd, a, S.Not(b))
	case token.SHL, token.SHR:
		_, ysigned, _ := it.intWidth(yt)
		if ysigned {
			neg := S.Cmp(sym.OpSLt, b, S.Const(b.W, 0))
			if !neg.IsFalse() && it.Branch(neg) {
				it.throwRuntime("negative shift amount")
			}
		}
		var cnt *sym.Term
		var big *sym.Term // count >= width
		if b.W > a.W {
			big = S.BNot(S.Cmp(sym.OpULt, b, S.Const(b.W, uint64(a.W))))
			cnt = S.Extract(b, a.W-1, 0)
		} else {
			big = S.False
			cnt = S.ZExt(b, a.W)
		}
		var r *sym.Term
		switch {
		case op == token.SHL:
			r = S.Bin(sym.OpShl, a, cnt)
			if !big.IsFalse() {
				r = S.Ite(big, S.Const(a.W, 0), r)
			}
		case signed:
			r = S.Bin(sym.OpAShr, a, cnt)
			if !big.IsFalse() {
				r = S.Ite(big, S.Bin(sym.OpAShr, a, S.Const(a.W, uint64(a.W-1))), r)
			}
		default:
			r = S.Bin(sym.OpLShr, a, cnt)
			if !big.IsFalse() {
				r = S.Ite(big, S.Const(a.W, 0), r)
			}
		}
		return r
	case token.EQL:
		return S.Eq(a, b)
	case token.NEQ:
		return S.BNot(S.Eq(a, b))
	case token.LSS:
		if signed {
			return S.Cmp(sym.OpSLt, a, b)
		}
		return S.Cmp(sym.OpULt, a, b)
	case token.LEQ:
		if signed {
			return S.Cmp(sym.OpSLe, a, b)
		}
		return S.Cmp(sym.OpULe, a, b)
	case token.GTR:
		if signed {
			return S.Cmp(sym.OpSLt, b, a)
		}
		return S.Cmp(sym.OpULt, b, a)
	case token.GEQ:
		if signed {
			return S.Cmp(sym.OpSLe, b, a)
		}
		return S.Cmp(sym.OpULe, b, a)
	}
	it.unsupported("int binop " + op.String())
	return nil
}

// eqValues returns the boolean term for a == b at type t.
func (it *Interp) eqValues(t types.Type, a, b Value) *sym.Term {
	S := it.S
	switch av := a.(type) {
	case *sym.Term:
		return S.Eq(av, b.(*sym.Term))
	case StrV:
		return it.strEq(av, b.(StrV))
	case FloatV:
		return S.Bool(av == b.(FloatV))
	case PtrV:
		bv := b.(PtrV)
		if av.Sym != nil || bv.Sym != nil {
			it.unsupported("comparison of symbolic-index pointers")
		}
		return S.Bool(av.Obj == bv.Obj && (av.Obj == nil || av.Off == bv.Off))
	case IfaceV:
		bv := b.(IfaceV)
		if av.T == nil || bv.T == nil {
			return S.Bool(av.T == nil && bv.T == nil)
		}
		if !types.Identical(av.T, bv.T) {
			return S.False
		}
		if !types.Comparable(av.T) {
			panic(goPanic{val: it.runtimeError("comparing uncomparable type " + av.T.String()), msg: "runtime error: comparing uncomparable type " + av.T.String()})
		}
		return it.eqValues(av.T, av.V, bv.V)
	case *MapV:
		return S.Bool(av == b.(*MapV))
	case *ChanV:
		return S.Bool(av == b.(*ChanV))
	case *FuncV:
		bv := b.(*FuncV)
		return S.Bool(av == nil && bv == nil || av == bv)
	case SliceV:
		bv := b.(SliceV)
		return S.Bool(av.Obj == nil && bv.Obj == nil) // only comparison with nil is legal
	case AggV:
		bv := b.(AggV)
		r := S.True
		i := 0
		it.walkLeafTypes(t, func(lt types.Type) {
			if !r.IsFalse() {
				r = S.BAnd(r, it.eqValues(lt, av.Slots[i], bv.Slots[i]))
			}
			i++
		})
		return r
	case nil:
		return S.Bool(b == nil)
	}
	it.unsupported(fmt.Sprintf("== on %T", a))
	return nil
}

func (it *Interp) walkLeafTypes(t types.Type, f func(types.Type)) {
	switch u := t.Underlying().(type) {
	case *types.Struct:
		for i := 0; i < u.NumFields(); i++ {
			it.walkLeafTypes(u.Field(i).Type(), f)
		}
	case *types.Array:
		for i := int64(0); i < u.Len(); i++ {
			it.walkLeafTypes(u.Elem(), f)
		}
	default:
		f(t)
	}
}

// ---------------------------------------------------------------------
// conversions

func (it *Interp) convert(from, to types.Type, v Value) Value {
	S := it.S
	fu, tu := from.Underlying(), to.Underlying()
	if tw, _, ok := it.intWidth(to); ok {
		switch x := v.(type) {
		case *sym.Term:
			_, fsigned, _ := it.intWidth(from)
			if tw == x.W {
				return x
			}
			if tw < x.W {
				return S.Extract(x, tw-1, 0)
			}
			if fsigned {
				return S.SExt(x, tw)
			}
			return S.ZExt(x, tw)
		case FloatV:
			_, tsigned, _ := it.intWidth(to)
			if tsigned {
				return S.Const(tw, uint64(int64(x.F)))
			}
			if x.F < 0 {
				return S.Const(tw, uint64(int64(x.F)))
			}
			return S.Const(tw, uint64(x.F))
		case PtrV:
			// uintptr(unsafe.Pointer(p)): keep pointer identity opaque
			if x.Obj == nil {
				return S.Const(tw, 0)
			}
			it.unsupported("pointer to integer conversion")
		}
	}
	if isFloat(to) {
		is32 := tu.(*types.Basic).Kind() == types.Float32
		r := func(f float64) Value {
			if is32 {
				f = float64(float32(f))
			}
			return FloatV{F: f}
		}
		switch x := v.(type) {
		case FloatV:
			if tu.(*types.Basic).Info()&types.IsComplex != 0 {
				return x
			}
			return r(x.F)
		case *sym.Term:
			if !x.IsConst() {
				it.unsupported("symbolic integer to float conversion")
			}
			_, fsigned, _ := it.intWidth(from)
			if fsigned {
				return r(float64(x.SignedVal()))
			}
			return r(float64(x.K))
		}
	}
	if isString(to) {
		switch x := v.(type) {
		case StrV:
			return x
		case *sym.Term: // string(rune)
			if !x.IsConst() {
				it.unsupported("string(symbolic rune)")
			}
			_, fsigned, _ := it.intWidth(from)
			r := rune(x.K)
			if fsigned {
				r = rune(x.SignedVal())
			}
			return StrV{S: string(r)}
		case SliceV:
			et := fu.(*types.Slice).Elem().Underlying().(*types.Basic)
			if et.Kind() == types.Uint8 {
				if x.Obj == nil {
					return StrV{}
				}
				return it.bytesToStr(it.sliceBytes(x))
			}
			// []rune
			rs := make([]rune, x.Len)
			for i := 0; i < x.Len; i++ {
				t := x.Obj.Slots[x.Off+i].(*sym.Term)
				if !t.IsConst() {
					it.unsupported("string([]rune) with symbolic runes")
				}
				rs[i] = rune(t.SignedVal())
			}
			return StrV{S: string(rs)}
		}
	}
	if ts, ok := tu.(*types.Slice); ok {
		if s, ok := v.(StrV); ok {
			et := ts.Elem().Underlying().(*types.Basic)
			if et.Kind() == types.Uint8 {
				return it.newByteSlice(it.strBytes(s), s.Len())
			}
			cs, ok := it.concStr(s)
			if !ok {
				it.unsupported("[]rune(symbolic string)")
			}
			rs := []rune(cs)
			o := it.newObj(len(rs), "runes")
			for i, r := range rs {
				o.Slots[i] = S.Const(32, uint64(r))
			}
			return SliceV{Obj: o, Len: len(rs), Cap: len(rs)}
		}
		if s, ok := v.(SliceV); ok {
			return s
		}
	}
	switch tu.(type) {
	case *types.Pointer:
		if p, ok := v.(PtrV); ok {
			return p
		}
	case *types.Basic:
		if tu.(*types.Basic).Kind() == types.UnsafePointer {
			switch x := v.(type) {
			case PtrV:
				return x
			case *sym.Term:
				if x.IsConst() && x.K == 0 {
					return PtrV{}
				}
				it.unsupported("integer to unsafe.Pointer conversion")
			}
		}
	}
	it.unsupported(fmt.Sprintf("convert %s -> %s (%T)", from, to, v))
	return nil
}

// ---------------------------------------------------------------------
// concretisation

// concretizeInt returns a concrete value for t, forking the path over all
// feasible values when t is symbolic. lo/hi bound the split (inclusive);
// values outside are reported through the panic/abort of the caller's checks.
func (it *Interp) concretizeInt(t *sym.Term, typ types.Type, lo, hi int64) int64 {
	_, signed, _ := it.intWidth(typ)
	if t.IsConst() {
		if signed {
			return t.SignedVal()
		}
		return int64(t.K)
	}
	v := it.Split(t, signed)
	return v
}

func (it *Interp) termInt(t *sym.Term, signed bool) int64 {
	if signed {
		return t.SignedVal()
	}
	return int64(t.K)
}

// ---------------------------------------------------------------------
// slices, indexing

func (it *Interp) makeSlice(et types.Type, n, c int) SliceV {
	es := it.sizeOf(et)
	o := it.newObj(c*es, "makeslice")
	if c > 0 {
		if es == 1 {
			z := it.zeroLeaf(et)
			for i := range o.Slots {
				o.Slots[i] = z
			}
		} else if es > 0 {
			z := it.zeroSlots(et, nil)
			for i := 0; i < c; i++ {
				copy(o.Slots[i*es:], z)
			}
		}
	}
	return SliceV{Obj: o, Len: n, Cap: c}
}

func (it *Interp) sliceOp(fr *Frame, x *ssa.Slice) Value {
	v := it.get(fr, x.X)
	idx := func(e ssa.Value, def int) int {
		if e == nil {
			return def
		}
		return int(it.concretizeInt(it.get(fr, e).(*sym.Term), e.Type(), 0, 0))
	}
	switch s := v.(type) {
	case StrV:
		n := s.Len()
		lo := idx(x.Low, 0)
		hi := idx(x.High, n)
		if lo < 0 || hi < lo || hi > n {
			it.throwRuntime(fmt.Sprintf("slice bounds out of range [%d:%d] with length %d", lo, hi, n))
		}
		if s.Obj == nil {
			return StrV{S: s.S[lo:hi]}
		}
		return StrV{Obj: s.Obj, Off: s.Off + lo, N: hi - lo}
	case SliceV:
		es := it.sizeOf(x.X.Type().Underlying().(*types.Slice).Elem())
		lo := idx(x.Low, 0)
		hi := idx(x.High, s.Len)
		mx := idx(x.Max, s.Cap)
		if lo < 0 || hi < lo || mx < hi || mx > s.Cap {
			it.throwRuntime(fmt.Sprintf("slice bounds out of range [%d:%d:%d] with capacity %d", lo, hi, mx, s.Cap))
		}
		if s.Obj == nil {
			return SliceV{}
		}
		return SliceV{Obj: s.Obj, Off: s.Off + lo*es, Len: hi - lo, Cap: mx - lo}
	case PtrV: // *array
		at := x.X.Type().Underlying().(*types.Pointer).Elem().Underlying().(*types.Array)
		n := int(at.Len())
		es := it.sizeOf(at.Elem())
		lo := idx(x.Low, 0)
		hi := idx(x.High, n)
		mx := idx(x.Max, n)
		if s.Obj == nil {
			it.throwRuntime("invalid memory address or nil pointer dereference")
		}
		if lo < 0 || hi < lo || mx < hi || mx > n {
			it.throwRuntime(fmt.Sprintf("slice bounds out of range [%d:%d:%d] with array length %d", lo, hi, mx, n))
		}
		return SliceV{Obj: s.Obj, Off: s.Off + lo*es, Len: hi - lo, Cap: mx - lo}
	}
	it.unsupported(fmt.Sprintf("slice of %T", v))
	return nil
}

// boundsIndex checks 0 <= i < n for a (possibly symbolic) index term and
// returns either a concrete index (sym == nil) or the symbolic index term.
func (it *Interp) boundsIndex(i *sym.Term, ityp types.Type, n int, allowSym bool) (int, *sym.Term) {
	S := it.S
	_, signed, _ := it.intWidth(ityp)
	if i.IsConst() {
		v := it.termInt(i, signed)
		if v < 0 || v >= int64(n) {
			it.throwRuntime(fmt.Sprintf("index out of range [%d] with length %d", v, n))
		}
		return int(v), nil
	}
	if i.W < 64 {
		if signed {
			i = S.SExt(i, 64)
		} else {
			i = S.ZExt(i, 64)
		}
	}
	inb := S.Cmp(sym.OpULt, i, S.Const(i.W, uint64(n)))
	if n == 0 {
		inb = S.False
	}
	if !it.Branch(inb) {
		it.throwRuntime(fmt.Sprintf("index out of range [symbolic] with length %d", n))
	}
	if allowSym && n <= it.MaxSymIndex {
		return 0, i
	}
	return int(it.Split(i, false)), nil
}

func (it *Interp) indexAddr(fr *Frame, x *ssa.IndexAddr) Value {
	base := it.get(fr, x.X)
	i := it.get(fr, x.Index).(*sym.Term)
	var obj *Obj
	var off, n int
	var et types.Type
	switch b := base.(type) {
	case SliceV:
		et = x.X.Type().Underlying().(*types.Slice).Elem()
		obj, off, n = b.Obj, b.Off, b.Len
	case PtrV:
		at := x.X.Type().Underlying().(*types.Pointer).Elem().Underlying().(*types.Array)
		et = at.Elem()
		if b.Obj == nil {
			it.throwRuntime("invalid memory address or nil pointer dereference")
		}
		obj, off, n = b.Obj, b.Off, int(at.Len())
	default:
		it.unsupported(fmt.Sprintf("IndexAddr on %T", base))
	}
	es := it.sizeOf(et)
	_, isScalar, _ := it.intWidth(et)
	_ = isScalar
	_, _, scalar := it.intWidth(et)
	k, st := it.boundsIndex(i, x.Index.Type(), n, es == 1 && scalar)
	if st != nil {
		return PtrV{Obj: obj, Off: off, Sym: st, N: n}
	}
	return PtrV{Obj: obj, Off: off + k*es}
}

func (it *Interp) indexOp(fr *Frame, x *ssa.Index) Value {
	base := it.get(fr, x.X)
	i := it.get(fr, x.Index).(*sym.Term)
	switch b := base.(type) {
	case StrV:
		n := b.Len()
		k, st := it.boundsIndex(i, x.Index.Type(), n, true)
		if st != nil {
			return it.selectTerms(it.strBytes(b), st)
		}
		return it.strByte(b, k)
	case AggV:
		at := x.X.Type().Underlying().(*types.Array)
		es := it.sizeOf(at.Elem())
		_, _, scalar := it.intWidth(at.Elem())
		k, st := it.boundsIndex(i, x.Index.Type(), int(at.Len()), es == 1 && scalar)
		if st != nil {
			ts := make([]*sym.Term, len(b.Slots))
			for j, s := range b.Slots {
				ts[j] = s.(*sym.Term)
			}
			return it.selectTerms(ts, st)
		}
		if it.layoutOf(at.Elem()).leaf {
			return b.Slots[k]
		}
		out := make([]Value, es)
		copy(out, b.Slots[k*es:(k+1)*es])
		return AggV{out}
	}
	it.unsupported(fmt.Sprintf("Index on %T", base))
	return nil
}

func (it *Interp) lookup(fr *Frame, x *ssa.Lookup) Value {
	base := it.get(fr, x.X)
	switch b := base.(type) {
	case StrV:
		i := it.get(fr, x.Index).(*sym.Term)
		k, st := it.boundsIndex(i, x.Index.Type(), b.Len(), true)
		if st != nil {
			return it.selectTerms(it.strBytes(b), st)
		}
		return it.strByte(b, k)
	case *MapV:
		key := it.get(fr, x.Index)
		vt := x.X.Type().Underlying().(*types.Map).Elem()
		v, ok := it.mapGet(b, key, x.X.Type().Underlying().(*types.Map).Key())
		if !ok {
			v = it.zeroValue(vt)
		}
		if x.CommaOk {
			return TupleV{v, it.S.Bool(ok)}
		}
		return v
	}
	it.unsupported(fmt.Sprintf("Lookup on %T", base))
	return nil
}

// ---------------------------------------------------------------------
// maps (association lists, concrete shape)

func (it *Interp) newMap(t *types.Map) *MapV {
	it.objSeq++
	return &MapV{T: t, idx: map[string]int{}, ID: it.objSeq}
}

// concKey returns a canonical string for a fully concrete key.
func (it *Interp) concKey(k Value) (string, bool) {
	switch x := k.(type) {
	case *sym.Term:
		if x.IsConst() {
			return fmt.Sprintf("i%d:%d", x.W, x.K), true
		}
	case StrV:
		if s, ok := it.concStr(x); ok {
			return "s" + s, true
		}
	case PtrV:
		if x.Obj == nil {
			return "pnil", true
		}
		return fmt.Sprintf("p%d+%d", x.Obj.ID, x.Off), true
	case IfaceV:
		if x.T == nil {
			return "inil", true
		}
		if s, ok := it.concKey(x.V); ok {
			return "I" + x.T.String() + ":" + s, true
		}
	case AggV:
		r := "a"
		for _, s := range x.Slots {
			p, ok := it.concKey(s)
			if !ok {
				return "", false
			}
			r += "|" + p
		}
		return r, true
	case FloatV:
		return fmt.Sprintf("f%v", x.F), true
	case *ChanV:
		return fmt.Sprintf("c%p", x), true
	}
	return "", false
}

func (it *Interp) mapFind(m *MapV, key Value, kt types.Type) int {
	if ck, ok := it.concKey(key); ok && !m.hasSymKeys() {
		if i, ok := m.idx[ck]; ok {
			return i
		}
		return -1
	}
	// symbolic key (or symbolic keys stored): fork on equality with each entry
	for i := range m.Entries {
		e := &m.Entries[i]
		if e.Del {
			continue
		}
		c := it.eqValues(kt, e.K, key)
		if it.Branch(c) {
			return i
		}
	}
	return -1
}

func (m *MapV) hasSymKeys() bool { return m.idx == nil }

func (it *Interp) mapGet(m *MapV, key Value, kt types.Type) (Value, bool) {
	if m == nil {
		return nil, false
	}
	it.raceMap(m, false)
	i := it.mapFind(m, key, kt)
	if i < 0 {
		return nil, false
	}
	return m.Entries[i].V, true
}

func (it *Interp) mapSet(m *MapV, key, val Value) {
	kt := m.T.Key()
	it.raceMap(m, true)
	i := it.mapFind(m, key, kt)
	if i >= 0 {
		old := m.Entries[i].V
		m.Entries[i].V = val
		it.addUndo(func() { m.Entries[i].V = old })
		return
	}
	ck, conc := it.concKey(key)
	n := len(m.Entries)
	oldIdx := m.idx
	m.Entries = append(m.Entries, mapEntry{K: key, V: val})
	if conc && m.idx != nil {
		m.idx[ck] = n
		it.addUndo(func() { delete(m.idx, ck); m.Entries = m.Entries[:n] })
	} else {
		m.idx = nil
		it.addUndo(func() { m.idx = oldIdx; m.Entries = m.Entries[:n] })
	}
}

func (it *Interp) mapDelete(m *MapV, key Value) {
	if m == nil {
		return
	}
	it.raceMap(m, true)
	i := it.mapFind(m, key, m.T.Key())
	if i < 0 {
		return
	}
	m.Entries[i].Del = true
	var ck string
	var conc bool
	if m.idx != nil {
		ck, conc = it.concKey(key)
		if conc {
			delete(m.idx, ck)
		}
	}
	it.addUndo(func() {
		m.Entries[i].Del = false
		if conc && m.idx != nil {
			m.idx[ck] = i
		}
	})
}

func (it *Interp) mapLen(m *MapV) int {
	if m == nil {
		return 0
	}
	it.raceMap(m, false)
	n := 0
	for _, e := range m.Entries {
		if !e.Del {
			n++
		}
	}
	return n
}

// ---------------------------------------------------------------------
// range iteration

type iterV struct {
	str   StrV
	isStr bool
	m     *MapV
	keys  []int // snapshot of entry indices
	pos   int
}

func (it *Interp) rangeIter(v Value, t types.Type) Value {
	switch x := v.(type) {
	case StrV:
		return &iterV{str: x, isStr: true}
	case *MapV:
		iv := &iterV{m: x}
		if x != nil {
			for i, e := range x.Entries {
				if !e.Del {
					iv.keys = append(iv.keys, i)
				}
			}
		}
		return iv
	}
	it.unsupported(fmt.Sprintf("range over %T", v))
	return nil
}

func (it *Interp) iterNext(iv *iterV, x *ssa.Next) Value {
	S := it.S
	if iv.isStr {
		n := iv.str.Len()
		if iv.pos >= n {
			return TupleV{S.False, S.Const(it.wordBits, 0), S.Const(32, 0)}
		}
		i := iv.pos
		b0 := it.strByte(iv.str, i)
		// fast path: ASCII
		if !b0.IsConst() {
			if it.Branch(S.Cmp(sym.OpULt, b0, S.Const(8, 0x80))) {
				iv.pos++
				return TupleV{S.True, S.Const(it.wordBits, uint64(i)), S.ZExt(b0, 32)}
			}
			// non-ASCII symbolic byte: concretise the next up-to-4 bytes
			m := n - i
			if m > 4 {
				m = 4
			}
			buf := make([]byte, m)
			for k := 0; k < m; k++ {
				buf[k] = byte(it.Split(it.strByte(iv.str, i+k), false))
			}
			r, sz := utf8.DecodeRune(buf)
			iv.pos += sz
			return TupleV{S.True, S.Const(it.wordBits, uint64(i)), S.Const(32, uint64(r))}
		}
		if b0.K < 0x80 {
			iv.pos++
			return TupleV{S.True, S.Const(it.wordBits, uint64(i)), S.Const(32, b0.K)}
		}
		m := n - i
		if m > 4 {
			m = 4
		}
		buf := make([]byte, m)
		for k := 0; k < m; k++ {
			buf[k] = byte(it.Split(it.strByte(iv.str, i+k), false))
		}
		r, sz := utf8.DecodeRune(buf)
		iv.pos += sz
		return TupleV{S.True, S.Const(it.wordBits, uint64(i)), S.Const(32, uint64(r))}
	}
	mt := x.Iter.(*ssa.Range).X.Type().Underlying().(*types.Map)
	for iv.pos < len(iv.keys) {
		e := iv.m.Entries[iv.keys[iv.pos]]
		iv.pos++
		if e.Del {
			continue
		}
		return TupleV{S.True, e.K, e.V}
	}
	return TupleV{S.False, it.zeroValue(mt.Key()), it.zeroValue(mt.Elem())}
}

// ---------------------------------------------------------------------
// strings

func (it *Interp) strConcat(a, b StrV) StrV {
	if a.Len() == 0 {
		return b
	}
	if b.Len() == 0 {
		return a
	}
	if a.Obj == nil && b.Obj == nil {
		return StrV{S: a.S + b.S}
	}
	ts := append(it.strBytes(a), it.strBytes(b)...)
	return it.bytesToStr(ts)
}

var _ = math.MaxInt
