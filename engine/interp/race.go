package interp

import (
	"fmt"
	"go/token"
	"os"
	"strings"
	"sync"

	"golang.org/x/tools/go/ssa"
)

// Happens-before data-race detection over the goroutines of one path
// (vector clocks, FastTrack-style shadow state per slot and per map).
//
// Every synchronisation operation the engine models natively is an acquire
// and/or a release on a sync variable; where the exact Go memory-model edge
// would need more bookkeeping, the model *adds* edges (acquire + release-merge
// on both sides), so that a missing edge can never be the reason for a report:
// the detector may miss races, it does not invent them. Two accesses race when
// they touch the same slot (or the same map), at least one writes, they come
// from different goroutines and neither happens before the other. An access
// made through sync/atomic is synchronisation as well as an access: it
// conflicts with an unordered plain access to the same word, never with
// another atomic access.

type vclock []int

func (v vclock) get(i int) int {
	if i < len(v) {
		return v[i]
	}
	return 0
}

func (v *vclock) set(i, c int) {
	for len(*v) <= i {
		*v = append(*v, 0)
	}
	(*v)[i] = c
}

func (v *vclock) join(o vclock) {
	for i, c := range o {
		if c > v.get(i) {
			v.set(i, c)
		}
	}
}

type raceAccess struct {
	gid    int
	clk    int
	fn     *ssa.Function
	pos    token.Pos
	atomic bool // made through sync/atomic: conflicts only with plain accesses
}

type slotShadow struct {
	w raceAccess
	r []raceAccess // at most one per goroutine
}

type objShadow struct {
	epoch int
	slots []slotShadow
}

type raceState struct {
	syncs   map[any]*vclock
	maps    map[*MapV]*slotShadow
	skip    int // >0: accesses are part of a synchronisation primitive
	atomicAccess bool // the access being recorded is made through sync/atomic
	seen    map[string]bool
	harness map[*ssa.Function]bool
	epoch   int
	// statistics for the evidence
	accesses, syncOps int64
	maxGoroutines     int
}

// RaceOn enables race detection for the paths run by this interpreter.
func (it *Interp) RaceOn() { it.raceEnabled = true }

func (it *Interp) raceReset() {
	if !it.raceEnabled {
		it.race = nil
		return
	}
	ep := 1
	var hz map[*ssa.Function]bool
	if it.race != nil {
		ep = it.race.epoch + 1
		hz = it.race.harness
	}
	if hz == nil {
		hz = map[*ssa.Function]bool{}
	}
	it.race = &raceState{syncs: map[any]*vclock{}, maps: map[*MapV]*slotShadow{}, seen: map[string]bool{}, harness: hz, epoch: ep}
}

func (it *Interp) raceFork(parent, child *Goroutine) {
	if it.race == nil {
		return
	}
	if parent != nil {
		child.vc = append(vclock(nil), parent.vc...)
		parent.vc.set(parent.id, parent.vc.get(parent.id)+1)
	}
	child.vc.set(child.id, 1)
}

func (it *Interp) raceSyncVar(key any) *vclock {
	s := it.race.syncs[key]
	if s == nil {
		s = &vclock{}
		it.race.syncs[key] = s
	}
	return s
}

func (it *Interp) raceAcquire(key any) {
	if it.race == nil || it.cur == nil {
		return
	}
	it.race.syncOps++
	it.cur.vc.join(*it.raceSyncVar(key))
}

func (it *Interp) raceRelease(key any) {
	if it.race == nil || it.cur == nil {
		return
	}
	g := it.cur
	it.race.syncOps++
	it.raceSyncVar(key).join(g.vc)
	g.vc.set(g.id, g.vc.get(g.id)+1)
}

// raceSync: acquire + release-merge (used where either direction may matter).
func (it *Interp) raceSync(key any) {
	it.raceAcquire(key)
	it.raceRelease(key)
}

func (it *Interp) raceSite() (*ssa.Function, token.Pos) {
	g := it.cur
	if g == nil || len(g.stack) == 0 {
		return nil, token.NoPos
	}
	fr := g.stack[len(g.stack)-1]
	pos := token.NoPos
	if fr.block != nil && fr.pc-1 >= 0 && fr.pc-1 < len(fr.block.Instrs) {
		pos = fr.block.Instrs[fr.pc-1].Pos()
	}
	return fr.fn, pos
}

func (it *Interp) raceIsHarness(fn *ssa.Function) bool {
	if fn == nil {
		return true
	}
	if v, ok := it.race.harness[fn]; ok {
		return v
	}
	root := fn
	for root.Parent() != nil {
		root = root.Parent()
	}
	file := it.Prog.Fset.Position(root.Pos()).Filename
	v := strings.Contains(file, "zz_verif_") || strings.Contains(file, "gosym-api-")
	it.race.harness[fn] = v
	return v
}

func (it *Interp) raceDescribe(a raceAccess) string {
	if a.fn == nil {
		return fmt.Sprintf("goroutine %d", a.gid)
	}
	s := fmt.Sprintf("goroutine %d in %s", a.gid, a.fn.String())
	if a.pos != token.NoPos {
		p := it.Prog.Fset.Position(a.pos)
		s += fmt.Sprintf(" (%s:%d)", shortFile(p.Filename), p.Line)
	}
	return s
}

func (it *Interp) raceReport(what string, prev raceAccess, prevWrite bool, cur raceAccess, curWrite bool) {
	// a race between two harness sites is the harness's own business
	if it.raceIsHarness(prev.fn) && it.raceIsHarness(cur.fn) && os.Getenv("GOSYM_RACE_ALL") == "" {
		return
	}
	kind := func(w bool) string {
		if w {
			return "write"
		}
		return "read"
	}
	msg := fmt.Sprintf("data race on %s: %s by %s is unordered with the earlier %s by %s", what, kind(curWrite), it.raceDescribe(cur), kind(prevWrite), it.raceDescribe(prev))
	key := fmt.Sprintf("%v/%v/%d/%d", prev.fn, cur.fn, prev.pos, cur.pos)
	if it.race.seen[key] {
		return
	}
	it.race.seen[key] = true
	if it.path != nil {
		if !it.path.hasModel {
			it.path.fetchModel()
		}
		if it.path.hasModel {
			it.path.recordViolation("no-data-race", msg)
		} else {
			it.path.undecided = append(it.path.undecided, "no-data-race")
		}
	}
}

func (it *Interp) raceCheck(sh *slotShadow, what func() string, write bool) {
	g := it.cur
	it.race.accesses++
	if len(it.gs) > it.race.maxGoroutines {
		it.race.maxGoroutines = len(it.gs)
	}
	fn, pos := it.raceSite()
	me := raceAccess{gid: g.id, clk: g.vc.get(g.id), fn: fn, pos: pos, atomic: it.race.atomicAccess}
	if sh.w.gid != 0 && sh.w.gid != g.id && sh.w.clk > g.vc.get(sh.w.gid) && !(sh.w.atomic && me.atomic) {
		it.raceReport(what(), sh.w, true, me, write)
	}
	if write {
		for _, r := range sh.r {
			if r.gid != g.id && r.clk > g.vc.get(r.gid) && !(r.atomic && me.atomic) {
				it.raceReport(what(), r, false, me, true)
			}
		}
		sh.w = me
		sh.r = sh.r[:0]
		return
	}
	for i := range sh.r {
		if sh.r[i].gid == g.id {
			sh.r[i] = me
			return
		}
	}
	sh.r = append(sh.r, me)
}

// raceMem records an access of n slots of o starting at off.
func (it *Interp) raceMem(o *Obj, off, n int, write bool) {
	if it.race == nil || it.race.skip > 0 || it.cur == nil || o == nil || len(it.gs) < 2 {
		return
	}
	if o.shadow == nil || o.shadow.epoch != it.race.epoch {
		o.shadow = &objShadow{epoch: it.race.epoch}
	}
	sh := o.shadow
	for len(sh.slots) < off+n {
		sh.slots = append(sh.slots, slotShadow{})
	}
	for i := off; i < off+n; i++ {
		idx := i
		it.raceCheck(&sh.slots[i], func() string { return fmt.Sprintf("%s[slot %d]", o.Tag, idx) }, write)
	}
}

func (it *Interp) raceMap(m *MapV, write bool) {
	if it.race == nil || it.race.skip > 0 || it.cur == nil || m == nil || len(it.gs) < 2 {
		return
	}
	sh := it.race.maps[m]
	if sh == nil {
		sh = &slotShadow{}
		it.race.maps[m] = sh
	}
	it.raceCheck(sh, func() string { return "map " + m.T.String() }, write)
}

// wrapSyncIntrinsics makes sync/atomic operations and the sync.Map model
// synchronisation points: acquire + release-merge on the address, and the
// memory they touch is not a data access.
var wrapSyncOnce sync.Once

func wrapSyncIntrinsics() {
	for name, f := range intrinsics {
		if !(strings.HasPrefix(name, "sync/atomic.") || strings.HasPrefix(name, "(*sync/atomic.") || strings.HasPrefix(name, "(*sync.Map).")) {
			continue
		}
		inner := f
		isAtomic := !strings.HasPrefix(name, "(*sync.Map).")
		isLoad := strings.Contains(name, "Load")
		intrinsics[name] = func(it *Interp, a []Value) Value {
			if it.race == nil {
				return inner(it, a)
			}
			if p, ok := a[0].(PtrV); ok && p.Obj != nil {
				key := syncKey{p.Obj, p.Off}
				it.raceAcquire(key)
				if isAtomic && it.race.skip == 0 {
					// the word itself is accessed atomically: that conflicts with an
					// unordered *plain* access by another goroutine, not with other
					// atomic accesses
					it.race.atomicAccess = true
					it.raceMem(p.Obj, p.Off, 1, !isLoad)
					it.race.atomicAccess = false
				}
				it.raceRelease(key)
			}
			it.race.skip++
			defer func() { it.race.skip-- }()
			return inner(it, a)
		}
	}
}

// raceArm records the clock of the goroutine arming a timer (a release).
func (it *Interp) raceArm(t *timerState) {
	if it.race == nil || it.cur == nil {
		return
	}
	g := it.cur
	t.vc = append(vclock(nil), g.vc...)
	g.vc.set(g.id, g.vc.get(g.id)+1)
}
