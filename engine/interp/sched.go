package interp

import (
	"fmt"
	"go/types"

	"golang.org/x/tools/go/ssa"

	"verif/engine/sym"
)

type sendItem struct {
	g     *Goroutine
	val   Value
	taken bool
}

type ChanV struct {
	T      *types.Chan
	cap    int
	buf    []Value
	closed bool
	sendq  []*sendItem
	recvq  []*Goroutine
	ID     int
	// timer channels
	timer *timerState
}

func (it *Interp) newGoroutine() *Goroutine {
	it.gSeq++
	g := &Goroutine{id: it.gSeq}
	it.gs = append(it.gs, g)
	return g
}

func (it *Interp) spawn(fv *FuncV, args []Value) {
	g := it.newGoroutine()
	saved := it.cur
	it.raceFork(saved, g)
	it.cur = g
	it.callValue(g, nil, nil, fv, args, nil)
	it.cur = saved
}

func (it *Interp) goroutineExit(g *Goroutine) {
	if g.exitPanic != nil && g != it.gs[0] {
		// a panic in a secondary goroutine kills the program
		panic(pathAbort{"gopanic", "panic in goroutine: " + g.exitPanic.msg})
	}
}

// pickRunnable returns the next goroutine to run, waking blocked ones whose
// condition became true. When everything is blocked it lets virtual time
// advance to the next timer.
func (it *Interp) pickRunnable() *Goroutine {
	if it.yieldNext != nil {
		g := it.yieldNext
		it.yieldNext = nil
		if g.state == gRunnable {
			return g
		}
	}
	if it.goschedReq {
		it.goschedReq = false
		saved := it.cur
		for _, g := range it.gs {
			if g.state == gBlocked && g.wake != nil {
				it.cur = g
				if g.wake() {
					g.state = gRunnable
					g.wake = nil
				}
			}
		}
		it.cur = saved
		idx := -1
		for i, g := range it.gs {
			if g == it.cur {
				idx = i
			}
		}
		for k := 1; k <= len(it.gs); k++ {
			g := it.gs[(idx+k)%len(it.gs)]
			if g.state == gRunnable {
				return g
			}
		}
	}
	for round := 0; ; round++ {
		if it.cur != nil && it.cur.state == gRunnable {
			return it.cur
		}
		for _, g := range it.gs {
			if g.state == gRunnable {
				return g
			}
		}
		for _, g := range it.gs {
			if g.state == gBlocked && g.wake != nil {
				it.cur = g
				if g.wake() {
					g.state = gRunnable
					g.wake = nil
					return g
				}
			}
		}
		if !it.advanceTime() {
			break
		}
	}
	return nil
}

func (it *Interp) block(g *Goroutine, desc string, wake func() bool) {
	g.state = gBlocked
	g.waitDesc = desc
	g.wake = wake
}

func (it *Interp) newChan(t *types.Chan, size int) *ChanV {
	it.objSeq++
	return &ChanV{T: t, cap: size, ID: it.objSeq}
}

func (it *Interp) chanUndo(c *ChanV) {
	if !it.trailOn || c.ID > it.trailBase {
		return
	}
	buf := append([]Value(nil), c.buf...)
	closed := c.closed
	sq := append([]*sendItem(nil), c.sendq...)
	rq := append([]*Goroutine(nil), c.recvq...)
	it.addUndo(func() { c.buf, c.closed, c.sendq, c.recvq = buf, closed, sq, rq })
}

func (it *Interp) chanSend(g *Goroutine, fr *Frame, cv Value, val Value) {
	c := cv.(*ChanV)
	if c == nil {
		it.block(g, "send on nil chan", func() bool { return false })
		return
	}
	if c.closed {
		panic(goPanic{val: it.runtimeError("send on closed channel"), msg: "send on closed channel"})
	}
	it.chanUndo(c)
	it.raceSync(c)
	if c.cap > 0 && len(c.buf) < c.cap {
		c.buf = append(c.buf, val)
		return
	}
	item := &sendItem{g: g, val: val}
	c.sendq = append(c.sendq, item)
	it.block(g, fmt.Sprintf("chan send #%d", c.ID), func() bool {
		if item.taken {
			it.raceAcquire(c) // the receive happens before the send completes
			return true
		}
		if c.closed {
			panic(goPanic{val: it.runtimeError("send on closed channel"), msg: "send on closed channel"})
		}
		return false
	})
}

// tryRecv attempts a non-blocking receive.
func (it *Interp) tryRecv(c *ChanV) (Value, bool, bool) {
	if c.timer != nil {
		it.timerPoll(c)
	}
	if len(c.buf) > 0 {
		it.chanUndo(c)
		it.raceSync(c)
		v := c.buf[0]
		c.buf = c.buf[1:]
		// move a blocked sender's item into the buffer
		if len(c.sendq) > 0 {
			s := c.sendq[0]
			c.sendq = c.sendq[1:]
			c.buf = append(c.buf, s.val)
			s.taken = true
		}
		return v, true, true
	}
	if len(c.sendq) > 0 {
		it.chanUndo(c)
		it.raceSync(c)
		s := c.sendq[0]
		c.sendq = c.sendq[1:]
		s.taken = true
		return s.val, true, true
	}
	if c.closed {
		it.raceAcquire(c)
		return it.zeroValue(c.T.Elem()), false, true
	}
	return nil, false, false
}

func (it *Interp) chanRecv(g *Goroutine, fr *Frame, dst ssa.Value, cv Value, commaOk bool) {
	c := cv.(*ChanV)
	deliver := func(v Value, ok bool) {
		if commaOk {
			it.set(fr, dst, TupleV{v, it.S.Bool(ok)})
		} else {
			it.set(fr, dst, v)
		}
	}
	if c == nil {
		it.set(fr, dst, nil)
		it.block(g, "recv on nil chan", func() bool { return false })
		return
	}
	if v, ok, done := it.tryRecv(c); done {
		deliver(v, ok)
		return
	}
	it.set(fr, dst, nil)
	c.recvq = append(c.recvq, g)
	it.block(g, fmt.Sprintf("chan recv #%d", c.ID), func() bool {
		if v, ok, done := it.tryRecv(c); done {
			it.removeRecvWaiter(c, g)
			deliver(v, ok)
			return true
		}
		return false
	})
}

func (it *Interp) removeRecvWaiter(c *ChanV, g *Goroutine) {
	for i, x := range c.recvq {
		if x == g {
			c.recvq = append(c.recvq[:i:i], c.recvq[i+1:]...)
			return
		}
	}
}

func (it *Interp) chanClose(c *ChanV) {
	if c == nil {
		panic(goPanic{val: it.runtimeError("close of nil channel"), msg: "close of nil channel"})
	}
	if c.closed {
		panic(goPanic{val: it.runtimeError("close of closed channel"), msg: "close of closed channel"})
	}
	it.chanUndo(c)
	it.raceSync(c)
	c.closed = true
}

// sendReady reports whether a send would complete without blocking.
func (it *Interp) sendReady(c *ChanV) bool {
	if c.closed {
		return true // will panic
	}
	if c.cap > 0 {
		return len(c.buf) < c.cap
	}
	return len(c.recvq) > 0
}

func (it *Interp) recvReady(c *ChanV) bool {
	if c.timer != nil {
		it.timerPoll(c)
	}
	return len(c.buf) > 0 || len(c.sendq) > 0 || c.closed
}

func (it *Interp) selectOp(g *Goroutine, fr *Frame, x *ssa.Select) {
	type st struct {
		c    *ChanV
		send bool
		val  Value
	}
	states := make([]st, len(x.States))
	for i, s := range x.States {
		c, _ := it.get(fr, s.Chan).(*ChanV)
		states[i] = st{c: c, send: s.Dir == types.SendOnly}
		if states[i].send {
			states[i].val = it.get(fr, s.Send)
		}
	}
	nrecv := 0
	for _, s := range x.States {
		if s.Dir == types.RecvOnly {
			nrecv++
		}
	}
	finish := func(idx int, rv Value, rok bool) {
		tv := make(TupleV, 2+nrecv)
		tv[0] = it.S.Const(it.wordBits, uint64(int64(idx)))
		tv[1] = it.S.Bool(rok)
		k := 2
		for i, s := range x.States {
			if s.Dir == types.RecvOnly {
				if i == idx && rv != nil {
					tv[k] = rv
				} else {
					tv[k] = it.zeroValue(s.Chan.Type().Underlying().(*types.Chan).Elem())
				}
				k++
			}
		}
		it.set(fr, x, tv)
	}
	attempt := func() bool {
		var ready []int
		for i, s := range states {
			if s.c == nil {
				continue
			}
			if s.send {
				if it.sendReady(s.c) {
					ready = append(ready, i)
				}
			} else if it.recvReady(s.c) {
				ready = append(ready, i)
			}
		}
		if len(ready) == 0 {
			return false
		}
		pick := ready[0]
		if len(ready) > 1 && it.SelectAll() {
			pick = ready[it.Choose(len(ready))]
		}
		s := states[pick]
		if s.send {
			if s.c.closed {
				panic(goPanic{val: it.runtimeError("send on closed channel"), msg: "send on closed channel"})
			}
			it.chanUndo(s.c)
			it.raceSync(s.c)
			if s.c.cap > 0 {
				s.c.buf = append(s.c.buf, s.val)
			} else {
				s.c.sendq = append(s.c.sendq, &sendItem{g: g, val: s.val, taken: false})
			}
			finish(pick, nil, false)
			return true
		}
		v, ok, _ := it.tryRecv(s.c)
		finish(pick, v, ok)
		return true
	}
	if attempt() {
		return
	}
	if !x.Blocking {
		finish(-1, nil, false)
		return
	}
	it.set(fr, x, nil)
	for _, s := range states {
		if s.c != nil && !s.send {
			s.c.recvq = append(s.c.recvq, g)
		}
	}
	it.block(g, "select", func() bool {
		if attempt() {
			for _, s := range states {
				if s.c != nil && !s.send {
					it.removeRecvWaiter(s.c, g)
				}
			}
			return true
		}
		return false
	})
}

func (it *Interp) SelectAll() bool { return true }

// ---------------------------------------------------------------------
// sync primitives (state keyed by address)

type syncObj struct {
	locked  bool
	owner   *Goroutine
	readers int
	counter int64 // WaitGroup
}

func (it *Interp) syncAt(p PtrV) *syncObj {
	k := syncKey{p.Obj, p.Off}
	s := it.syncState[k]
	if s == nil {
		s = &syncObj{}
		it.syncState[k] = s
	}
	return s
}

func (it *Interp) mutexLock(p PtrV, write bool) {
	if p.Obj == nil {
		it.throwRuntime("invalid memory address or nil pointer dereference (nil mutex)")
	}
	s := it.syncAt(p)
	g := it.cur
	rk := syncKey{p.Obj, p.Off}
	try := func() bool {
		if write {
			if !s.locked && s.readers == 0 {
				s.locked = true
				s.owner = g
				it.raceAcquire(rk)
				return true
			}
			return false
		}
		if !s.locked {
			s.readers++
			it.raceAcquire(rk)
			return true
		}
		return false
	}
	if try() {
		return
	}
	if s.locked && s.owner == g {
		panic(pathAbort{"deadlock", "goroutine locks a mutex it already holds" + it.where()})
	}
	it.block(g, "mutex", try)
}

func (it *Interp) mutexTryLock(p PtrV) bool {
	s := it.syncAt(p)
	if !s.locked && s.readers == 0 {
		s.locked = true
		s.owner = it.cur
		it.raceAcquire(syncKey{p.Obj, p.Off})
		return true
	}
	return false
}

func (it *Interp) mutexUnlock(p PtrV, write bool) {
	s := it.syncAt(p)
	it.raceRelease(syncKey{p.Obj, p.Off})
	if write {
		if !s.locked {
			panic(pathAbort{"gopanic", "fatal error: sync: unlock of unlocked mutex" + it.where()})
		}
		s.locked = false
		s.owner = nil
		return
	}
	if s.readers <= 0 {
		panic(pathAbort{"gopanic", "fatal error: sync: RUnlock of unlocked RWMutex" + it.where()})
	}
	s.readers--
}

// ---------------------------------------------------------------------
// virtual time

type timerState struct {
	when    int64 // virtual ns
	active  bool
	fn      *FuncV // AfterFunc
	period  int64
	ch      *ChanV
	id      int
	vc      vclock // race detection: clock of the goroutine that armed the timer
}

type clockState struct {
	now    int64
	timers []*timerState
	sleepers []*sleeper
}

type sleeper struct {
	until int64
}

const virtualEpochNs = int64(1600000000) * 1e9 // 2020-09-13T12:26:40Z

func (it *Interp) nowNs() int64 {
	if v, ok := it.ghost["__now"]; ok {
		return v.(int64)
	}
	return virtualEpochNs
}

func (it *Interp) setNow(ns int64) { it.ghost["__now"] = ns }

func (it *Interp) timers() []*timerState {
	if v, ok := it.ghost["__timers"]; ok {
		return v.([]*timerState)
	}
	return nil
}

func (it *Interp) addTimer(t *timerState) {
	it.ghost["__timers"] = append(it.timers(), t)
}

// timerPoll delivers the tick of a channel timer whose time has come.
func (it *Interp) timerPoll(c *ChanV) {
	t := c.timer
	if t != nil && t.active && t.when <= it.nowNs() {
		if len(c.buf) < c.cap {
			c.buf = append(c.buf, it.timeValue(t.when))
		}
		if t.period > 0 {
			t.when += t.period
		} else {
			t.active = false
		}
	}
}

// advanceTime moves virtual time to the earliest pending timer/sleeper when
// every goroutine is blocked. Returns false when nothing is pending.
func (it *Interp) advanceTime() bool {
	best := int64(-1)
	for _, t := range it.timers() {
		if t.active && (best < 0 || t.when < best) {
			best = t.when
		}
	}
	if v, ok := it.ghost["__sleepers"]; ok {
		for _, s := range v.([]*sleeper) {
			if s.until > it.nowNs() && (best < 0 || s.until < best) {
				best = s.until
			}
		}
	}
	if best < 0 {
		return false
	}
	anyBlocked := false
	for _, g := range it.gs {
		if g.state == gBlocked {
			anyBlocked = true
		}
	}
	if !anyBlocked {
		return false
	}
	if best > it.nowNs() {
		it.setNow(best)
	}
	// fire AfterFunc timers that are due
	fired := false
	for _, t := range it.timers() {
		if t.active && t.fn != nil && t.when <= it.nowNs() {
			t.active = false
			it.spawn(t.fn, nil)
			if it.race != nil {
				// the callback is ordered after the arming of the timer, not after
				// whatever goroutine happened to be current when time advanced
				g := it.gs[len(it.gs)-1]
				g.vc = append(vclock(nil), t.vc...)
				g.vc.set(g.id, 1)
			}
			fired = true
		}
	}
	_ = fired
	// a channel timer that is due fires into its channel whether or not anybody
	// is waiting on it yet (otherwise an armed timer nobody polls would hold
	// virtual time at its instant for ever)
	for _, t := range it.timers() {
		if t.active && t.fn == nil && t.ch != nil && t.when <= it.nowNs() {
			it.chanUndo(t.ch)
			it.timerPoll(t.ch)
		}
	}
	it.ghost["__advances"] = it.advances() + 1
	if it.advances() > 10000 {
		panic(pathAbort{"budget", "virtual time advanced 10000 times"})
	}
	return true
}

func (it *Interp) advances() int {
	if v, ok := it.ghost["__advances"]; ok {
		return v.(int)
	}
	return 0
}

func (it *Interp) sleepUntil(ns int64) {
	g := it.cur
	s := &sleeper{until: ns}
	var list []*sleeper
	if v, ok := it.ghost["__sleepers"]; ok {
		list = v.([]*sleeper)
	}
	it.ghost["__sleepers"] = append(list, s)
	if ns <= it.nowNs() {
		return
	}
	it.block(g, "sleep", func() bool { return it.nowNs() >= ns })
}

// timeValue builds a time.Time for the virtual instant ns (UTC, no monotonic part).
func (it *Interp) timeValue(ns int64) Value {
	// time.Time{wall uint64, ext int64, loc *Location}; with hasMonotonic=0,
	// ext is seconds since year 1 and wall holds the nanoseconds.
	const unixToInternal = int64((1969*365 + 1969/4 - 1969/100 + 1969/400) * 86400)
	sec := ns / 1e9
	nsec := ns % 1e9
	if nsec < 0 {
		nsec += 1e9
		sec--
	}
	return AggV{[]Value{it.S.Const(64, uint64(nsec)), it.S.Const(64, uint64(sec+unixToInternal)), PtrV{}}}
}

var _ = sym.OpAdd
