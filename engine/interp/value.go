// Package interp is a symbolic interpreter for go/ssa.
//
// Invariant: lengths, capacities, offsets, pointers, dynamic types, map shapes
// and channel occupancy are concrete on every path; only scalars and the
// elements of arrays are symbolic terms.
package interp

import (
	"fmt"
	"go/types"
	"strings"

	"golang.org/x/tools/go/ssa"

	"verif/engine/sym"
)

// Value is one of:
//
//	*sym.Term  bool / integers (constant or symbolic)
//	FloatV     concrete float
//	StrV       string
//	PtrV       pointer (Obj==nil: nil pointer)
//	SliceV     slice header
//	IfaceV     interface value (T==nil: nil interface)
//	*MapV      map reference (nil: nil map)
//	*ChanV     channel reference (nil: nil chan)
//	*FuncV     function value (nil: nil func)
//	AggV       flattened struct/array value held in a register
//	TupleV     multiple results
type Value interface{}

type FloatV struct {
	F   float64
	Cpx complex128
}

// Obj is an allocation: a flat vector of leaf slots.
type Obj struct {
	Slots []Value
	ID    int
	Tag   string // diagnostics: what it was allocated for
	shadow *objShadow // race detection (per path, see race.go)
	// mutex / ghost state for sync primitives living inside this object is
	// kept in the interpreter keyed by (obj, off).
}

type PtrV struct {
	Obj *Obj
	Off int
	// symbolic-index pointer: address of element Sym (0 ≤ Sym < N) of a run of
	// single-slot elements starting at Off. Sym == nil for ordinary pointers.
	Sym *sym.Term
	N   int
	// pointer to a function-like unique identity (e.g. unsafe.Pointer of func)
}

func (p PtrV) IsNil() bool { return p.Obj == nil }

type SliceV struct {
	Obj      *Obj
	Off      int // slot offset of element 0
	Len, Cap int // in elements
}

type StrV struct {
	S   string // used when Obj == nil
	Obj *Obj   // byte-slot backing otherwise
	Off int
	N   int
}

func (s StrV) Len() int {
	if s.Obj == nil {
		return len(s.S)
	}
	return s.N
}

type IfaceV struct {
	T types.Type // dynamic type; nil means nil interface
	V Value
}

type mapEntry struct {
	K, V Value
	Del  bool
}

type MapV struct {
	T       *types.Map
	Entries []mapEntry
	idx     map[string]int // fast path for concrete keys
	ID      int
}

type FuncV struct {
	Fn      *ssa.Function
	Env     []Value       // free variable bindings (closures)
	Recv    Value         // bound method receiver (when Bound)
	Bound   bool
	Builtin *ssa.Builtin
	Native  string // name of a native (engine-implemented) function value
}

type AggV struct{ Slots []Value }

type TupleV []Value

// ---------------------------------------------------------------------
// layout

type layout struct {
	size   int
	fields []int // struct: slot offset of each field
	elem   int   // array: element size
	leaf   bool
}

func (it *Interp) layoutOf(t types.Type) *layout {
	if l, ok := it.layouts[t]; ok {
		return l
	}
	var l *layout
	switch u := t.Underlying().(type) {
	case *types.Struct:
		l = &layout{}
		off := 0
		for i := 0; i < u.NumFields(); i++ {
			l.fields = append(l.fields, off)
			off += it.layoutOf(u.Field(i).Type()).size
		}
		l.size = off
	case *types.Array:
		e := it.layoutOf(u.Elem())
		l = &layout{size: int(u.Len()) * e.size, elem: e.size}
	case *types.Tuple:
		l = &layout{size: u.Len()}
	default:
		l = &layout{size: 1, leaf: true}
	}
	it.layouts[t] = l
	return l
}

func (it *Interp) sizeOf(t types.Type) int { return it.layoutOf(t).size }

// intWidth returns (bit width, signed) for integer-like basic types.
func (it *Interp) intWidth(t types.Type) (uint8, bool, bool) {
	b, ok := t.Underlying().(*types.Basic)
	if !ok {
		return 0, false, false
	}
	switch b.Kind() {
	case types.Bool, types.UntypedBool:
		return 0, false, true
	case types.Int8:
		return 8, true, true
	case types.Int16:
		return 16, true, true
	case types.Int32, types.UntypedRune:
		return 32, true, true
	case types.Int64, types.UntypedInt:
		return 64, true, true
	case types.Int:
		return it.wordBits, true, true
	case types.Uint8:
		return 8, false, true
	case types.Uint16:
		return 16, false, true
	case types.Uint32:
		return 32, false, true
	case types.Uint64:
		return 64, false, true
	case types.Uint, types.Uintptr:
		return it.wordBits, false, true
	}
	return 0, false, false
}

func isFloat(t types.Type) bool {
	b, ok := t.Underlying().(*types.Basic)
	return ok && b.Info()&(types.IsFloat|types.IsComplex) != 0
}

func isString(t types.Type) bool {
	b, ok := t.Underlying().(*types.Basic)
	return ok && b.Info()&types.IsString != 0
}

// zero appends the zero value slots for t.
func (it *Interp) zeroSlots(t types.Type, dst []Value) []Value {
	switch u := t.Underlying().(type) {
	case *types.Struct:
		for i := 0; i < u.NumFields(); i++ {
			dst = it.zeroSlots(u.Field(i).Type(), dst)
		}
		return dst
	case *types.Array:
		n := int(u.Len())
		if n == 0 {
			return dst
		}
		start := len(dst)
		dst = it.zeroSlots(u.Elem(), dst)
		es := len(dst) - start
		for i := 1; i < n; i++ {
			dst = append(dst, dst[start:start+es]...)
		}
		return dst
	}
	return append(dst, it.zeroLeaf(t))
}

func (it *Interp) zeroLeaf(t types.Type) Value {
	switch u := t.Underlying().(type) {
	case *types.Basic:
		if w, _, ok := it.intWidth(t); ok {
			return it.S.Const(w, 0)
		}
		if isString(t) {
			return StrV{}
		}
		if u.Kind() == types.UnsafePointer {
			return PtrV{}
		}
		if isFloat(t) {
			return FloatV{}
		}
		if u.Kind() == types.UntypedNil {
			return PtrV{}
		}
	case *types.Pointer:
		return PtrV{}
	case *types.Slice:
		return SliceV{}
	case *types.Interface:
		return IfaceV{}
	case *types.Map:
		return (*MapV)(nil)
	case *types.Chan:
		return (*ChanV)(nil)
	case *types.Signature:
		return (*FuncV)(nil)
	case *types.TypeParam:
		panic("zero of type parameter")
	}
	panic(fmt.Sprintf("zeroLeaf: unhandled type %s", t))
}

func (it *Interp) zeroValue(t types.Type) Value {
	l := it.layoutOf(t)
	if l.leaf {
		return it.zeroLeaf(t)
	}
	if tt, ok := t.(*types.Tuple); ok {
		tv := make(TupleV, tt.Len())
		for i := range tv {
			tv[i] = it.zeroValue(tt.At(i).Type())
		}
		return tv
	}
	return AggV{it.zeroSlots(t, make([]Value, 0, l.size))}
}

// ---------------------------------------------------------------------
// objects and the trail

type trailEntry struct {
	obj  *Obj
	idx  int
	old  Value
	undo func()
}

func (it *Interp) newObj(n int, tag string) *Obj {
	it.objSeq++
	return &Obj{Slots: make([]Value, n), ID: it.objSeq, Tag: tag}
}

func (it *Interp) allocType(t types.Type, tag string) *Obj {
	l := it.layoutOf(t)
	it.objSeq++
	o := &Obj{ID: it.objSeq, Tag: tag}
	o.Slots = it.zeroSlots(t, make([]Value, 0, l.size))
	return o
}

func (it *Interp) setSlot(o *Obj, i int, v Value) {
	if it.race != nil {
		it.raceMem(o, i, 1, true)
	}
	if it.trailOn && o.ID <= it.trailBase {
		it.trail = append(it.trail, trailEntry{obj: o, idx: i, old: o.Slots[i]})
	}
	o.Slots[i] = v
}

func (it *Interp) addUndo(f func()) {
	if it.trailOn {
		it.trail = append(it.trail, trailEntry{undo: f})
	}
}

func (it *Interp) unwindTrail() {
	for i := len(it.trail) - 1; i >= 0; i-- {
		e := &it.trail[i]
		if e.undo != nil {
			e.undo()
		} else {
			e.obj.Slots[e.idx] = e.old
		}
	}
	it.trail = it.trail[:0]
}

// load reads a value of type t at p.
func (it *Interp) load(p PtrV, t types.Type) Value {
	if p.Obj == nil {
		it.throwRuntime("invalid memory address or nil pointer dereference")
	}
	l := it.layoutOf(t)
	if p.Sym != nil {
		if it.race != nil {
			it.raceMem(p.Obj, p.Off, p.N, false)
		}
		return it.selectSlots(p.Obj, p.Off, p.N, p.Sym)
	}
	if l.leaf {
		if p.Off >= len(p.Obj.Slots) {
			it.unsupported(fmt.Sprintf("load past object end (%s, off %d, size %d)", p.Obj.Tag, p.Off, len(p.Obj.Slots)))
		}
		if it.race != nil {
			it.raceMem(p.Obj, p.Off, 1, false)
		}
		return p.Obj.Slots[p.Off]
	}
	if p.Off+l.size > len(p.Obj.Slots) {
		it.unsupported(fmt.Sprintf("aggregate load past object end (%s)", p.Obj.Tag))
	}
	if it.race != nil {
		it.raceMem(p.Obj, p.Off, l.size, false)
	}
	out := make([]Value, l.size)
	copy(out, p.Obj.Slots[p.Off:p.Off+l.size])
	return AggV{out}
}

func (it *Interp) store(p PtrV, t types.Type, v Value) {
	if p.Obj == nil {
		it.throwRuntime("invalid memory address or nil pointer dereference")
	}
	if p.Sym != nil {
		val := v.(*sym.Term)
		w := p.Sym.W
		for k := 0; k < p.N; k++ {
			old, ok := p.Obj.Slots[p.Off+k].(*sym.Term)
			if !ok {
				it.unsupported("symbolic-index store into non-scalar slot")
			}
			it.setSlot(p.Obj, p.Off+k, it.S.Ite(it.S.Eq(p.Sym, it.S.Const(w, uint64(k))), val, old))
		}
		return
	}
	l := it.layoutOf(t)
	if l.leaf {
		if p.Off >= len(p.Obj.Slots) {
			it.unsupported(fmt.Sprintf("store past object end (%s)", p.Obj.Tag))
		}
		it.setSlot(p.Obj, p.Off, v)
		return
	}
	a, ok := v.(AggV)
	if !ok {
		panic(fmt.Sprintf("store: aggregate expected for %s, got %T", t, v))
	}
	if len(a.Slots) != l.size {
		panic(fmt.Sprintf("store: size mismatch for %s: %d vs %d", t, len(a.Slots), l.size))
	}
	for i, s := range a.Slots {
		it.setSlot(p.Obj, p.Off+i, s)
	}
}

// selectSlots builds the ite-tree for Slots[off+idx], 0 ≤ idx < n.
func (it *Interp) selectSlots(o *Obj, off, n int, idx *sym.Term) Value {
	ts := make([]*sym.Term, n)
	for i := 0; i < n; i++ {
		t, ok := o.Slots[off+i].(*sym.Term)
		if !ok {
			it.unsupported("symbolic-index load of non-scalar element")
		}
		ts[i] = t
	}
	return it.selectTerms(ts, idx)
}

// selectTerms returns ts[idx] as a balanced ite tree over the bits of idx
// (idx is known to be < len(ts)).
func (it *Interp) selectTerms(ts []*sym.Term, idx *sym.Term) *sym.Term {
	n := len(ts)
	if n == 1 {
		return ts[0]
	}
	nb := 0
	for (1 << nb) < n {
		nb++
	}
	var rec func(lo int, bit int) *sym.Term
	rec = func(lo int, bit int) *sym.Term {
		if lo >= n {
			return nil
		}
		if bit < 0 {
			return ts[lo]
		}
		a := rec(lo, bit-1)
		b := rec(lo+(1<<bit), bit-1)
		if b == nil {
			return a
		}
		c := it.S.Eq(it.S.Extract(idx, uint8(bit), uint8(bit)), it.S.Const(1, 1))
		return it.S.Ite(c, b, a)
	}
	return rec(0, nb-1)
}

// ---------------------------------------------------------------------
// strings

func (it *Interp) mkStr(s string) StrV { return StrV{S: s} }

// strByte returns byte i of s as a term.
func (it *Interp) strByte(s StrV, i int) *sym.Term {
	if s.Obj == nil {
		return it.S.Const(8, uint64(s.S[i]))
	}
	if it.race != nil {
		it.raceMem(s.Obj, s.Off+i, 1, false)
	}
	return s.Obj.Slots[s.Off+i].(*sym.Term)
}

func (it *Interp) strBytes(s StrV) []*sym.Term {
	n := s.Len()
	out := make([]*sym.Term, n)
	for i := 0; i < n; i++ {
		out[i] = it.strByte(s, i)
	}
	return out
}

// concStr returns the Go string if every byte is constant.
func (it *Interp) concStr(s StrV) (string, bool) {
	if s.Obj == nil {
		return s.S, true
	}
	var sb strings.Builder
	sb.Grow(s.N)
	for i := 0; i < s.N; i++ {
		t, ok := s.Obj.Slots[s.Off+i].(*sym.Term)
		if !ok || !t.IsConst() {
			return "", false
		}
		sb.WriteByte(byte(t.K))
	}
	return sb.String(), true
}

// strObj materialises a string as a byte object view (needed for s2b etc.).
func (it *Interp) strObj(s StrV) (o *Obj, off, n int) {
	if s.Obj != nil {
		return s.Obj, s.Off, s.N
	}
	if o, ok := it.strObjs[s.S]; ok {
		return o, 0, len(s.S)
	}
	o = it.newObj(len(s.S), "string")
	for i := 0; i < len(s.S); i++ {
		o.Slots[i] = it.S.Const(8, uint64(s.S[i]))
	}
	if !it.trailOn {
		// only strings materialised during init are shared across paths
		it.strObjs[s.S] = o
	}
	return o, 0, len(s.S)
}

func (it *Interp) bytesToStr(ts []*sym.Term) StrV {
	allc := true
	for _, t := range ts {
		if !t.IsConst() {
			allc = false
			break
		}
	}
	if allc {
		b := make([]byte, len(ts))
		for i, t := range ts {
			b[i] = byte(t.K)
		}
		return StrV{S: string(b)}
	}
	o := it.newObj(len(ts), "strcopy")
	for i, t := range ts {
		o.Slots[i] = t
	}
	return StrV{Obj: o, N: len(ts)}
}

func (it *Interp) sliceBytes(s SliceV) []*sym.Term {
	out := make([]*sym.Term, s.Len)
	for i := 0; i < s.Len; i++ {
		out[i] = s.Obj.Slots[s.Off+i].(*sym.Term)
	}
	return out
}

func (it *Interp) newByteSlice(ts []*sym.Term, capacity int) SliceV {
	if capacity < len(ts) {
		capacity = len(ts)
	}
	o := it.newObj(capacity, "bytes")
	z := it.S.Const(8, 0)
	for i := range o.Slots {
		o.Slots[i] = z
	}
	for i, t := range ts {
		o.Slots[i] = t
	}
	return SliceV{Obj: o, Len: len(ts), Cap: capacity}
}

func (it *Interp) constByteSlice(b []byte) SliceV {
	ts := make([]*sym.Term, len(b))
	for i, c := range b {
		ts[i] = it.S.Const(8, uint64(c))
	}
	return it.newByteSlice(ts, len(b))
}

// strEq returns the boolean term a == b.
func (it *Interp) strEq(a, b StrV) *sym.Term {
	if a.Len() != b.Len() {
		return it.S.False
	}
	if a.Obj == nil && b.Obj == nil {
		return it.S.Bool(a.S == b.S)
	}
	r := it.S.True
	for i := 0; i < a.Len(); i++ {
		r = it.S.BAnd(r, it.S.Eq(it.strByte(a, i), it.strByte(b, i)))
		if r.IsFalse() {
			return r
		}
	}
	return r
}

// strLess returns the boolean term a < b (lexicographic, bytes).
func (it *Interp) strLess(a, b StrV) *sym.Term {
	return it.bytesLess(it.strBytes(a), it.strBytes(b))
}

func (it *Interp) bytesLess(a, b []*sym.Term) *sym.Term {
	n := len(a)
	if len(b) < n {
		n = len(b)
	}
	// result if all first n bytes equal:
	res := it.S.Bool(len(a) < len(b))
	for i := n - 1; i >= 0; i-- {
		res = it.S.Ite(it.S.Eq(a[i], b[i]), res, it.S.Cmp(sym.OpULt, a[i], b[i]))
	}
	return res
}

// ---------------------------------------------------------------------
// printing (diagnostics)

func (it *Interp) show(v Value) string {
	switch x := v.(type) {
	case nil:
		return "<nil>"
	case *sym.Term:
		return x.String()
	case StrV:
		if s, ok := it.concStr(x); ok {
			return fmt.Sprintf("%q", s)
		}
		return fmt.Sprintf("str[%d sym]", x.Len())
	case PtrV:
		if x.Obj == nil {
			return "nil"
		}
		return fmt.Sprintf("&%s#%d+%d", x.Obj.Tag, x.Obj.ID, x.Off)
	case SliceV:
		if x.Obj == nil {
			return "[]nil"
		}
		return fmt.Sprintf("slice(#%d+%d len %d cap %d)", x.Obj.ID, x.Off, x.Len, x.Cap)
	case IfaceV:
		if x.T == nil {
			return "iface(nil)"
		}
		return fmt.Sprintf("iface(%s: %s)", x.T, it.show(x.V))
	case AggV:
		return fmt.Sprintf("agg[%d]", len(x.Slots))
	case TupleV:
		parts := []string{}
		for _, e := range x {
			parts = append(parts, it.show(e))
		}
		return "(" + strings.Join(parts, ", ") + ")"
	case *FuncV:
		if x == nil {
			return "func(nil)"
		}
		if x.Fn != nil {
			return "func " + x.Fn.String()
		}
		return "func(native " + x.Native + ")"
	}
	return fmt.Sprintf("%T", v)
}
