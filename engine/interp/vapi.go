package interp

import (
	"fmt"
	"go/types"
	"strings"

	"verif/engine/sym"
)

func sanitize(s string) string {
	var sb strings.Builder
	for _, c := range s {
		if c >= 'a' && c <= 'z' || c >= 'A' && c <= 'Z' || c >= '0' && c <= '9' || c == '_' {
			sb.WriteRune(c)
		} else {
			sb.WriteByte('_')
		}
	}
	return sb.String()
}

func (it *Interp) inputName(v Value) string {
	s, ok := it.concStr(v.(StrV))
	if !ok {
		it.unsupported("symbolic input name")
	}
	p := it.path
	n := 0
	for _, in := range p.inputs {
		if in.Name == s || strings.HasPrefix(in.Name, s+"#") {
			n++
		}
	}
	if n > 0 {
		s = fmt.Sprintf("%s#%d", s, n)
	}
	return s
}

func (it *Interp) freshVar(name string, w uint8) *sym.Term {
	t := it.S.Var(sanitize(name), w)
	it.path.vars = append(it.path.vars, t)
	return t
}

func (it *Interp) vScalar(a []Value, w uint8, signed bool) Value {
	if it.path == nil || it.path.concrete {
		it.unsupported("v* input outside a path")
	}
	name := it.inputName(a[0])
	kind := "int"
	if w == 0 {
		kind = "bool"
	}
	t := it.freshVar(name, w)
	it.path.inputs = append(it.path.inputs, InputRec{Name: name, Kind: kind, Terms: []*sym.Term{t}, W: w, Signed: signed})
	return t
}

func init() {
	harnessAPI = map[string]Intrinsic{
		"vBytes": func(it *Interp, a []Value) Value {
			name := it.inputName(a[0])
			n := int(it.concretizeInt(a[1].(*sym.Term), types.Typ[types.Int], 0, 0))
			ts := make([]*sym.Term, n)
			for i := range ts {
				ts[i] = it.freshVar(fmt.Sprintf("%s_%d", name, i), 8)
			}
			it.path.inputs = append(it.path.inputs, InputRec{Name: name, Kind: "bytes", Terms: ts})
			return it.newByteSlice(ts, n)
		},
		"vByte":   func(it *Interp, a []Value) Value { return it.vScalar(a, 8, false) },
		"vBool":   func(it *Interp, a []Value) Value { return it.vScalar(a, 0, false) },
		"vInt":    func(it *Interp, a []Value) Value { return it.vScalar(a, it.wordBits, true) },
		"vUint":   func(it *Interp, a []Value) Value { return it.vScalar(a, it.wordBits, false) },
		"vInt64":  func(it *Interp, a []Value) Value { return it.vScalar(a, 64, true) },
		"vUint64": func(it *Interp, a []Value) Value { return it.vScalar(a, 64, false) },
		"vInt32":  func(it *Interp, a []Value) Value { return it.vScalar(a, 32, true) },
		"vUint32": func(it *Interp, a []Value) Value { return it.vScalar(a, 32, false) },
		"vUint16": func(it *Interp, a []Value) Value { return it.vScalar(a, 16, false) },
		"vIntRange": func(it *Interp, a []Value) Value {
			t := it.vScalar(a[:1], it.wordBits, true).(*sym.Term)
			lo, hi := a[1].(*sym.Term), a[2].(*sym.Term)
			it.Assume(it.S.BAnd(it.S.Cmp(sym.OpSLe, lo, t), it.S.Cmp(sym.OpSLe, t, hi)))
			return t
		},
		"vLen": func(it *Interp, a []Value) Value {
			name := it.inputName(a[0])
			lo := int(it.concretizeInt(a[1].(*sym.Term), types.Typ[types.Int], 0, 0))
			hi := int(it.concretizeInt(a[2].(*sym.Term), types.Typ[types.Int], 0, 0))
			if hi < lo {
				panic(pathAbort{"infeasible", "vLen: empty range"})
			}
			k := lo + it.Choose(hi-lo+1)
			it.path.inputs = append(it.path.inputs, InputRec{Name: name, Kind: "choice", Conc: int64(k)})
			return it.intV(k)
		},
		"vChoose": func(it *Interp, a []Value) Value {
			name := it.inputName(a[0])
			n := int(it.concretizeInt(a[1].(*sym.Term), types.Typ[types.Int], 0, 0))
			k := it.Choose(n)
			it.path.inputs = append(it.path.inputs, InputRec{Name: name, Kind: "choice", Conc: int64(k)})
			return it.intV(k)
		},
		"vAssume": func(it *Interp, a []Value) Value { it.Assume(a[0].(*sym.Term)); return nil },
		"vAssert": func(it *Interp, a []Value) Value {
			id, _ := it.concStr(a[0].(StrV))
			it.path.reached["assert:"+id] = true
			it.Assert(id, a[1].(*sym.Term))
			return nil
		},
		"vReach": func(it *Interp, a []Value) Value {
			id, _ := it.concStr(a[0].(StrV))
			it.path.reached[id] = true
			return nil
		},
		"vNote": func(it *Interp, a []Value) Value {
			s, _ := it.concStr(a[0].(StrV))
			it.path.note(s)
			return nil
		},
		"vConc": func(it *Interp, a []Value) Value {
			t := a[0].(*sym.Term)
			return it.S.Const(t.W, uint64(it.Split(t, true)))
		},
		"vConcByte": func(it *Interp, a []Value) Value {
			t := a[0].(*sym.Term)
			return it.S.Const(8, uint64(it.Split(t, false)))
		},
		"vParam": func(it *Interp, a []Value) Value {
			name, _ := it.concStr(a[0].(StrV))
			if v, ok := it.Params[name]; ok {
				return it.intV(v)
			}
			return a[1]
		},
		"vKnown": func(it *Interp, a []Value) Value {
			name, _ := it.concStr(a[0].(StrV))
			return it.boolV(it.Known[name])
		},
		"vSymbolic": func(it *Interp, a []Value) Value { return it.S.True },
		"vOtherGoroutines": func(it *Interp, a []Value) Value {
			n := 0
			for _, g := range it.gs {
				if g != it.cur && g.state != gDone {
					n++
				}
			}
			return it.intV(n)
		},
		"vYield": func(it *Interp, a []Value) Value {
			// schedule choice point: pick any runnable goroutine
			var run []*Goroutine
			for _, g := range it.gs {
				if g.state == gRunnable {
					run = append(run, g)
				}
			}
			if len(run) > 1 {
				k := it.Choose(len(run))
				if run[k] != it.cur {
					it.yieldNext = run[k]
					it.yieldReq = true
				}
			}
			return nil
		},
	}
}
