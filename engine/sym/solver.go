package sym

import (
	"bufio"
	"fmt"
	"io"
	"os/exec"
	"strconv"
	"strings"
	"time"
)

type Result int

const (
	Unsat Result = iota
	Sat
	Unknown
)

func (r Result) String() string { return [...]string{"unsat", "sat", "unknown"}[r] }

// Solver is one persistent SMT solver process driven over a pipe.
type Solver struct {
	Kind    string // "z3", "z3-new", "cvc5"
	cmd     *exec.Cmd
	in      io.WriteCloser
	out     *bufio.Reader
	pr      *Printer
	scopes  []int // len(pr.Order) at each push
	Queries struct{ Sat, Unsat, Unknown, Errors int }
	Time    time.Duration
	Timeout int // ms per query
	LastError string
	Log     io.Writer
	dead    bool
	errScope bool // an (error ...) was seen since the outermost scope was opened
}

func NewSolver(kind string, timeoutMs int) (*Solver, error) {
	var cmd *exec.Cmd
	switch kind {
	case "z3", "":
		kind = "z3"
		cmd = exec.Command("z3", "-in", fmt.Sprintf("-t:%d", timeoutMs))
	case "z3-new":
		cmd = exec.Command("z3-new", "-in", fmt.Sprintf("-t:%d", timeoutMs))
	case "cvc5":
		cmd = exec.Command("cvc5", "--incremental", "--produce-models", "--lang=smt2", fmt.Sprintf("--tlimit-per=%d", timeoutMs))
	default:
		return nil, fmt.Errorf("unknown solver %q", kind)
	}
	in, err := cmd.StdinPipe()
	if err != nil {
		return nil, err
	}
	outp, err := cmd.StdoutPipe()
	if err != nil {
		return nil, err
	}
	cmd.Stderr = cmd.Stdout
	if err := cmd.Start(); err != nil {
		return nil, err
	}
	s := &Solver{Kind: kind, cmd: cmd, in: in, out: bufio.NewReaderSize(outp, 1<<16), pr: NewPrinter(), Timeout: timeoutMs}
	if kind == "cvc5" {
		s.send("(set-logic QF_BV)\n")
	}
	s.send("(set-option :produce-models true)\n")
	return s, nil
}

func (s *Solver) Close() {
	if s.cmd != nil {
		s.in.Close()
		s.cmd.Process.Kill()
		s.cmd.Wait()
		s.cmd = nil
	}
}

func (s *Solver) send(text string) {
	if s.Log != nil {
		io.WriteString(s.Log, text)
	}
	if _, err := io.WriteString(s.in, text); err != nil {
		s.dead = true
	}
}

func (s *Solver) Push() {
	s.scopes = append(s.scopes, len(s.pr.Order))
	s.send("(push 1)\n")
}

func (s *Solver) Pop() {
	n := s.scopes[len(s.scopes)-1]
	s.scopes = s.scopes[:len(s.scopes)-1]
	for _, id := range s.pr.Order[n:] {
		delete(s.pr.Defined, id)
	}
	s.pr.Order = s.pr.Order[:n]
	s.send("(pop 1)\n")
	if len(s.scopes) == 0 {
		s.errScope = false
	}
}

func (s *Solver) IsDefined(t *Term) bool { return s.pr.Defined[t.ID] }

func (s *Solver) Depth() int { return len(s.scopes) }

func (s *Solver) Assert(t *Term) {
	var sb strings.Builder
	ref := s.pr.Ref(t, &sb)
	sb.WriteString("(assert ")
	sb.WriteString(ref)
	sb.WriteString(")\n")
	s.send(sb.String())
}

// Check runs check-sat on the current assertion stack.
func (s *Solver) Check() Result {
	if s.dead {
		s.Queries.Unknown++
		return Unknown
	}
	t0 := time.Now()
	s.send("(check-sat)\n")
	r := Unknown
	for {
		line, err := s.out.ReadString('\n')
		if err != nil {
			s.dead = true
			break
		}
		line = strings.TrimSpace(line)
		if line == "" {
			continue
		}
		if line == "sat" {
			r = Sat
			break
		}
		if line == "unsat" {
			r = Unsat
			break
		}
		if line == "unknown" || line == "timeout" {
			r = Unknown
			break
		}
		if strings.HasPrefix(line, "(error") {
			s.Queries.Errors++
			s.errScope = true
			s.LastError = line
			if s.Log != nil {
				fmt.Fprintf(s.Log, "; SOLVER ERROR: %s\n", line)
			}
			// an error may precede the actual answer; keep reading but remember
			r = Unknown
			// read the answer line that follows the failed command, if the
			// error was for check-sat itself there is none: we cannot know, so
			// peek without blocking is impossible; z3 prints the error for the
			// offending earlier command and then still answers check-sat.
			continue
		}
	}
	if s.errScope && r != Unknown {
		// any error makes the verdict inconclusive
		r = Unknown
	}
	s.Time += time.Since(t0)
	switch r {
	case Sat:
		s.Queries.Sat++
	case Unsat:
		s.Queries.Unsat++
	default:
		s.Queries.Unknown++
	}
	return r
}

// CheckPatient is Check for queries whose answer decides an assertion: an
// "unknown" that is only a timeout (a loaded machine) is retried once with six
// times the per-query limit before it is accepted as undecided.
func (s *Solver) CheckPatient() Result {
	r := s.Check()
	if r != Unknown || s.dead || s.errScope || s.Kind == "cvc5" || s.Timeout <= 0 {
		return r
	}
	s.send(fmt.Sprintf("(set-option :timeout %d)\n", s.Timeout*6))
	s.Queries.Unknown-- // the first attempt is superseded by the retry
	r = s.Check()
	s.send(fmt.Sprintf("(set-option :timeout %d)\n", s.Timeout))
	return r
}

// CheckWith checks the stack plus the extra assumption inside a temporary scope.
func (s *Solver) CheckWith(extra *Term) Result {
	if extra.IsTrue() {
		return s.Check()
	}
	if extra.IsFalse() {
		return Unsat
	}
	s.Push()
	s.Assert(extra)
	r := s.Check()
	s.Pop()
	return r
}

// Values queries the model for the given terms (after a Sat answer, with the
// scope that produced it still in place).
func (s *Solver) Values(ts []*Term) ([]uint64, error) {
	if len(ts) == 0 {
		return nil, nil
	}
	var sb strings.Builder
	refs := make([]string, len(ts))
	for i, t := range ts {
		refs[i] = s.pr.Ref(t, &sb)
	}
	// definitions after check-sat would invalidate the model in some solvers;
	// callers make sure terms are already defined (variables are declared on
	// first use). If something new was defined we have to re-check.
	if sb.Len() > 0 {
		s.send(sb.String())
		if s.Check() != Sat {
			return nil, fmt.Errorf("re-check after late definition not sat")
		}
	}
	sb.Reset()
	sb.WriteString("(get-value (")
	for _, r := range refs {
		sb.WriteString(r)
		sb.WriteByte(' ')
	}
	sb.WriteString("))\n")
	s.send(sb.String())
	// read a balanced s-expression
	var text strings.Builder
	depth := 0
	started := false
	for {
		line, err := s.out.ReadString('\n')
		if err != nil {
			s.dead = true
			return nil, err
		}
		if strings.HasPrefix(strings.TrimSpace(line), "(error") {
			s.Queries.Errors++
			return nil, fmt.Errorf("solver: %s", line)
		}
		for _, c := range line {
			if c == '(' {
				depth++
				started = true
			} else if c == ')' {
				depth--
			}
		}
		text.WriteString(line)
		if started && depth <= 0 {
			break
		}
	}
	vals := parseValues(text.String())
	if len(vals) != len(ts) {
		return nil, fmt.Errorf("solver: cannot parse get-value answer %q", text.String())
	}
	return vals, nil
}

// parseValues extracts the value literal of each (expr value) pair, in order.
func parseValues(s string) []uint64 {
	var out []uint64
	// tokenise
	toks := []string{}
	cur := strings.Builder{}
	flush := func() {
		if cur.Len() > 0 {
			toks = append(toks, cur.String())
			cur.Reset()
		}
	}
	for _, c := range s {
		switch c {
		case '(', ')':
			flush()
			toks = append(toks, string(c))
		case ' ', '\n', '\t', '\r':
			flush()
		default:
			cur.WriteRune(c)
		}
	}
	flush()
	// structure: ( (e v) (e v) ... ) where e may itself be parenthesised
	i := 0
	if i < len(toks) && toks[i] == "(" {
		i++
	}
	for i < len(toks) && toks[i] == "(" {
		i++
		// skip expr
		if toks[i] == "(" {
			d := 0
			for {
				if toks[i] == "(" {
					d++
				} else if toks[i] == ")" {
					d--
				}
				i++
				if d == 0 {
					break
				}
			}
		} else {
			i++
		}
		// value
		if toks[i] == "(" { // (_ bvN w)
			if i+3 < len(toks) && toks[i+1] == "_" && strings.HasPrefix(toks[i+2], "bv") {
				v, _ := strconv.ParseUint(toks[i+2][2:], 10, 64)
				out = append(out, v)
			}
			d := 0
			for {
				if toks[i] == "(" {
					d++
				} else if toks[i] == ")" {
					d--
				}
				i++
				if d == 0 {
					break
				}
			}
		} else {
			tk := toks[i]
			i++
			switch {
			case tk == "true":
				out = append(out, 1)
			case tk == "false":
				out = append(out, 0)
			case strings.HasPrefix(tk, "#x"):
				v, _ := strconv.ParseUint(tk[2:], 16, 64)
				out = append(out, v)
			case strings.HasPrefix(tk, "#b"):
				v, _ := strconv.ParseUint(tk[2:], 2, 64)
				out = append(out, v)
			}
		}
		if i < len(toks) && toks[i] == ")" {
			i++
		}
	}
	return out
}
