// Package sym: hash-consed bit-vector / boolean terms with local
// simplification, and an SMT-LIB2 printer.
package sym

import (
	"fmt"
	"math/bits"
	"strings"
)

type Op uint8

const (
	OpConst Op = iota // bit-vector constant (K) or bool constant (W==0, K∈{0,1})
	OpVar
	OpAdd
	OpSub
	OpMul
	OpUDiv
	OpURem
	OpSDiv
	OpSRem
	OpAnd
	OpOr
	OpXor
	OpNot // bvnot
	OpNeg
	OpShl
	OpLShr
	OpAShr
	OpZExt    // K = extra bits
	OpSExt    // K = extra bits
	OpExtract // K = hi<<8|lo
	OpConcat
	OpEq // bv or bool equality -> bool
	OpULt
	OpULe
	OpSLt
	OpSLe
	OpBNot // bool not
	OpBAnd
	OpBOr
	OpIte // args: cond(bool), a, b (bv or bool)
)

var opNames = map[Op]string{
	OpAdd: "bvadd", OpSub: "bvsub", OpMul: "bvmul", OpUDiv: "bvudiv", OpURem: "bvurem",
	OpSDiv: "bvsdiv", OpSRem: "bvsrem", OpAnd: "bvand", OpOr: "bvor", OpXor: "bvxor",
	OpNot: "bvnot", OpNeg: "bvneg", OpShl: "bvshl", OpLShr: "bvlshr", OpAShr: "bvashr",
	OpConcat: "concat", OpEq: "=", OpULt: "bvult", OpULe: "bvule", OpSLt: "bvslt", OpSLe: "bvsle",
	OpBNot: "not", OpBAnd: "and", OpBOr: "or", OpIte: "ite",
}

// Term is an immutable hash-consed node. W is the bit width; W==0 means Bool.
type Term struct {
	Op   Op
	W    uint8
	K    uint64
	Args []*Term
	Name string
	ID   int
}

func (t *Term) IsConst() bool { return t.Op == OpConst }
func (t *Term) IsBool() bool  { return t.W == 0 }
func (t *Term) IsTrue() bool  { return t.Op == OpConst && t.W == 0 && t.K == 1 }
func (t *Term) IsFalse() bool { return t.Op == OpConst && t.W == 0 && t.K == 0 }

// Store owns the hash-consing table. Not safe for concurrent use.
type Store struct {
	tab    map[string]*Term
	nextID int
	Vars   []*Term
	varBy  map[string]*Term
	True   *Term
	False  *Term
	small  [4][257]*Term
}

func NewStore() *Store {
	s := &Store{tab: map[string]*Term{}, varBy: map[string]*Term{}}
	s.True = s.mk(OpConst, 0, 1, nil, "")
	s.False = s.mk(OpConst, 0, 0, nil, "")
	return s
}

func mask(w uint8) uint64 {
	if w >= 64 {
		return ^uint64(0)
	}
	return (uint64(1) << w) - 1
}

func (s *Store) mk(op Op, w uint8, k uint64, args []*Term, name string) *Term {
	var sb strings.Builder
	sb.Grow(24 + 8*len(args))
	sb.WriteByte(byte(op))
	sb.WriteByte(w)
	var buf [8]byte
	for i := 0; i < 8; i++ {
		buf[i] = byte(k >> (8 * i))
	}
	sb.Write(buf[:])
	for _, a := range args {
		id := a.ID
		sb.WriteByte(byte(id))
		sb.WriteByte(byte(id >> 8))
		sb.WriteByte(byte(id >> 16))
		sb.WriteByte(byte(id >> 24))
	}
	sb.WriteString(name)
	key := sb.String()
	if t, ok := s.tab[key]; ok {
		return t
	}
	t := &Term{Op: op, W: w, K: k, Args: args, Name: name, ID: s.nextID}
	s.nextID++
	s.tab[key] = t
	return t
}

func widx(w uint8) int {
	switch w {
	case 8:
		return 0
	case 16:
		return 1
	case 32:
		return 2
	case 64:
		return 3
	}
	return -1
}

// Const makes a bit-vector constant of width w.
func (s *Store) Const(w uint8, v uint64) *Term {
	if w == 0 {
		return s.Bool(v != 0)
	}
	v &= mask(w)
	if v <= 256 {
		if i := widx(w); i >= 0 {
			if t := s.small[i][v]; t != nil {
				return t
			}
			t := s.mk(OpConst, w, v, nil, "")
			s.small[i][v] = t
			return t
		}
	}
	return s.mk(OpConst, w, v, nil, "")
}

func (s *Store) Bool(b bool) *Term {
	if b {
		return s.True
	}
	return s.False
}

// Var returns the (unique) variable with that name and width.
func (s *Store) Var(name string, w uint8) *Term {
	if t, ok := s.varBy[name]; ok {
		if t.W != w {
			panic("sym: variable " + name + " redeclared with another width")
		}
		return t
	}
	t := s.mk(OpVar, w, 0, nil, name)
	s.varBy[name] = t
	s.Vars = append(s.Vars, t)
	return t
}

func (s *Store) LookupVar(name string) *Term { return s.varBy[name] }

func sx(v uint64, w uint8) int64 {
	if w >= 64 {
		return int64(v)
	}
	sh := 64 - uint(w)
	return int64(v<<sh) >> sh
}

// SignedVal returns the constant interpreted as signed.
func (t *Term) SignedVal() int64 { return sx(t.K, t.W) }

func (s *Store) Bin(op Op, a, b *Term) *Term {
	if a.W != b.W {
		panic(fmt.Sprintf("sym: width mismatch %s: %d vs %d", opNames[op], a.W, b.W))
	}
	w := a.W
	if a.IsConst() && b.IsConst() {
		x, y := a.K, b.K
		switch op {
		case OpAdd:
			return s.Const(w, x+y)
		case OpSub:
			return s.Const(w, x-y)
		case OpMul:
			return s.Const(w, x*y)
		case OpUDiv:
			if y == 0 {
				return s.Const(w, mask(w))
			}
			return s.Const(w, x/y)
		case OpURem:
			if y == 0 {
				return a
			}
			return s.Const(w, x%y)
		case OpSDiv:
			if y == 0 {
				if sx(x, w) >= 0 {
					return s.Const(w, mask(w))
				}
				return s.Const(w, 1)
			}
			sa, sb := sx(x, w), sx(y, w)
			if sb == -1 {
				return s.Const(w, uint64(-sa))
			}
			return s.Const(w, uint64(sa/sb))
		case OpSRem:
			if y == 0 {
				return a
			}
			sa, sb := sx(x, w), sx(y, w)
			if sb == -1 {
				return s.Const(w, 0)
			}
			return s.Const(w, uint64(sa%sb))
		case OpAnd:
			return s.Const(w, x&y)
		case OpOr:
			return s.Const(w, x|y)
		case OpXor:
			return s.Const(w, x^y)
		case OpShl:
			if y >= uint64(w) {
				return s.Const(w, 0)
			}
			return s.Const(w, x<<y)
		case OpLShr:
			if y >= uint64(w) {
				return s.Const(w, 0)
			}
			return s.Const(w, x>>y)
		case OpAShr:
			if y >= uint64(w) {
				y = uint64(w) - 1
			}
			return s.Const(w, uint64(sx(x, w)>>y))
		}
	}
	// algebraic identities
	switch op {
	case OpAdd:
		if a.IsConst() {
			a, b = b, a
		}
		if b.IsConst() {
			if b.K == 0 {
				return a
			}
			// (x + c1) + c2
			if a.Op == OpAdd && a.Args[1].IsConst() {
				return s.Bin(OpAdd, a.Args[0], s.Const(w, a.Args[1].K+b.K))
			}
		}
	case OpSub:
		if b.IsConst() {
			if b.K == 0 {
				return a
			}
			return s.Bin(OpAdd, a, s.Const(w, -b.K))
		}
		if a == b {
			return s.Const(w, 0)
		}
	case OpMul:
		if a.IsConst() {
			a, b = b, a
		}
		if b.IsConst() {
			if b.K == 0 {
				return b
			}
			if b.K == 1 {
				return a
			}
		}
	case OpUDiv, OpSDiv:
		if b.IsConst() && b.K == 1 {
			return a
		}
	case OpAnd:
		if a.IsConst() {
			a, b = b, a
		}
		if b.IsConst() {
			if b.K == 0 {
				return b
			}
			if b.K == mask(w) {
				return a
			}
		}
		if a == b {
			return a
		}
	case OpOr:
		if a.IsConst() {
			a, b = b, a
		}
		if b.IsConst() {
			if b.K == 0 {
				return a
			}
			if b.K == mask(w) {
				return b
			}
		}
		if a == b {
			return a
		}
	case OpXor:
		if a.IsConst() {
			a, b = b, a
		}
		if b.IsConst() && b.K == 0 {
			return a
		}
		if a == b {
			return s.Const(w, 0)
		}
	case OpShl, OpLShr, OpAShr:
		if b.IsConst() && b.K == 0 {
			return a
		}
		if b.IsConst() && b.K >= uint64(w) && op != OpAShr {
			return s.Const(w, 0)
		}
	}
	return s.mk(op, w, 0, []*Term{a, b}, "")
}

func (s *Store) Not(a *Term) *Term { // bvnot
	if a.IsConst() {
		return s.Const(a.W, ^a.K)
	}
	if a.Op == OpNot {
		return a.Args[0]
	}
	return s.mk(OpNot, a.W, 0, []*Term{a}, "")
}

func (s *Store) Neg(a *Term) *Term {
	if a.IsConst() {
		return s.Const(a.W, -a.K)
	}
	return s.mk(OpNeg, a.W, 0, []*Term{a}, "")
}

func (s *Store) ZExt(a *Term, to uint8) *Term {
	if to == a.W {
		return a
	}
	if to < a.W {
		return s.Extract(a, to-1, 0)
	}
	if a.IsConst() {
		return s.Const(to, a.K)
	}
	if a.Op == OpZExt {
		return s.ZExt(a.Args[0], to)
	}
	return s.mk(OpZExt, to, uint64(to-a.W), []*Term{a}, "")
}

func (s *Store) SExt(a *Term, to uint8) *Term {
	if to == a.W {
		return a
	}
	if to < a.W {
		return s.Extract(a, to-1, 0)
	}
	if a.IsConst() {
		return s.Const(to, uint64(sx(a.K, a.W)))
	}
	if a.Op == OpZExt { // sign bit is zero
		return s.ZExt(a.Args[0], to)
	}
	return s.mk(OpSExt, to, uint64(to-a.W), []*Term{a}, "")
}

func (s *Store) Extract(a *Term, hi, lo uint8) *Term {
	w := hi - lo + 1
	if lo == 0 && w == a.W {
		return a
	}
	if a.IsConst() {
		return s.Const(w, a.K>>lo)
	}
	if (a.Op == OpZExt || a.Op == OpSExt) && lo == 0 {
		in := a.Args[0]
		if w <= in.W {
			return s.Extract(in, hi, 0)
		}
		if a.Op == OpZExt {
			return s.ZExt(in, w)
		}
		return s.SExt(in, w)
	}
	if a.Op == OpZExt && lo >= a.Args[0].W {
		return s.Const(w, 0)
	}
	if a.Op == OpExtract {
		ilo := uint8(a.K & 0xff)
		return s.Extract(a.Args[0], hi+ilo, lo+ilo)
	}
	return s.mk(OpExtract, w, uint64(hi)<<8|uint64(lo), []*Term{a}, "")
}

func (s *Store) Concat(hi, lo *Term) *Term {
	w := hi.W + lo.W
	if hi.IsConst() && lo.IsConst() {
		return s.Const(w, hi.K<<lo.W|lo.K)
	}
	if hi.IsConst() && hi.K == 0 {
		return s.ZExt(lo, w)
	}
	return s.mk(OpConcat, w, 0, []*Term{hi, lo}, "")
}

// range information used for cheap comparison folding
func (t *Term) umax() uint64 {
	switch t.Op {
	case OpConst:
		return t.K
	case OpZExt:
		return t.Args[0].umax()
	case OpAnd:
		a, b := t.Args[0].umax(), t.Args[1].umax()
		if a < b {
			return a
		}
		return b
	case OpURem:
		if t.Args[1].IsConst() && t.Args[1].K > 0 {
			return t.Args[1].K - 1
		}
	case OpLShr:
		if t.Args[1].IsConst() && t.Args[1].K < 64 {
			return t.Args[0].umax() >> t.Args[1].K
		}
	case OpIte:
		a, b := t.Args[1].umax(), t.Args[2].umax()
		if a > b {
			return a
		}
		return b
	case OpOr, OpXor:
		a, b := t.Args[0].umax(), t.Args[1].umax()
		m := a | b
		if m == 0 {
			return 0
		}
		n := bits.Len64(m)
		if n >= 64 {
			return ^uint64(0)
		}
		r := (uint64(1) << n) - 1
		if r > mask(t.W) {
			return mask(t.W)
		}
		return r
	}
	return mask(t.W)
}

func (s *Store) Eq(a, b *Term) *Term {
	if a.W != b.W {
		panic(fmt.Sprintf("sym: Eq width mismatch %d vs %d", a.W, b.W))
	}
	if a == b {
		return s.True
	}
	if a.IsConst() && b.IsConst() {
		return s.Bool(a.K == b.K)
	}
	if a.IsConst() {
		a, b = b, a
	}
	if a.W == 0 {
		if b.IsTrue() {
			return a
		}
		if b.IsFalse() {
			return s.BNot(a)
		}
	} else if b.IsConst() {
		if b.K > a.umax() {
			return s.False
		}
		switch a.Op {
		case OpZExt:
			in := a.Args[0]
			if b.K > mask(in.W) {
				return s.False
			}
			return s.Eq(in, s.Const(in.W, b.K))
		case OpSExt:
			in := a.Args[0]
			if uint64(sx(b.K&mask(in.W), in.W))&mask(a.W) != b.K {
				return s.False
			}
			return s.Eq(in, s.Const(in.W, b.K))
		case OpIte:
			x, y := a.Args[1], a.Args[2]
			if x.IsConst() && y.IsConst() {
				ex, ey := x.K == b.K, y.K == b.K
				switch {
				case ex && ey:
					return s.True
				case ex:
					return a.Args[0]
				case ey:
					return s.BNot(a.Args[0])
				default:
					return s.False
				}
			}
			if x.IsConst() || y.IsConst() {
				return s.Ite(a.Args[0], s.Eq(x, b), s.Eq(y, b))
			}
		case OpAdd:
			if a.Args[1].IsConst() {
				return s.Eq(a.Args[0], s.Const(a.W, b.K-a.Args[1].K))
			}
		}
	}
	if a.ID > b.ID && !b.IsConst() {
		a, b = b, a
	}
	return s.mk(OpEq, 0, 0, []*Term{a, b}, "")
}

func (s *Store) Cmp(op Op, a, b *Term) *Term {
	if a.W != b.W {
		panic(fmt.Sprintf("sym: Cmp width mismatch %d vs %d", a.W, b.W))
	}
	w := a.W
	if a.IsConst() && b.IsConst() {
		switch op {
		case OpULt:
			return s.Bool(a.K < b.K)
		case OpULe:
			return s.Bool(a.K <= b.K)
		case OpSLt:
			return s.Bool(sx(a.K, w) < sx(b.K, w))
		case OpSLe:
			return s.Bool(sx(a.K, w) <= sx(b.K, w))
		}
	}
	if a == b {
		return s.Bool(op == OpULe || op == OpSLe)
	}
	switch op {
	case OpULt:
		if b.IsConst() {
			if b.K == 0 {
				return s.False
			}
			if a.umax() < b.K {
				return s.True
			}
		}
		if a.IsConst() && a.K >= b.umax() {
			return s.False
		}
	case OpULe:
		if b.IsConst() && a.umax() <= b.K {
			return s.True
		}
		if a.IsConst() && a.K == 0 {
			return s.True
		}
	case OpSLt, OpSLe:
		// if both are provably non-negative, compare unsigned
		sm := uint64(1) << (w - 1)
		am, bm := a.umax(), b.umax()
		if am < sm && bm < sm {
			if op == OpSLt {
				return s.Cmp(OpULt, a, b)
			}
			return s.Cmp(OpULe, a, b)
		}
		if b.IsConst() && am < sm {
			if sx(b.K, w) < 0 {
				return s.False
			}
		}
		if a.IsConst() && bm < sm {
			if sx(a.K, w) < 0 {
				return s.True
			}
		}
	}
	// push comparison with constant through zext / ite of constants
	if b.IsConst() && a.Op == OpZExt && (op == OpULt || op == OpULe) {
		in := a.Args[0]
		if b.K > mask(in.W) {
			return s.True
		}
		return s.Cmp(op, in, s.Const(in.W, b.K))
	}
	if a.IsConst() && b.Op == OpZExt && (op == OpULt || op == OpULe) {
		in := b.Args[0]
		if a.K > mask(in.W) {
			return s.False
		}
		return s.Cmp(op, s.Const(in.W, a.K), in)
	}
	if b.IsConst() && a.Op == OpIte && a.Args[1].IsConst() && a.Args[2].IsConst() {
		return s.Ite(a.Args[0], s.Cmp(op, a.Args[1], b), s.Cmp(op, a.Args[2], b))
	}
	if a.IsConst() && b.Op == OpIte && b.Args[1].IsConst() && b.Args[2].IsConst() {
		return s.Ite(b.Args[0], s.Cmp(op, a, b.Args[1]), s.Cmp(op, a, b.Args[2]))
	}
	return s.mk(op, 0, 0, []*Term{a, b}, "")
}

func (s *Store) BNot(a *Term) *Term {
	if a.W != 0 {
		panic("sym: BNot of non-bool")
	}
	if a.IsConst() {
		return s.Bool(a.K == 0)
	}
	if a.Op == OpBNot {
		return a.Args[0]
	}
	return s.mk(OpBNot, 0, 0, []*Term{a}, "")
}

func (s *Store) BAnd(a, b *Term) *Term {
	if a.IsFalse() || b.IsFalse() {
		return s.False
	}
	if a.IsTrue() {
		return b
	}
	if b.IsTrue() {
		return a
	}
	if a == b {
		return a
	}
	if (a.Op == OpBNot && a.Args[0] == b) || (b.Op == OpBNot && b.Args[0] == a) {
		return s.False
	}
	return s.mk(OpBAnd, 0, 0, []*Term{a, b}, "")
}

func (s *Store) BOr(a, b *Term) *Term {
	if a.IsTrue() || b.IsTrue() {
		return s.True
	}
	if a.IsFalse() {
		return b
	}
	if b.IsFalse() {
		return a
	}
	if a == b {
		return a
	}
	if (a.Op == OpBNot && a.Args[0] == b) || (b.Op == OpBNot && b.Args[0] == a) {
		return s.True
	}
	return s.mk(OpBOr, 0, 0, []*Term{a, b}, "")
}

func (s *Store) Ite(c, a, b *Term) *Term {
	if a.W != b.W {
		panic("sym: Ite width mismatch")
	}
	if c.IsTrue() {
		return a
	}
	if c.IsFalse() {
		return b
	}
	if a == b {
		return a
	}
	if a.W == 0 {
		if a.IsTrue() && b.IsFalse() {
			return c
		}
		if a.IsFalse() && b.IsTrue() {
			return s.BNot(c)
		}
		if a.IsTrue() {
			return s.BOr(c, b)
		}
		if a.IsFalse() {
			return s.BAnd(s.BNot(c), b)
		}
		if b.IsTrue() {
			return s.BOr(s.BNot(c), a)
		}
		if b.IsFalse() {
			return s.BAnd(c, a)
		}
	}
	if c.Op == OpBNot {
		return s.Ite(c.Args[0], b, a)
	}
	return s.mk(OpIte, a.W, 0, []*Term{c, a, b}, "")
}

// BoolToBV converts a bool term to a bit-vector 0/1 of width w.
func (s *Store) BoolToBV(c *Term, w uint8) *Term {
	return s.Ite(c, s.Const(w, 1), s.Const(w, 0))
}

// ---------------------------------------------------------------------
// Evaluation under a model (variables → values). Missing variables are 0.

func (s *Store) Eval(t *Term, model map[string]uint64, memo map[*Term]uint64) uint64 {
	if t.Op == OpConst {
		return t.K
	}
	if v, ok := memo[t]; ok {
		return v
	}
	var r uint64
	w := t.W
	arg := func(i int) uint64 { return s.Eval(t.Args[i], model, memo) }
	b2u := func(b bool) uint64 {
		if b {
			return 1
		}
		return 0
	}
	switch t.Op {
	case OpVar:
		r = model[t.Name] & maskb(w)
	case OpAdd:
		r = arg(0) + arg(1)
	case OpSub:
		r = arg(0) - arg(1)
	case OpMul:
		r = arg(0) * arg(1)
	case OpUDiv:
		y := arg(1)
		if y == 0 {
			r = mask(w)
		} else {
			r = arg(0) / y
		}
	case OpURem:
		y := arg(1)
		if y == 0 {
			r = arg(0)
		} else {
			r = arg(0) % y
		}
	case OpSDiv:
		x, y := sx(arg(0), w), sx(arg(1), w)
		switch {
		case y == 0:
			if x >= 0 {
				r = mask(w)
			} else {
				r = 1
			}
		case y == -1:
			r = uint64(-x)
		default:
			r = uint64(x / y)
		}
	case OpSRem:
		x, y := sx(arg(0), w), sx(arg(1), w)
		switch {
		case y == 0:
			r = uint64(x)
		case y == -1:
			r = 0
		default:
			r = uint64(x % y)
		}
	case OpAnd:
		r = arg(0) & arg(1)
	case OpOr:
		r = arg(0) | arg(1)
	case OpXor:
		r = arg(0) ^ arg(1)
	case OpNot:
		r = ^arg(0)
	case OpNeg:
		r = -arg(0)
	case OpShl:
		y := arg(1)
		if y >= uint64(w) {
			r = 0
		} else {
			r = arg(0) << y
		}
	case OpLShr:
		y := arg(1)
		if y >= uint64(w) {
			r = 0
		} else {
			r = arg(0) >> y
		}
	case OpAShr:
		y := arg(1)
		if y >= uint64(w) {
			y = uint64(w) - 1
		}
		r = uint64(sx(arg(0), w) >> y)
	case OpZExt:
		r = arg(0)
	case OpSExt:
		r = uint64(sx(arg(0), t.Args[0].W))
	case OpExtract:
		r = arg(0) >> (t.K & 0xff)
	case OpConcat:
		r = arg(0)<<t.Args[1].W | arg(1)
	case OpEq:
		r = b2u(arg(0) == arg(1))
	case OpULt:
		r = b2u(arg(0) < arg(1))
	case OpULe:
		r = b2u(arg(0) <= arg(1))
	case OpSLt:
		r = b2u(sx(arg(0), t.Args[0].W) < sx(arg(1), t.Args[0].W))
	case OpSLe:
		r = b2u(sx(arg(0), t.Args[0].W) <= sx(arg(1), t.Args[0].W))
	case OpBNot:
		r = 1 - arg(0)
	case OpBAnd:
		r = arg(0) & arg(1)
	case OpBOr:
		r = arg(0) | arg(1)
	case OpIte:
		if arg(0) != 0 {
			r = arg(1)
		} else {
			r = arg(2)
		}
	}
	r &= maskb(w)
	memo[t] = r
	return r
}

func maskb(w uint8) uint64 {
	if w == 0 {
		return 1
	}
	return mask(w)
}

// ---------------------------------------------------------------------
// printing

func sortOf(w uint8) string {
	if w == 0 {
		return "Bool"
	}
	return fmt.Sprintf("(_ BitVec %d)", w)
}

func constLit(t *Term) string {
	if t.W == 0 {
		if t.K == 1 {
			return "true"
		}
		return "false"
	}
	if t.W%4 == 0 {
		return fmt.Sprintf("#x%0*x", int(t.W/4), t.K)
	}
	return fmt.Sprintf("#b%0*b", int(t.W), t.K)
}

// Printer emits define-fun chains so that shared sub-terms are printed once.
// Defined keeps the set of term IDs already defined in the solver; the caller
// manages scope (see Solver).
type Printer struct {
	Defined map[int]bool
	Order   []int // definition order, for scoped removal
}

func NewPrinter() *Printer { return &Printer{Defined: map[int]bool{}} }

func tname(t *Term) string {
	if t.Op == OpVar {
		return "v_" + t.Name
	}
	return fmt.Sprintf("t%d", t.ID)
}

// Ref returns the SMT text referring to t, appending any necessary
// declarations/definitions to out.
func (p *Printer) Ref(t *Term, out *strings.Builder) string {
	if t.Op == OpConst {
		return constLit(t)
	}
	if p.Defined[t.ID] {
		return tname(t)
	}
	// iterative post-order to avoid deep recursion
	type fr struct {
		t *Term
		i int
	}
	stack := []fr{{t, 0}}
	for len(stack) > 0 {
		f := &stack[len(stack)-1]
		if f.t.Op == OpConst || p.Defined[f.t.ID] {
			stack = stack[:len(stack)-1]
			continue
		}
		if f.i < len(f.t.Args) {
			a := f.t.Args[f.i]
			f.i++
			if a.Op != OpConst && !p.Defined[a.ID] {
				stack = append(stack, fr{a, 0})
			}
			continue
		}
		p.define(f.t, out)
		stack = stack[:len(stack)-1]
	}
	return tname(t)
}

func (p *Printer) argRef(t *Term) string {
	if t.Op == OpConst {
		return constLit(t)
	}
	return tname(t)
}

func (p *Printer) define(t *Term, out *strings.Builder) {
	p.Defined[t.ID] = true
	p.Order = append(p.Order, t.ID)
	if t.Op == OpVar {
		fmt.Fprintf(out, "(declare-fun %s () %s)\n", tname(t), sortOf(t.W))
		return
	}
	fmt.Fprintf(out, "(define-fun %s () %s ", tname(t), sortOf(t.W))
	switch t.Op {
	case OpZExt:
		fmt.Fprintf(out, "((_ zero_extend %d) %s)", t.K, p.argRef(t.Args[0]))
	case OpSExt:
		fmt.Fprintf(out, "((_ sign_extend %d) %s)", t.K, p.argRef(t.Args[0]))
	case OpExtract:
		fmt.Fprintf(out, "((_ extract %d %d) %s)", t.K>>8, t.K&0xff, p.argRef(t.Args[0]))
	default:
		out.WriteByte('(')
		out.WriteString(opNames[t.Op])
		for _, a := range t.Args {
			out.WriteByte(' ')
			out.WriteString(p.argRef(a))
		}
		out.WriteByte(')')
	}
	out.WriteString(")\n")
}

// String renders a term as a closed expression (for diagnostics only).
func (t *Term) String() string {
	var sb strings.Builder
	t.str(&sb, 0)
	return sb.String()
}

func (t *Term) str(sb *strings.Builder, depth int) {
	if depth > 12 {
		sb.WriteString("…")
		return
	}
	switch t.Op {
	case OpConst:
		sb.WriteString(constLit(t))
	case OpVar:
		sb.WriteString(t.Name)
	case OpZExt, OpSExt:
		fmt.Fprintf(sb, "(ext%d ", t.W)
		t.Args[0].str(sb, depth+1)
		sb.WriteByte(')')
	case OpExtract:
		fmt.Fprintf(sb, "(extract %d %d ", t.K>>8, t.K&0xff)
		t.Args[0].str(sb, depth+1)
		sb.WriteByte(')')
	default:
		sb.WriteByte('(')
		sb.WriteString(opNames[t.Op])
		for _, a := range t.Args {
			sb.WriteByte(' ')
			a.str(sb, depth+1)
		}
		sb.WriteByte(')')
	}
}

// CollectVars appends the variables occurring in t to dst (deduplicated via seen).
func CollectVars(t *Term, seen map[*Term]bool, dst *[]*Term) {
	if seen[t] {
		return
	}
	seen[t] = true
	if t.Op == OpVar {
		*dst = append(*dst, t)
		return
	}
	for _, a := range t.Args {
		CollectVars(a, seen, dst)
	}
}
