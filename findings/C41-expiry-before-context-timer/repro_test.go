package fasthttp

import (
	"errors"
	"net"
	"sync"
	"sync/atomic"
	"testing"
	"time"
)

// A listener whose accept queue is full never completes another handshake, so a
// dial to it hangs until the caller's timeout: every such dial has to end in
// ErrDialTimeout.
func TestC41ExpiredDialIsErrDialTimeout(t *testing.T) {
	ln, err := net.Listen("tcp4", "127.0.0.1:0")
	if err != nil {
		t.Skip(err)
	}
	defer ln.Close()
	addr := ln.Addr().String()
	var held []net.Conn
	for i := 0; i < 6000; i++ { // fill the accept queue
		c, err := net.DialTimeout("tcp4", addr, 50*time.Millisecond)
		if err != nil {
			break
		}
		held = append(held, c)
	}
	defer func() {
		for _, c := range held {
			c.Close()
		}
	}()
	t.Logf("queue filled with %d connections", len(held))
	d := &TCPDialer{DisableDNSResolution: true}
	var other atomic.Int64
	var firstOther atomic.Value
	var wg sync.WaitGroup
	for g := 0; g < 64; g++ {
		wg.Add(1)
		go func() {
			defer wg.Done()
			for i := 0; i < 300; i++ {
				c, err := d.DialTimeout(addr, 2*time.Millisecond)
				if err == nil {
					c.Close()
					continue
				}
				if !errors.Is(err, ErrDialTimeout) {
					other.Add(1)
					firstOther.CompareAndSwap(nil, err.Error())
				}
			}
		}()
	}
	wg.Wait()
	if n := other.Load(); n > 0 {
		t.Fatalf("%d expired dials did not end in ErrDialTimeout, e.g. %v", n, firstOther.Load())
	}
}
