package fasthttp

// C01 (head-level obligation) — a request head whose framing RFC 9112 §6.1-6.3
// deems ambiguous or invalid is either rejected by RequestHeader.Read or
// leaves ConnectionClose() set, so the serve loop (which closes on a read
// error and when ConnectionClose() is true) never reads another request after
// it; an unambiguous head yields the framing RFC 9112 assigns.

var c01Fields = [...]string{
	"",
	"Content-Length: ",        // + symbolic digits
	"Transfer-Encoding: chunked",
	"Transfer-Encoding: identity",
	"Connection: keep-alive",
	"Transfer-Encoding: gzip, chunked",
	"Transfer-Encoding: chunked, gzip",
}

func vhC01HeadFraming() {
	proto := vChoose("proto", 2) // 0: HTTP/1.1, 1: HTTP/1.0
	buf := []byte("POST / HTTP/1.1\r\nHost: a\r\n")
	if proto == 1 {
		buf = []byte("POST / HTTP/1.0\r\nHost: a\r\n")
	}
	nCL, nTE, teChunkedOnly, teOther := 0, 0, 0, 0
	clOK := true
	clVal := 0
	nf := vParam("fields", 3)
	for i := 0; i < nf; i++ {
		f := vChoose("field", len(c01Fields))
		if f == 0 {
			continue
		}
		buf = append(buf, c01Fields[f]...)
		switch f {
		case 1:
			d := vBytes("cl", vLen("cln", 1, vParam("clDigits", 2)))
			buf = append(buf, d...)
			for _, c := range d {
				vAssume(c != '\r' && c != '\n') // keep the hole inside its line
			}
			// optional whitespace around a field value is not part of it
			vAssume(d[0] != ' ' && d[0] != '\t' && d[len(d)-1] != ' ' && d[len(d)-1] != '\t')
			v, ok := 0, true
			for _, c := range d {
				if c < '0' || c > '9' {
					ok = false
				}
				v = v*10 + int(c-'0')
			}
			if nCL > 0 || !ok {
				clOK = false
			}
			clVal = v
			nCL++
		case 2:
			nTE++
			teChunkedOnly++
		case 3, 5, 6:
			nTE++
			teOther++
		}
		buf = append(buf, "\r\n"...)
	}
	buf = append(buf, "\r\n"...)
	o := c09ReadReq(buf)
	ambiguous := !clOK || nCL > 1 || nTE > 1 || teOther > 0 || (nTE > 0 && nCL > 0) || (nTE > 0 && proto == 1)
	if ambiguous {
		vAssert("ambiguous-framing-rejected-or-closes", !o.ok || o.close)
	} else {
		vAssert("unambiguous-head-accepted", o.ok)
		want := -2 // no body indicated
		if nCL == 1 {
			want = clVal
		}
		if teChunkedOnly == 1 {
			want = -1
		}
		vAssert("framing-as-rfc9112", !o.ok || o.cl == want)
	}
}

// ---- chunked bodies through the real serve loop ------------------------

// c01RefChunked is an independent reading of RFC 9112 §7.1 from offset i:
// chunk = 1*HEXDIG *(SP/HTAB) [";" *(byte except CR LF)] CRLF data CRLF; the
// last chunk has size 0 and is followed by a trailer section (field lines
// ending in CRLF or bare LF) and an empty line. Returns the decoded body and
// the offset just past the message.
func c01RefChunked(b []byte, i int) (body []byte, end int, ok bool) {
	for {
		sz, nd := 0, 0
		for i < len(b) && refHexVal(b[i]) >= 0 {
			sz = sz*16 + refHexVal(b[i])
			nd++
			i++
			if nd > 15 {
				return nil, 0, false
			}
		}
		if nd == 0 {
			return nil, 0, false
		}
		for i < len(b) && (b[i] == ' ' || b[i] == '\t') {
			i++
		}
		if i < len(b) && b[i] == ';' {
			for i < len(b) && b[i] != '\r' && b[i] != '\n' {
				i++
			}
		}
		if !(i+1 < len(b) && b[i] == '\r' && b[i+1] == '\n') {
			return nil, 0, false
		}
		i += 2
		if sz == 0 {
			break
		}
		if i+sz+2 > len(b) || b[i+sz] != '\r' || b[i+sz+1] != '\n' {
			return nil, 0, false
		}
		body = append(body, b[i:i+sz]...)
		i += sz + 2
	}
	// trailer section
	for {
		j := i
		for j < len(b) && b[j] != '\n' {
			j++
		}
		if j >= len(b) {
			return nil, 0, false
		}
		line := b[i:j]
		if len(line) > 0 && line[len(line)-1] == '\r' {
			line = line[:len(line)-1]
		}
		i = j + 1
		if len(line) == 0 {
			return body, i, true
		}
		colon := -1
		for k, c := range line {
			if c == ':' {
				colon = k
				break
			}
		}
		if colon <= 0 || line[0] == ' ' || line[0] == '\t' {
			return nil, 0, false
		}
		for _, c := range line[:colon] {
			if !c05IsTChar(c) {
				return nil, 0, false
			}
		}
		for _, c := range line {
			if c == '\r' || c == 0 {
				return nil, 0, false
			}
		}
	}
}

// vhC01ChunkedBody: a chunked POST with a hole of arbitrary bytes in the
// chunk-size line, after the chunk data, or after the last-chunk size,
// followed by a second request, through the real serve loop. Whatever the
// server dispatches must be what the reference framing yields; a body the
// reference calls malformed is never followed by another request.
func vhC01ChunkedBody() {
	head := "POST /first HTTP/1.1\r\nHost: a\r\nTransfer-Encoding: chunked\r\n\r\n"
	if vBool("expect100") {
		// the client announces the body with Expect and sends it without waiting
		head = "POST /first HTTP/1.1\r\nHost: a\r\nExpect: 100-continue\r\nTransfer-Encoding: chunked\r\n\r\n"
	}
	const second = "GET /second HTTP/1.1\r\nHost: a\r\nConnection: close\r\n\r\n"
	h1, h2, h3 := []byte("3\r\n"), []byte("\r\n"), []byte("\r\n")
	hl := vParam("holeLen", 3)
	switch vChoose("hole", 3) {
	case 0:
		h1 = c05Sym("sizeLine", hl)
	case 1:
		h2 = vBytes("afterData", 2)
	case 2:
		h3 = append(c05Sym("afterLastSize", hl), "\r\n"...)
	}
	msg := head + string(h1) + "abc" + string(h2) + "0" + string(h3) + "\r\n"
	if vBool("sixteenDigitSize") {
		// a first chunk whose data is a lone CR, then a chunk-size line of 16 hex
		// digits (one more than the parser's word holds safely; the first one
		// arbitrary), then bytes that would spell the end of the body and the
		// next request if that size were taken for something small
		d := vBytes("firstDigit", 1)
		vAssume(refHexVal(d[0]) >= 0)
		rest := "FFFFFFFFFFFFFFF"
		if vBool("restZero") {
			rest = "000000000000000"
		}
		msg = head + "1\r\n\r\r\n" + string(d) + rest + "\r\n" + "\n0\r\n\r\n"
	}
	stream := []byte(msg + second)
	c := &vsSegConn{}
	if vBool("oneSegment") {
		c.segs = [][]byte{stream}
	} else {
		c.segs = [][]byte{[]byte(msg), []byte(second)}
	}
	s := &Server{NoDefaultDate: true, NoDefaultServerHeader: true, MaxRequestBodySize: 32}
	s.ReduceMemoryUsage = vBool("reduceMemory")
	var uris, bodies []string
	s.Handler = func(ctx *RequestCtx) {
		uris = append(uris, string(ctx.Path()))
		bodies = append(bodies, string(ctx.PostBody()))
		ctx.SetBodyString("ok")
	}
	s.ServeConn(c)
	refBody, refEnd, refOK := c01RefChunked(stream, len(head))
	vNote(msg)
	if len(uris) > 0 {
		vAssert("dispatched-request-is-the-first-message", uris[0] == "/first")
		vAssert("accepted-body-is-well-formed-per-rfc9112", refOK)
		if refOK {
			vAssert("body-as-framed-by-rfc9112", bodies[0] == string(refBody))
		}
	}
	if len(uris) > 1 {
		// the boundary is where the reference puts it, up to empty lines in
		// front of the next request line (RFC 9112 §2.2)
		atBoundary := refOK && refEnd <= len(msg)
		for k := refEnd; atBoundary && k < len(msg); k++ {
			if stream[k] != '\r' && stream[k] != '\n' {
				atBoundary = false
			}
		}
		vAssert("next-request-starts-at-the-message-boundary", atBoundary && uris[1] == "/second" && len(uris) == 2)
	}
	if !refOK {
		vAssert("malformed-chunked-body-ends-the-connection", len(uris) == 0)
	}
	if refOK && refEnd == len(msg) && len(uris) > 0 {
		// nothing of the stream may get lost between the two messages
		vAssert("the-request-after-a-well-formed-body-is-served", len(uris) == 2)
	}
	vAssert("connection-closed-at-end", c.closed == 1)
}
