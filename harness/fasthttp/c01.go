package fasthttp

// C01 (head-level obligation) — a request head whose framing RFC 9112 §6.1-6.3
// deems ambiguous or invalid is either rejected by RequestHeader.Read or
// leaves ConnectionClose() set, so the serve loop (which closes on a read
// error and when ConnectionClose() is true) never reads another request after
// it; an unambiguous head yields the framing RFC 9112 assigns.

var c01Fields = [...]string{
	"",
	"Content-Length: ",        // + symbolic digits
	"Transfer-Encoding: chunked",
	"Transfer-Encoding: identity",
	"Connection: keep-alive",
	"Transfer-Encoding: gzip, chunked",
	"Transfer-Encoding: chunked, gzip",
}

func vhC01HeadFraming() {
	proto := vChoose("proto", 2) // 0: HTTP/1.1, 1: HTTP/1.0
	buf := []byte("POST / HTTP/1.1\r\nHost: a\r\n")
	if proto == 1 {
		buf = []byte("POST / HTTP/1.0\r\nHost: a\r\n")
	}
	nCL, nTE, teChunkedOnly, teOther := 0, 0, 0, 0
	clOK := true
	clVal := 0
	nf := vParam("fields", 3)
	for i := 0; i < nf; i++ {
		f := vChoose("field", len(c01Fields))
		if f == 0 {
			continue
		}
		buf = append(buf, c01Fields[f]...)
		switch f {
		case 1:
			d := vBytes("cl", vLen("cln", 1, vParam("clDigits", 2)))
			buf = append(buf, d...)
			for _, c := range d {
				vAssume(c != '\r' && c != '\n') // keep the hole inside its line
			}
			// optional whitespace around a field value is not part of it
			vAssume(d[0] != ' ' && d[0] != '\t' && d[len(d)-1] != ' ' && d[len(d)-1] != '\t')
			v, ok := 0, true
			for _, c := range d {
				if c < '0' || c > '9' {
					ok = false
				}
				v = v*10 + int(c-'0')
			}
			if nCL > 0 || !ok {
				clOK = false
			}
			clVal = v
			nCL++
		case 2:
			nTE++
			teChunkedOnly++
		case 3, 5, 6:
			nTE++
			teOther++
		}
		buf = append(buf, "\r\n"...)
	}
	buf = append(buf, "\r\n"...)
	o := c09ReadReq(buf)
	ambiguous := !clOK || nCL > 1 || nTE > 1 || teOther > 0 || (nTE > 0 && nCL > 0) || (nTE > 0 && proto == 1)
	if ambiguous {
		vAssert("ambiguous-framing-rejected-or-closes", !o.ok || o.close)
	} else {
		vAssert("unambiguous-head-accepted", o.ok)
		want := -2 // no body indicated
		if nCL == 1 {
			want = clVal
		}
		if teChunkedOnly == 1 {
			want = -1
		}
		vAssert("framing-as-rfc9112", !o.ok || o.cl == want)
	}
}
