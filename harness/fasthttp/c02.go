package fasthttp

// C02 — unread request bodies never turn into requests.

const c02Evil = "GET /evil HTTP/1.1\r\nHost: a\r\n\r\n"

// c02Final drops interim (1xx) responses.
func c02Final(rs []vsResp) []vsResp {
	var out []vsResp
	for _, r := range rs {
		if r.status >= 200 {
			out = append(out, r)
		}
	}
	return out
}

// vhC02UnreadBody: a POST whose body spells a complete request, followed by a
// second request; the handler reads none / part / all of the body, with and
// without StreamRequestBody, fixed-length or chunked, optionally behind
// "Expect: 100-continue" that a ContinueHandler or an ExpectHandler accepts
// or rejects; head, body and the next request arrive in one, two or three
// segments; ReduceMemoryUsage on/off. Observed: the handler invocations and
// the responses on the wire (a response that answers neither /first nor
// /second means body bytes were parsed as a request).
func vhC02UnreadBody() {
	chunked := vBool("chunked")
	// 0: none, 1: accepted (no callback), 2: ContinueHandler rejects,
	// 3: ContinueHandler accepts, 4: ExpectHandler rejects, 5: ExpectHandler accepts
	expect := vChoose("expect", 6)
	rejected := expect == 2 || expect == 4
	head := "POST /first HTTP/1.1\r\nHost: a\r\n"
	if expect > 0 {
		head += "Expect: 100-continue\r\n"
	}
	var body string
	big := vParam("big", 0) == 1 && !chunked && vBool("big")
	if big {
		// body longer than the 8 KiB prefetch: padding, then the request-shaped bytes
		pad := make([]byte, 9000)
		for i := range pad {
			pad[i] = 'x'
		}
		head += "Content-Length: 9031\r\n\r\n"
		body = string(pad) + c02Evil
	} else if chunked {
		head += "Transfer-Encoding: chunked\r\n\r\n"
		body = "1f\r\n" + c02Evil + "\r\n0\r\n\r\n"
	} else {
		head += "Content-Length: 31\r\n\r\n"
		body = c02Evil
	}
	second := "GET /second HTTP/1.1\r\nHost: a\r\nConnection: close\r\n\r\n"
	c := &vsSegConn{}
	switch vChoose("segments", 3) {
	case 0:
		c.segs = [][]byte{[]byte(head + body + second)}
	case 1:
		c.segs = [][]byte{[]byte(head + body), []byte(second)}
	case 2:
		c.segs = [][]byte{[]byte(head), []byte(body), []byte(second)}
	}
	s := &Server{NoDefaultDate: true, NoDefaultServerHeader: true}
	s.StreamRequestBody = vBool("stream")
	s.ReduceMemoryUsage = vBool("reduceMemory")
	switch expect {
	case 2, 3:
		s.ContinueHandler = func(h *RequestHeader) bool { return expect == 3 }
	case 4, 5:
		s.ExpectHandler = func(ctx *RequestCtx) int {
			if expect == 5 {
				return StatusContinue
			}
			return StatusExpectationFailed
		}
	}
	readMode := vChoose("read", 3) // 0: none, 1: 5 bytes, 2: all
	var uris []string
	s.Handler = func(ctx *RequestCtx) {
		uris = append(uris, string(ctx.Path()))
		ctx.Response.Header.Set("X-Tag", string(ctx.Path()))
		if string(ctx.Path()) == "/first" && s.StreamRequestBody {
			if bs := ctx.RequestBodyStream(); bs != nil {
				switch readMode {
				case 1:
					var buf [5]byte
					bs.Read(buf[:])
				case 2:
					var buf [64]byte
					for {
						if _, err := bs.Read(buf[:]); err != nil {
							break
						}
					}
				}
			}
		}
		ctx.SetBodyString("ok")
	}
	s.ServeConn(c)
	ok := true
	for i, u := range uris {
		want := "/second"
		if i == 0 && !rejected {
			want = "/first"
		}
		if u != want || i > 1 {
			ok = false
		}
	}
	vAssert("body-bytes-never-dispatched", ok)
	vAssert("connection-closed-at-end", c.closed == 1)
	// the wire: one response per real request, nothing else
	rs, parsed := vsParseResponses(c.wrote)
	fin := c02Final(rs)
	vNote(string(c.wrote))
	wire := parsed && len(fin) >= 1 && len(fin) <= 2
	if wire {
		if rejected {
			wire = fin[0].status == StatusExpectationFailed && fin[0].tag == ""
		} else {
			wire = fin[0].status == 200 && fin[0].tag == "/first"
		}
		if len(fin) == 2 && !(fin[1].status == 200 && fin[1].tag == "/second" && fin[1].close && !fin[0].close) {
			wire = false
		}
	}
	vAssert("only-real-requests-are-answered", wire)
}

// vhC02StreamAcrossConns: with StreamRequestBody, connection A uploads a
// chunked body that breaks off inside a chunk (the handler reads what there
// is); connection B, served afterwards by the same Server (pooled stream and
// context objects), sends a well-formed chunked body whose payload spells a
// request. B's handler must read exactly the payload and only /b and /after
// are dispatched.
func vhC02StreamAcrossConns() {
	s := &Server{NoDefaultDate: true, NoDefaultServerHeader: true, StreamRequestBody: true}
	s.ReduceMemoryUsage = vBool("reduceMemory")
	var uris []string
	var bodies []string
	s.Handler = func(ctx *RequestCtx) {
		uris = append(uris, string(ctx.Path()))
		var got []byte
		if bs := ctx.RequestBodyStream(); bs != nil {
			var buf [16]byte
			for {
				n, err := bs.Read(buf[:])
				got = append(got, buf[:n]...)
				if err != nil {
					break
				}
			}
		}
		bodies = append(bodies, string(got))
		ctx.SetBodyString("ok")
	}
	// connection A: the announced chunk is longer than what arrives
	announced := [...]string{"40", "1f", "a"}[vChoose("announced", 3)]
	sent := vLen("sent", 0, 4)
	a := &vsSegConn{segs: [][]byte{[]byte("POST /a HTTP/1.1\r\nHost: a\r\nTransfer-Encoding: chunked\r\n\r\n" + announced + "\r\n" + "wxyz"[:sent])}}
	s.ServeConn(a)
	nA := len(uris)
	// connection B
	payload := c02Evil
	b := &vsSegConn{}
	first := "POST /b HTTP/1.1\r\nHost: a\r\nTransfer-Encoding: chunked\r\n\r\n1f\r\n" + payload + "\r\n0\r\n\r\n"
	after := "GET /after HTTP/1.1\r\nHost: a\r\nConnection: close\r\n\r\n"
	if vBool("oneSegment") {
		b.segs = [][]byte{[]byte(first + after)}
	} else {
		b.segs = [][]byte{[]byte(first), []byte(after)}
	}
	s.ServeConn(b)
	got := uris[nA:]
	vAssert("second-connection-dispatches-its-own-requests", len(got) == 2 && got[0] == "/b" && got[1] == "/after")
	vAssert("second-connection-body-is-its-own", len(got) < 1 || bodies[nA] == payload)
}

// vhC02StreamedTail: StreamRequestBody, a body larger than the prefetch whose
// tail arrives in the same read as a large pipelined request; behind the part
// of that request the reader buffers, its body spells another request. With
// or without Expect: 100-continue and ReduceMemoryUsage, the handler reading
// the whole stream: /one and /two are dispatched (or the connection closes),
// nothing else.
func vhC02StreamedTail() {
	s := &Server{NoDefaultDate: true, NoDefaultServerHeader: true, StreamRequestBody: true}
	s.ReduceMemoryUsage = vBool("reduceMemory")
	expect := vBool("expect100")
	head := "POST /one HTTP/1.1\r\nHost: a\r\n"
	if expect {
		head += "Expect: 100-continue\r\n"
	}
	const bodyLen = 8192 + 100
	head += "Content-Length: " + c07Digits(bodyLen) + "\r\n\r\n"
	body := make([]byte, bodyLen)
	for i := range body {
		body[i] = 'x'
	}
	// request two: its body carries a request at the offset where a 4096-byte
	// reader that was filled with the tail of body one plus the start of
	// request two would resume
	twoHead := "POST /two HTTP/1.1\r\nHost: a\r\nContent-Length: 6000\r\n\r\n"
	two := make([]byte, 0, 6100)
	two = append(two, twoHead...)
	for len(two) < 4096-100 {
		two = append(two, 'y')
	}
	two = append(two, c02Evil...)
	for len(two) < len(twoHead)+6000 {
		two = append(two, 'y')
	}
	third := "GET /three HTTP/1.1\r\nHost: a\r\nConnection: close\r\n\r\n"
	c := &vsSegConn{}
	c.segs = [][]byte{[]byte(head), body[:8192], append(append(append([]byte(nil), body[8192:]...), two...), third...)}
	var uris []string
	s.Handler = func(ctx *RequestCtx) {
		uris = append(uris, string(ctx.Path()))
		if bs := ctx.RequestBodyStream(); bs != nil {
			var buf [512]byte
			for {
				if _, err := bs.Read(buf[:]); err != nil {
					break
				}
			}
		}
		ctx.SetBodyString("ok")
	}
	s.ServeConn(c)
	ok := true
	want := [...]string{"/one", "/two", "/three"}
	for i, u := range uris {
		if i >= len(want) || u != want[i] {
			ok = false
		}
	}
	vAssert("only-the-real-requests-are-dispatched", ok && len(uris) >= 1)
}

// vhC02StreamedBadTrailer: a streamed chunked body whose trailer section is
// malformed (its bytes spell a request); the handler reads the stream to its
// error. Nothing after such a body is dispatched.
func vhC02StreamedBadTrailer() {
	s := &Server{NoDefaultDate: true, NoDefaultServerHeader: true, StreamRequestBody: true}
	s.ReduceMemoryUsage = vBool("reduceMemory")
	c := &vsSegConn{}
	first := "POST /one HTTP/1.1\r\nHost: a\r\nTransfer-Encoding: chunked\r\n\r\n5\r\nhello\r\n0\r\n" + c02Evil
	if vBool("oneSegment") {
		c.segs = [][]byte{[]byte(first)}
	} else {
		c.segs = [][]byte{[]byte(first[:len(first)-len(c02Evil)]), []byte(c02Evil)}
	}
	var uris []string
	s.Handler = func(ctx *RequestCtx) {
		uris = append(uris, string(ctx.Path()))
		if bs := ctx.RequestBodyStream(); bs != nil {
			var buf [64]byte
			for {
				if _, err := bs.Read(buf[:]); err != nil {
					break
				}
			}
		}
		ctx.SetBodyString("ok")
	}
	s.ServeConn(c)
	vAssert("trailer-bytes-are-never-dispatched", len(uris) <= 1 && (len(uris) == 0 || uris[0] == "/one"))
	rs, parsed := vsParseResponses(c.wrote)
	fin := c02Final(rs)
	vAssert("at-most-one-response-and-it-says-close", parsed && len(fin) <= 1 && (len(fin) == 0 || fin[0].close))
}
