package fasthttp

// C02 — unread request bodies never turn into requests.

const c02Evil = "GET /evil HTTP/1.1\r\nHost: a\r\n\r\n"

// vhC02UnreadBody: a POST whose body spells a complete request, followed by a
// second request; the handler reads none / part / all of the body, with and
// without StreamRequestBody, fixed-length or chunked, optionally behind
// "Expect: 100-continue" that the ContinueHandler accepts or rejects.
func vhC02UnreadBody() {
	chunked := vBool("chunked")
	expect := vChoose("expect", 3) // 0: none, 1: accepted, 2: rejected
	head := "POST /first HTTP/1.1\r\nHost: a\r\n"
	if expect > 0 {
		head += "Expect: 100-continue\r\n"
	}
	var first string
	big := vParam("big", 0) == 1 && !chunked && vBool("big")
	if big {
		// body longer than the 8 KiB prefetch: padding, then the request-shaped bytes
		pad := make([]byte, 9000)
		for i := range pad {
			pad[i] = 'x'
		}
		first = head + "Content-Length: 9031\r\n\r\n" + string(pad) + c02Evil
	} else if chunked {
		first = head + "Transfer-Encoding: chunked\r\n\r\n1f\r\n" + c02Evil + "\r\n0\r\n\r\n"
	} else {
		first = head + "Content-Length: 31\r\n\r\n" + c02Evil
	}
	second := "GET /second HTTP/1.1\r\nHost: a\r\nConnection: close\r\n\r\n"
	c := &vsSegConn{}
	if vBool("oneSegment") {
		c.segs = [][]byte{[]byte(first + second)}
	} else {
		c.segs = [][]byte{[]byte(first), []byte(second)}
	}
	s := &Server{NoDefaultDate: true, NoDefaultServerHeader: true}
	s.StreamRequestBody = vBool("stream")
	if expect == 2 {
		s.ContinueHandler = func(h *RequestHeader) bool { return false }
	}
	readMode := vChoose("read", 3) // 0: none, 1: 5 bytes, 2: all
	if vKnown("C02-streamed-body-left-unread") {
		// listed finding: with StreamRequestBody a fixed-length body longer
		// than the prefetch that the handler does not read to the end is left
		// on the connection and parsed as the next request.
		vAssume(!(big && s.StreamRequestBody && readMode != 2))
	}
	var uris []string
	s.Handler = func(ctx *RequestCtx) {
		uris = append(uris, string(ctx.Path()))
		if string(ctx.Path()) == "/first" && s.StreamRequestBody {
			if bs := ctx.RequestBodyStream(); bs != nil {
				switch readMode {
				case 1:
					var buf [5]byte
					bs.Read(buf[:])
				case 2:
					var buf [64]byte
					for {
						if _, err := bs.Read(buf[:]); err != nil {
							break
						}
					}
				}
			}
		}
		ctx.SetBodyString("ok")
	}
	s.ServeConn(c)
	ok := true
	for i, u := range uris {
		want := "/second"
		if i == 0 && expect != 2 {
			want = "/first"
		}
		if u != want || i > 1 {
			ok = false
		}
	}
	vAssert("body-bytes-never-dispatched", ok)
	vAssert("connection-closed-at-end", c.closed == 1)
}
