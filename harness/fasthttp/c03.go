package fasthttp

import (
	"bufio"
	"io"
)

// C03 — server responses are framed exactly as the handler built them.

type c03Resp struct {
	status int
	body   []byte
	close  bool
}

func c03Line(w []byte, i int) (line []byte, next int, ok bool) {
	j := i
	for j+1 < len(w) && !(w[j] == '\r' && w[j+1] == '\n') {
		j++
	}
	if j+1 >= len(w) {
		return nil, i, false
	}
	return w[i:j], j + 2, true
}

// c03Parse is an independent HTTP/1.1 response splitter (RFC 9112 §6):
// no body for HEAD / 1xx / 204 / 304, else chunked, else Content-Length.
func c03Parse(w []byte, head []bool) (rs []c03Resp, ok bool) {
	i := 0
	for i < len(w) {
		var r c03Resp
		line, n, lok := c03Line(w, i)
		if !lok || len(line) < 12 || string(line[:9]) != "HTTP/1.1 " {
			return rs, false
		}
		r.status = int(line[9]-'0')*100 + int(line[10]-'0')*10 + int(line[11]-'0')
		i = n
		cl, chunked := -1, false
		for {
			line, n, lok = c03Line(w, i)
			if !lok {
				return rs, false
			}
			i = n
			if len(line) == 0 {
				break
			}
			if c05FoldEq(line, "Connection: close") {
				r.close = true
			}
			if c05FoldEq(line, "Transfer-Encoding: chunked") {
				chunked = true
			}
			const clp = "Content-Length: "
			if len(line) > len(clp) && c05FoldEq(line[:len(clp)], clp) {
				cl = 0
				for _, d := range line[len(clp):] {
					cl = cl*10 + int(d-'0')
				}
			}
		}
		if chunked && cl >= 0 {
			return rs, false // RFC 9112 §6.3: a sender must not send both
		}
		isHead := len(rs) < len(head) && head[len(rs)]
		switch {
		case isHead || r.status == 204 || r.status == 304 || r.status < 200:
		case chunked:
			for {
				line, n, lok = c03Line(w, i)
				if !lok || len(line) == 0 {
					return rs, false
				}
				i = n
				sz := 0
				for _, d := range line {
					h := refHexVal(d)
					if h < 0 {
						return rs, false
					}
					sz = sz*16 + h
				}
				if sz == 0 {
					line, n, lok = c03Line(w, i) // no trailers in these programs
					if !lok || len(line) != 0 {
						return rs, false
					}
					i = n
					break
				}
				if i+sz+2 > len(w) || w[i+sz] != '\r' || w[i+sz+1] != '\n' {
					return rs, false
				}
				r.body = append(r.body, w[i:i+sz]...)
				i += sz + 2
			}
		case cl >= 0:
			if i+cl > len(w) {
				return rs, false
			}
			r.body = append([]byte(nil), w[i:i+cl]...)
			i += cl
		default:
			if !r.close {
				return rs, false
			}
			r.body = append([]byte(nil), w[i:]...)
			i = len(w)
		}
		rs = append(rs, r)
	}
	return rs, true
}

var c03Statuses = [...]int{200, 204, 304, 404, 999}

// c03Reader yields data in a scripted way: mode 0 as much as fits, mode 1 one
// byte per call, mode 2 the last bytes together with io.EOF.
type c03Reader struct {
	data []byte
	pos  int
	mode int
}

func (r *c03Reader) Read(p []byte) (int, error) {
	if r.pos >= len(r.data) {
		return 0, io.EOF
	}
	n := len(r.data) - r.pos
	if r.mode == 1 {
		n = 1
	}
	if n > len(p) {
		n = len(p)
	}
	copy(p, r.data[r.pos:r.pos+n])
	r.pos += n
	if r.mode == 2 && r.pos >= len(r.data) {
		return n, io.EOF
	}
	return n, nil
}

const c03NumHow = 8

// c03Apply performs one body-building call and returns the body it stands for.
func c03Apply(ctx *RequestCtx, how int, body []byte, readerMode int) []byte {
	switch how {
	case 0:
		ctx.SetBody(body)
	case 1:
		ctx.SetBodyString("x")
		ctx.Response.AppendBody(body)
		return append([]byte("x"), body...)
	case 2: // stream, exact size
		ctx.SetBodyStream(&c03Reader{data: body, mode: readerMode}, len(body))
	case 3: // stream, unknown size
		ctx.SetBodyStream(&c03Reader{data: body, mode: readerMode}, -1)
	case 4: // raw body
		ctx.Response.SetBodyRaw(body)
	case 5: // stream writer
		ctx.SetBodyStreamWriter(func(w *bufio.Writer) {
			w.Write(body)
		})
	case 6: // stream, "unknown size" spelled as another negative number
		ctx.SetBodyStream(&c03Reader{data: body, mode: readerMode}, -2)
	case 7: // an io.LimitedReader of unknown declared size: its N is the size
		ctx.SetBodyStream(io.LimitReader(&c03Reader{data: append(append([]byte(nil), body...), "tail"...), mode: readerMode}, int64(len(body))), -1)
	}
	return body
}

// c03Warm: the connection has served a request before (the response object
// and its buffers are being reused when the handler under test runs).
var c03Warm bool

func c03Serve(isHead bool, http10 bool, handler func(ctx *RequestCtx)) (c *vsSegConn, calls *int) {
	if c03Warm {
		return c03ServeWarm(isHead, http10, handler)
	}
	req := "GET /a HTTP/1.1\r\nHost: a\r\n\r\n"
	if isHead {
		req = "HEAD /a HTTP/1.1\r\nHost: a\r\n\r\n"
	}
	if http10 {
		req = "GET /a HTTP/1.0\r\nHost: a\r\nConnection: keep-alive\r\n\r\n"
	}
	c = &vsSegConn{segs: [][]byte{[]byte(req), []byte("GET /b HTTP/1.1\r\nHost: a\r\nConnection: close\r\n\r\n")}}
	s := &Server{NoDefaultDate: true, NoDefaultServerHeader: true}
	n := 0
	calls = &n
	s.Handler = func(ctx *RequestCtx) {
		n++
		if n > 1 {
			ctx.SetBodyString("second")
			return
		}
		handler(ctx)
	}
	s.ServeConn(c)
	return c, calls
}

func c03ServeWarm(isHead bool, http10 bool, handler func(ctx *RequestCtx)) (c *vsSegConn, calls *int) {
	req := "GET /a HTTP/1.1\r\nHost: a\r\n\r\n"
	if isHead {
		req = "HEAD /a HTTP/1.1\r\nHost: a\r\n\r\n"
	}
	if http10 {
		req = "GET /a HTTP/1.0\r\nHost: a\r\nConnection: keep-alive\r\n\r\n"
	}
	c = &vsSegConn{segs: [][]byte{[]byte("GET /warm HTTP/1.1\r\nHost: a\r\n\r\n"), []byte(req), []byte("GET /b HTTP/1.1\r\nHost: a\r\nConnection: close\r\n\r\n")}}
	s := &Server{NoDefaultDate: true, NoDefaultServerHeader: true}
	n := 0
	calls = &n
	skip := 0
	s.Handler = func(ctx *RequestCtx) {
		if string(ctx.Path()) == "/warm" {
			ctx.Response.SetBodyRaw([]byte("warm-raw"))
			ctx.SetBodyString("warm-up response body")
			return
		}
		n++
		if n > 1 {
			ctx.SetBodyString("second")
			return
		}
		skip = len(c.wrote) // the warm-up response has been sent
		handler(ctx)
	}
	s.ServeConn(c)
	c.wrote = c.wrote[skip:]
	return c, calls
}

// c03AfterHead: the number of bytes on the wire after the first header block
// (-1 if no complete header block was written).
func c03AfterHead(w []byte) int {
	i := 0
	for i+3 < len(w) && string(w[i:i+4]) != "\r\n\r\n" {
		i++
	}
	if i+3 >= len(w) {
		return -1
	}
	return len(w) - (i + 4)
}

var c03CloseAny bool

// c03Check: the wire splits into exactly the responses built. declared >= 0
// with a body stream of a different length selects the size-mismatch clause:
// never more than the declared size on the wire, closed right after.
func c03Check(c *vsSegConn, calls int, isHead bool, status int, want []byte, wantClose bool, declared int) {
	noBody := isHead || status == 204 || status == 304
	vNote(string(c.wrote))
	if declared >= 0 && declared != len(want) && !noBody {
		after := c03AfterHead(c.wrote)
		vAssert("never-more-than-declared-on-the-wire", after <= declared)
		if after >= 0 && declared < len(want) {
			vAssert("declared-prefix-sent", after == declared && string(c.wrote[len(c.wrote)-after:]) == string(want[:declared]))
		}
		vAssert("closed-right-after", calls == 1 && c.closed == 1)
		return
	}
	rs, ok := c03Parse(c.wrote, []bool{isHead, false})
	vAssert("wire-splits-into-responses", ok && len(rs) >= 1)
	if !ok || len(rs) == 0 {
		return
	}
	vAssert("status-as-set", rs[0].status == status)
	if noBody {
		vAssert("no-body-for-head-204-304", len(rs[0].body) == 0)
	} else {
		vAssert("body-as-built", string(rs[0].body) == string(want))
	}
	// a stream size below -1 ("identity until close") may or may not make the
	// response say close, depending on status and later header calls; either
	// is consistent framing as long as the connection then does what it says
	vAssert("close-header-as-set", c03CloseAny || rs[0].close == wantClose)
	if !rs[0].close {
		vAssert("next-response-starts-where-this-ends", len(rs) == 2 && rs[1].status == 200 && string(rs[1].body) == "second" && calls == 2)
	} else {
		vAssert("closed-after-close", len(rs) == 1 && calls == 1)
	}
}

// vhC03ResponseFraming: a handler program (status × body-building call with
// symbolic body bytes, streams read in three chunkings) answers a GET or
// HEAD; a second fixed request follows.
func vhC03ResponseFraming() {
	body := c05Sym("body", vParam("bodyLen", 3))
	status := c03Statuses[vChoose("status", len(c03Statuses))]
	isHead := vBool("head")
	how := vChoose("how", c03NumHow)
	readerMode := 0
	if how == 2 || how == 3 || how == 6 || how == 7 {
		readerMode = vChoose("readerMode", 3)
	}
	closeFirst := vBool("closeFirst")
	var want []byte
	c, calls := c03Serve(isHead, false, func(ctx *RequestCtx) {
		ctx.SetStatusCode(status)
		if closeFirst {
			ctx.SetConnectionClose()
		}
		want = c03Apply(ctx, how, body, readerMode)
	})
	c03CloseAny = how == 6
	c03Check(c, *calls, isHead, status, want, closeFirst, -1)
}

// vhC03TwoCalls: two body-building calls in a row (the second replaces the
// first, whatever kind either is).
func vhC03TwoCalls() {
	body1 := c05Sym("body1", vParam("bodyLen", 3))
	body2 := c05Sym("body2", 2)
	how1 := vChoose("how1", c03NumHow)
	how2 := vChoose("how2", c03NumHow)
	vAssume(how2 != 1) // AppendBody extends: covered as a first call only
	isHead := vBool("head")
	status := 200
	if vBool("notModified") {
		status = 304
	}
	var want []byte
	c03Warm = vBool("connectionServedARequestBefore")
	c, calls := c03Serve(isHead, false, func(ctx *RequestCtx) {
		ctx.SetStatusCode(status)
		c03Apply(ctx, how1, body1, 0)
		want = c03Apply(ctx, how2, body2, 0)
	})
	c03Warm = false
	c03CloseAny = how1 == 6 || how2 == 6
	c03Check(c, *calls, isHead, status, want, false, -1)
}

// vhC03HandSet: framing-related headers set by hand next to a body.
func vhC03HandSet() {
	body := c05Sym("body", vParam("bodyLen", 3))
	how := vChoose("how", c03NumHow)
	hand := vChoose("handSet", 6)
	before := vBool("headerBeforeBody")
	isHead := vBool("head")
	var want []byte
	wantClose := false
	declared := -1
	c, calls := c03Serve(isHead, false, func(ctx *RequestCtx) {
		set := func() {
			switch hand {
			case 0:
				ctx.Response.Header.Set("Content-Length", "2")
			case 1:
				ctx.Response.Header.Set("Transfer-Encoding", "chunked")
			case 2:
				ctx.Response.Header.Set("Connection", "close")
				wantClose = true
			case 3:
				ctx.Response.Header.Set("Connection", "keep-alive")
			case 4:
				ctx.Response.Header.Add("Content-Length", "1")
				ctx.Response.Header.Add("Transfer-Encoding", "identity")
			case 5:
				ctx.Response.Header.Del("Transfer-Encoding")
			}
		}
		if before {
			set()
		}
		want = c03Apply(ctx, how, body, 0)
		if !before {
			set()
		}
		if ctx.Response.IsBodyStream() {
			declared = ctx.Response.Header.ContentLength()
		}
	})
	c03CloseAny = how == 6
	c03Check(c, *calls, isHead, 200, want, wantClose, declared)
}

// vhC03StreamMismatch: a body stream that yields fewer or more bytes than the
// size declared for it: never more than the declared size on the wire, and
// the connection is closed right after.
func vhC03StreamMismatch() {
	body := c05Sym("body", vParam("bodyLen", 3))
	delta := 1
	if vBool("declaredSmaller") {
		delta = -1
	}
	declared := len(body) + delta
	vAssume(declared >= 0)
	readerMode := vChoose("readerMode", 3)
	c, calls := c03Serve(false, false, func(ctx *RequestCtx) {
		ctx.SetBodyStream(&c03Reader{data: body, mode: readerMode}, declared)
	})
	c03CloseAny = false
	c03Check(c, *calls, false, 200, body, false, declared)
}

// vhC03Timeout: the handler gives up with TimeoutError*: the timeout response
// is framed for the request that timed out.
func vhC03Timeout() {
	kind := vChoose("request", 3) // GET, HEAD, HTTP/1.0 keep-alive
	withCode := vBool("withCode")
	body := c05Sym("body", 2)
	for _, b := range body {
		vAssume(b >= ' ' && b < 0x7f)
	}
	var want []byte
	status := StatusRequestTimeout
	c, calls := c03Serve(kind == 1, kind == 2, func(ctx *RequestCtx) {
		ctx.SetBodyString("abandoned")
		ctx.SetStatusCode(202)
		if withCode {
			status = 503
			ctx.TimeoutErrorWithCode(string(body), 503)
		} else {
			ctx.TimeoutError(string(body))
		}
		want = body
	})
	c03CloseAny = false
	c03Check(c, *calls, kind == 1, status, want, false, -1)
}
