package fasthttp

import (
	"bufio"
	"bytes"
	"io"
)

// C03 — server responses are framed exactly as the handler built them.

type c03Resp struct {
	status int
	body   []byte
	close  bool
}

func c03Line(w []byte, i int) (line []byte, next int, ok bool) {
	j := i
	for j+1 < len(w) && !(w[j] == '\r' && w[j+1] == '\n') {
		j++
	}
	if j+1 >= len(w) {
		return nil, i, false
	}
	return w[i:j], j + 2, true
}

// c03Parse is an independent HTTP/1.1 response splitter (RFC 9112 §6):
// no body for HEAD / 1xx / 204 / 304, else chunked, else Content-Length.
func c03Parse(w []byte, head []bool) (rs []c03Resp, ok bool) {
	i := 0
	for i < len(w) {
		var r c03Resp
		line, n, lok := c03Line(w, i)
		if !lok || len(line) < 12 || string(line[:9]) != "HTTP/1.1 " {
			return rs, false
		}
		r.status = int(line[9]-'0')*100 + int(line[10]-'0')*10 + int(line[11]-'0')
		i = n
		cl, chunked := -1, false
		for {
			line, n, lok = c03Line(w, i)
			if !lok {
				return rs, false
			}
			i = n
			if len(line) == 0 {
				break
			}
			if c05FoldEq(line, "Connection: close") {
				r.close = true
			}
			if c05FoldEq(line, "Transfer-Encoding: chunked") {
				chunked = true
			}
			const clp = "Content-Length: "
			if len(line) > len(clp) && c05FoldEq(line[:len(clp)], clp) {
				cl = 0
				for _, d := range line[len(clp):] {
					cl = cl*10 + int(d-'0')
				}
			}
		}
		isHead := len(rs) < len(head) && head[len(rs)]
		switch {
		case isHead || r.status == 204 || r.status == 304 || r.status < 200:
		case chunked:
			for {
				line, n, lok = c03Line(w, i)
				if !lok || len(line) == 0 {
					return rs, false
				}
				i = n
				sz := 0
				for _, d := range line {
					h := refHexVal(d)
					if h < 0 {
						return rs, false
					}
					sz = sz*16 + h
				}
				if sz == 0 {
					line, n, lok = c03Line(w, i) // no trailers in these programs
					if !lok || len(line) != 0 {
						return rs, false
					}
					i = n
					break
				}
				if i+sz+2 > len(w) || w[i+sz] != '\r' || w[i+sz+1] != '\n' {
					return rs, false
				}
				r.body = append(r.body, w[i:i+sz]...)
				i += sz + 2
			}
		case cl >= 0:
			if i+cl > len(w) {
				return rs, false
			}
			r.body = append([]byte(nil), w[i:i+cl]...)
			i += cl
		default:
			if !r.close {
				return rs, false
			}
			r.body = append([]byte(nil), w[i:]...)
			i = len(w)
		}
		rs = append(rs, r)
	}
	return rs, true
}

var c03Statuses = [...]int{200, 204, 304, 404, 999}

// vhC03ResponseFraming: a handler program (status × body-building call with
// symbolic body bytes) answers a GET or HEAD; a second fixed request follows.
// The wire bytes must split into exactly the responses built.
func vhC03ResponseFraming() {
	body := c05Sym("body", vParam("bodyLen", 3))
	status := c03Statuses[vChoose("status", len(c03Statuses))]
	isHead := vBool("head")
	how := vChoose("how", 6)
	closeFirst := vBool("closeFirst")
	req := "GET /a HTTP/1.1\r\nHost: a\r\n\r\n"
	if isHead {
		req = "HEAD /a HTTP/1.1\r\nHost: a\r\n\r\n"
	}
	c := &vsSegConn{segs: [][]byte{[]byte(req), []byte("GET /b HTTP/1.1\r\nHost: a\r\nConnection: close\r\n\r\n")}}
	s := &Server{NoDefaultDate: true, NoDefaultServerHeader: true}
	calls := 0
	s.Handler = func(ctx *RequestCtx) {
		calls++
		if calls > 1 {
			ctx.SetBodyString("second")
			return
		}
		ctx.SetStatusCode(status)
		if closeFirst {
			ctx.SetConnectionClose()
		}
		switch how {
		case 0:
			ctx.SetBody(body)
		case 1:
			ctx.SetBodyString("x")
			ctx.Response.AppendBody(body)
		case 2: // stream, exact size
			ctx.SetBodyStream(bytes.NewReader(body), len(body))
		case 3: // stream, unknown size
			ctx.SetBodyStream(bytes.NewReader(body), -1)
		case 4: // raw body
			ctx.Response.SetBodyRaw(body)
		case 5: // stream writer
			ctx.SetBodyStreamWriter(func(w *bufio.Writer) {
				w.Write(body)
			})
		}
	}
	s.ServeConn(c)
	want := body
	if how == 1 {
		want = append([]byte("x"), body...)
	}
	noBody := isHead || status == 204 || status == 304
	vNote(string(c.wrote))
	rs, ok := c03Parse(c.wrote, []bool{isHead, false})
	vAssert("wire-splits-into-responses", ok && len(rs) >= 1)
	if !ok || len(rs) == 0 {
		return
	}
	vAssert("status-as-set", rs[0].status == status)
	if noBody {
		vAssert("no-body-for-head-204-304", len(rs[0].body) == 0)
	} else {
		vAssert("body-as-built", string(rs[0].body) == string(want))
	}
	vAssert("close-header-as-set", rs[0].close == closeFirst)
	if !rs[0].close {
		vAssert("next-response-starts-where-this-ends", len(rs) == 2 && rs[1].status == 200 && string(rs[1].body) == "second" && calls == 2)
	} else {
		vAssert("closed-after-close", len(rs) == 1 && calls == 1)
	}
	_ = io.EOF
}
