package fasthttp

import "io"

// C04 — a client call returns its own response, never another request's bytes
// (sequential HostClient calls), and C10's client half — a connection whose
// exchange said close is never used again.
//
// The scripted server answers the j-th request written on connection k with
// the j-th response of that connection's script. Each response carries two
// symbolic tag bytes, so "the body the caller got" can only equal "the body
// the server produced for this request" if the bytes really are those bytes.

const (
	c04Plain     = iota // Content-Length, keep-alive
	c04Close            // Content-Length, Connection: close
	c04Chunked          // chunked, keep-alive
	c04ChunkedEvil      // chunked; the single chunk continues with bytes that spell a complete response
	c04CloseLower       // Content-Length, "connection: close" (field names are case-insensitive)
	c04NumKinds
)

const c04EvilTail = "HTTP/1.1 200 OK\r\nContent-Length: 2\r\n\r\nzz"

type c04Resp struct {
	kind int
	tag  []byte // 2 symbolic bytes
	body string // the full body the server produced
}

func c04Build(kind int, tag []byte) (wire string, body string) {
	t := string(tag)
	switch kind {
	case c04Plain:
		return "HTTP/1.1 200 OK\r\nContent-Length: 2\r\n\r\n" + t, t
	case c04Close:
		return "HTTP/1.1 200 OK\r\nConnection: close\r\nContent-Length: 2\r\n\r\n" + t, t
	case c04CloseLower:
		return "HTTP/1.1 200 OK\r\nconnection: close\r\ncontent-length: 2\r\n\r\n" + t, t
	case c04Chunked:
		return "HTTP/1.1 200 OK\r\nTransfer-Encoding: chunked\r\n\r\n2\r\n" + t + "\r\n0\r\n\r\n", t
	case c04ChunkedEvil:
		body = t + c04EvilTail
		const hexd = "0123456789abcdef"
		n := len(body)
		size := string([]byte{hexd[n>>4], hexd[n&15]})
		return "HTTP/1.1 200 OK\r\nTransfer-Encoding: chunked\r\n\r\n" + size + "\r\n" + body + "\r\n0\r\n\r\n", body
	}
	return "", ""
}

func reqsWritten(c *vcConn) int {
	n := 0
	for i := 0; i+4 <= len(c.wrote); i++ {
		if string(c.wrote[i:i+4]) == "GET " {
			n++
		}
	}
	return n
}

func vhC04Sequential() {
	calls := vParam("calls", 2)
	stream := vBool("streamResponseBody")
	split := vBool("splitDelivery") // head+2 body bytes, then the rest, in separate reads
	hc := &HostClient{Addr: "a.co:80", StreamResponseBody: stream}
	hc.DisableHeaderNamesNormalizing = vBool("disableHeaderNamesNormalizing")
	scripts := map[int][]c04Resp{}
	nw := &vcNet{}
	nw.onDial = func(k int, addr string) *vcConn {
		c := &vcConn{}
		// the script grows by one response each time the client reads past
		// what was scripted so far (i.e. after it has written another request)
		c.more = func(c *vcConn) {
			if len(scripts[k]) >= calls || len(scripts[k]) >= reqsWritten(c) {
				return
			}
			kind := vChoose("respKind", c04NumKinds)
			tag := vBytes("tag", 2)
			for _, b := range tag {
				vAssume(b >= 'a' && b <= 'y') // never the 'z' of the planted response
			}
			wire, body := c04Build(kind, tag)
			scripts[k] = append(scripts[k], c04Resp{kind, tag, body})
			if split {
				cut := len(wire) - len(body) + 2
				if kind == c04Chunked || kind == c04ChunkedEvil {
					cut = len("HTTP/1.1 200 OK\r\nTransfer-Encoding: chunked\r\n\r\n") + 4 + 2
				}
				if cut > len(wire) {
					cut = len(wire)
				}
				c.segs = append(c.segs, []byte(wire[:cut]))
				if cut < len(wire) {
					c.segs = append(c.segs, []byte(wire[cut:]))
				}
			} else {
				c.segs = append(c.segs, []byte(wire))
			}
		}
		return c
	}
	hc.Dial = nw.Dial

	reqsOn := map[int]int{} // requests written so far per connection
	countReqs := func() (conn int, idx int) {
		// the connection whose request count grew is the one this call used
		conn = -1
		for _, c := range nw.conns {
			n := reqsWritten(c)
			if n > reqsOn[c.id] {
				conn, idx = c.id, n-1
				reqsOn[c.id] = n
			}
		}
		return
	}
	saidClose := map[int]bool{}
	ownOK, reuseOK := true, true
	for i := 0; i < calls; i++ {
		var req Request
		var resp Response
		req.SetRequestURI("http://a.co/r")
		reqClose := vBool("requestConnectionClose")
		if reqClose {
			req.SetConnectionClose()
		}
		err := hc.Do(&req, &resp)
		conn, idx := countReqs()
		if conn >= 0 && saidClose[conn] {
			reuseOK = false // a request was written to a connection after a closing exchange
		}
		var got []byte
		complete := true
		if err == nil {
			if stream && resp.BodyStream() != nil {
				switch vChoose("callerReads", 3) {
				case 0:
					complete = false
				case 1:
					var b [2]byte
					n, _ := io.ReadFull(resp.BodyStream(), b[:])
					got = b[:n]
					complete = false
				case 2:
					got, _ = io.ReadAll(resp.BodyStream())
				}
				// the caller lets go of the stream explicitly, or just resets /
				// releases the response object
				if vBool("closeByReset") {
					resp.Reset()
				} else {
					resp.CloseBodyStream()
				}
			} else {
				got = resp.Body()
			}
		}
		if err == nil && conn >= 0 && idx < len(scripts[conn]) {
			want := scripts[conn][idx].body
			if complete && string(got) != want {
				ownOK = false
			}
			if !complete && (len(got) > len(want) || string(got) != want[:len(got)]) {
				ownOK = false
			}
			if reqClose || scripts[conn][idx].kind == c04Close || scripts[conn][idx].kind == c04CloseLower {
				saidClose[conn] = true
			}
		}
		if err == nil && (conn < 0 || idx >= len(scripts[conn])) {
			// a successful call that transmitted nothing, or one the server
			// never produced a response for
			ownOK = false
		}
	}
	vAssert("each-successful-call-returns-its-own-response", ownOK)
	vAssert("no-request-on-a-connection-after-a-closing-exchange", reuseOK)
	closedOK := true
	for _, c := range nw.conns {
		if saidClose[c.id] && c.closed == 0 {
			closedOK = false
		}
		if c.ioAfterClose > 0 {
			closedOK = false
		}
	}
	vAssert("closing-exchange-closes-the-connection", closedOK)
	vAssert("pool-accounting", hc.ConnsCount() >= len(hc.conns) && hc.PendingRequests() == 0)
}
