package fasthttp

import (
	"io"
	"net"
	"time"
)

// C04 — responses that are open at the same time, and calls after a timeout.

// c04PathOf: the path of the n-th GET request written on c.
func c04PathOf(w []byte, n int) string {
	k := 0
	for i := 0; i+4 <= len(w); i++ {
		if string(w[i:i+4]) == "GET " {
			if k == n {
				j := i + 4
				for j < len(w) && w[j] != ' ' {
					j++
				}
				return string(w[i+4 : j])
			}
			k++
		}
	}
	return ""
}

// vhC04OverlappingStreams: StreamResponseBody; two or three calls are made
// before any of the response bodies is read, the bodies arrive in separate
// reads after the head (so they really are streamed from the connection), and
// are then read in a chosen order: every stream yields the body of its own
// request and nothing else.
func vhC04OverlappingStreams() {
	K := 2 + vChoose("thirdCall", 2)
	chunked := vBool("chunked")
	x := vBytes("x", 1)
	vAssume(x[0] >= 'a' && x[0] <= 'z')
	hc := &HostClient{Addr: "a.co:80", StreamResponseBody: true}
	nw := &vcNet{}
	nw.onDial = func(k int, addr string) *vcConn {
		c := &vcConn{}
		answered := 0
		c.more = func(c *vcConn) {
			if answered >= reqsWritten(c) {
				return
			}
			body := "body-of-" + c04PathOf(c.wrote, answered) + string(x)
			answered++
			if chunked {
				const hexd = "0123456789abcdef"
				n := len(body)
				c.segs = append(c.segs, []byte("HTTP/1.1 200 OK\r\nTransfer-Encoding: chunked\r\n\r\n"+string([]byte{hexd[n>>4], hexd[n&15]})+"\r\n"+body[:3]))
				c.segs = append(c.segs, []byte(body[3:]+"\r\n0\r\n\r\n"))
			} else {
				c.segs = append(c.segs, []byte("HTTP/1.1 200 OK\r\nContent-Length: "+c07Digits(len(body))+"\r\n\r\n"+body[:3]))
				c.segs = append(c.segs, []byte(body[3:]))
			}
		}
		return c
	}
	hc.Dial = nw.Dial
	resps := make([]*Response, K)
	okCalls := true
	for i := 0; i < K; i++ {
		var req Request
		req.SetRequestURI("http://a.co/r" + c07Digits(i))
		resps[i] = &Response{}
		if err := hc.Do(&req, resps[i]); err != nil {
			okCalls = false
		}
	}
	vAssert("calls-succeed", okCalls)
	if !okCalls {
		return
	}
	order := [...][3]int{{0, 1, 2}, {2, 1, 0}, {1, 0, 2}}[vChoose("readOrder", 3)]
	own := true
	for _, i := range order {
		if i >= K {
			continue
		}
		want := "body-of-/r" + c07Digits(i) + string(x)
		var got []byte
		if bs := resps[i].BodyStream(); bs != nil {
			got, _ = io.ReadAll(bs)
			resps[i].CloseBodyStream() //nolint:errcheck
		} else {
			got = resps[i].Body()
		}
		if string(got) != want {
			own = false
		}
	}
	vAssert("every-open-stream-yields-its-own-body", own)
}

// vhC04PipelineAfterTimeout: calls through a PipelineClient whose server
// answers 150 ms late time out after 100 ms; the calls made afterwards on the
// same connection (with a long timeout) each get the response to their own
// request, not a late one that belongs to a call that has given up.
func vhC04PipelineAfterTimeout() {
	dials := 0
	pc := &PipelineClient{Addr: "a.co:80", MaxConns: 1, MaxPendingRequests: 4, MaxBatchDelay: time.Millisecond}
	pc.Dial = func(addr string) (net.Conn, error) {
		c := newVpConn(dials)
		c.delay = 150 * time.Millisecond
		dials++
		return c, nil
	}
	n1 := 1 + vChoose("callsThatTimeOut", 2)
	n2 := 1 + vChoose("callsAfterwards", 2)
	gap := [...]time.Duration{0, 60 * time.Millisecond, 200 * time.Millisecond}[vChoose("gap", 3)]
	firstOK := true
	for i := 0; i < n1; i++ {
		var req Request
		var resp Response
		req.SetRequestURI("http://a.co/t" + c07Digits(i))
		err := pc.DoTimeout(&req, &resp, 100*time.Millisecond)
		if err != ErrTimeout && !(err == nil && string(resp.Body()) == "/t"+c07Digits(i)) {
			firstOK = false
		}
	}
	vAssert("late-answers-time-out", firstOK)
	time.Sleep(gap)
	own := true
	for i := 0; i < n2; i++ {
		var req Request
		var resp Response
		req.SetRequestURI("http://a.co/a" + c07Digits(i))
		err := pc.DoTimeout(&req, &resp, 2*time.Second)
		if err != nil || string(resp.Body()) != "/a"+c07Digits(i) {
			own = false
		}
	}
	vAssert("calls-after-a-timeout-get-their-own-response", own)
}
