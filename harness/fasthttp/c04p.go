package fasthttp

import (
	"io"
	"net"
	"time"
)

// C04 (PipelineClient) — pipelined calls get their own responses.
//
// The real PipelineClient (worker / writer / reader goroutines, work queues,
// timers) on the engine's scheduler with virtual time, against a reactive
// in-memory server: every complete request written to a connection is answered
// with a response whose body is that request's path — unless the connection is
// scripted to die first.

type vpConn struct {
	id        int
	in        chan []byte
	buf       []byte
	wrote     []byte
	parsed    int // bytes of wrote already turned into requests
	requests  int
	dieAfter  int // server closes the connection after this many requests (0: never)
	answer    int // number of requests answered before dying (only with dieAfter > 0)
	srvClosed bool
	stall     bool          // the server reads but never answers
	delay     time.Duration // the server answers this much later
	failWriteAfter int       // Write fails once this many requests have been accepted (0: never)
	stallAfter     int       // answers this many requests, then stalls (0: never)
	failWriteCall  int       // the n-th Write call (and every later one) fails (0: never)
	writeCalls     int
	closed    int
	closeCh   chan struct{}
}

func newVpConn(id int) *vpConn {
	return &vpConn{id: id, in: make(chan []byte, 16), closeCh: make(chan struct{})}
}

func (c *vpConn) Read(b []byte) (int, error) {
	if len(c.buf) == 0 {
		select {
		case d, ok := <-c.in:
			if !ok {
				return 0, io.EOF
			}
			c.buf = d
		case <-c.closeCh:
			return 0, errVlClosed
		}
	}
	n := copy(b, c.buf)
	c.buf = c.buf[n:]
	return n, nil
}

func (c *vpConn) Write(b []byte) (int, error) {
	if c.closed > 0 || c.srvClosed {
		return 0, errVlClosed
	}
	c.writeCalls++
	if c.failWriteAfter > 0 && c.requests >= c.failWriteAfter {
		return 0, errVcWrite
	}
	if c.failWriteCall > 0 && c.writeCalls >= c.failWriteCall {
		return 0, errVcWrite
	}
	c.wrote = append(c.wrote, b...)
	// the server side: answer every complete request
	for {
		end := -1
		for i := c.parsed; i+3 < len(c.wrote); i++ {
			if string(c.wrote[i:i+4]) == "\r\n\r\n" {
				end = i + 4
				break
			}
		}
		if end < 0 {
			break
		}
		req := c.wrote[c.parsed:end]
		c.parsed = end
		c.requests++
		// path = second token of the request line
		j := 4
		for j < len(req) && req[j] != ' ' {
			j++
		}
		path := string(req[4:j])
		if !c.stall && !(c.stallAfter > 0 && c.requests > c.stallAfter) && (c.dieAfter == 0 || c.requests <= c.answer) {
			resp := []byte("HTTP/1.1 200 OK\r\nContent-Length: " + c07Digits(len(path)) + "\r\n\r\n" + path)
			if c.delay > 0 {
				d := c.delay
				go func() {
					time.Sleep(d)
					if !c.srvClosed && c.closed == 0 {
						c.in <- resp
					}
				}()
			} else {
				c.in <- resp
			}
		}
		if c.dieAfter > 0 && c.requests >= c.dieAfter && !c.srvClosed {
			c.srvClosed = true
			close(c.in)
		}
	}
	return len(b), nil
}

func (c *vpConn) Close() error {
	c.closed++
	if c.closed == 1 {
		close(c.closeCh)
	}
	return nil
}
func (c *vpConn) LocalAddr() net.Addr                { return &net.TCPAddr{IP: net.IPv4(10, 0, 0, 2), Port: 4321} }
func (c *vpConn) RemoteAddr() net.Addr               { return &net.TCPAddr{IP: net.IPv4(10, 0, 0, 1), Port: 80} }
func (c *vpConn) SetDeadline(t time.Time) error      { return nil }
func (c *vpConn) SetReadDeadline(t time.Time) error  { return nil }
func (c *vpConn) SetWriteDeadline(t time.Time) error { return nil }

func vhC04Pipeline() {
	K := vParam("calls", 3)
	dials := 0
	die := vChoose("firstConnDiesAfter", 3)     // 0: never
	ans := 0
	if die > 0 {
		ans = vChoose("answeredBeforeDying", die)
	}
	pc := &PipelineClient{Addr: "a.co:80", MaxConns: 1, MaxPendingRequests: 8, MaxBatchDelay: time.Millisecond}
	pc.Dial = func(addr string) (net.Conn, error) {
		c := newVpConn(dials)
		if dials == 0 {
			c.dieAfter, c.answer = die, ans
		}
		dials++
		return c, nil
	}
	type out struct {
		err  error
		body string
	}
	res := make([]out, K)
	done := make(chan int, K)
	for i := 0; i < K; i++ {
		i := i
		go func() {
			var req Request
			var resp Response
			req.SetRequestURI("http://a.co/r" + c07Digits(i))
			err := pc.DoTimeout(&req, &resp, time.Second)
			res[i] = out{err, string(resp.Body())}
			done <- i
		}()
		if vBool("spaced") {
			time.Sleep(5 * time.Millisecond)
		}
	}
	for i := 0; i < K; i++ {
		<-done
	}
	own := true
	for i, r := range res {
		if r.err == nil && r.body != "/r"+c07Digits(i) {
			own = false
		}
	}
	// more calls afterwards (after a connection died with requests in flight,
	// the next connection's responses belong to the new calls only)
	for i := 0; i < vChoose("callsAfterwards", 3); i++ {
		var req Request
		var resp Response
		req.SetRequestURI("http://a.co/n" + c07Digits(i))
		if err := pc.DoTimeout(&req, &resp, time.Second); err == nil && string(resp.Body()) != "/n"+c07Digits(i) {
			own = false
		}
	}
	vAssert("each-successful-pipelined-call-returns-its-own-response", own)
	if die == 0 {
		all := true
		for _, r := range res {
			if r.err != nil {
				all = false
			}
		}
		vAssert("healthy-server-answers-every-call", all)
	}
}


// C38 — PipelineClient deadline calls return on time with bounded queues.
//
// The same reactive server, now also stalling (reads, never answers) or
// answering late; calls with and without a deadline through a PipelineClient
// with a small MaxPendingRequests, on the engine's virtual clock: a deadline
// call returns by its deadline with its own response, ErrTimeout or a
// connection error, and a call refused with ErrPipelineOverflow never had its
// request on the wire.
func vhC38Deadlines() {
	K := vParam("calls", 3)
	const T = 100 * time.Millisecond
	// answers; stalls; answers after 150 ms; closes after the first request;
	// takes the first write (one batch of requests) without answering and
	// fails the next write
	// …; answers its first two requests and then stalls
	mode := vChoose("server", 6)
	spaced := vBool("callsSpacedBy10ms")
	var conns []*vpConn
	pc := &PipelineClient{Addr: "a.co:80", MaxConns: 1, MaxPendingRequests: 1 + vChoose("maxPending", 2), MaxBatchDelay: time.Millisecond}
	pc.Dial = func(addr string) (net.Conn, error) {
		c := newVpConn(len(conns))
		switch mode {
		case 1:
			c.stall = true
		case 2:
			c.delay = 150 * time.Millisecond
		case 3:
			if len(conns) == 0 {
				c.dieAfter = 1
			}
		case 4:
			if len(conns) == 0 {
				c.stall = true
				c.failWriteCall = 2
			}
		case 5:
			c.stallAfter = 2 // answers two requests, then reads on without answering
		}
		conns = append(conns, c)
		return c, nil
	}
	type out struct {
		err      error
		body     string
		elapsed  time.Duration
		deadline bool
	}
	res := make([]out, K)
	done := make(chan int, K)
	for i := 0; i < K; i++ {
		i := i
		// calls without a deadline only against servers that answer (late) or close
		withDeadline := mode == 1 || mode == 4 || mode == 5 || vBool("withDeadline")
		t0 := time.Now()
		go func() {
			var req Request
			var resp Response
			req.SetRequestURI("http://a.co/q" + c07Digits(i))
			var err error
			if withDeadline {
				err = pc.DoTimeout(&req, &resp, T)
			} else {
				err = pc.Do(&req, &resp)
			}
			res[i] = out{err, string(resp.Body()), time.Since(t0), withDeadline}
			done <- i
		}()
		if spaced {
			time.Sleep(10 * time.Millisecond)
		}
	}
	for i := 0; i < K; i++ {
		<-done
	}
	onTime, own, quiet := true, true, true
	for i, r := range res {
		if r.deadline && r.elapsed > T+5*time.Millisecond {
			onTime = false
		}
		if r.err == nil && r.body != "/q"+c07Digits(i) {
			own = false
		}
		if r.err == ErrPipelineOverflow {
			for _, c := range conns {
				if vcContains(c.wrote, "/q"+c07Digits(i)+" ") {
					quiet = false
				}
			}
		}
	}
	// afterwards: one or two more deadline calls, one after the other (they
	// reuse pooled work items of calls that have failed, timed out or succeeded)
	followOnTime, followOwn, followAnswered := true, true, true
	nf := vChoose("followUpCalls", 3)
	for i := 0; i < nf; i++ {
		var req Request
		var resp Response
		req.SetRequestURI("http://a.co/f" + c07Digits(i))
		t0 := time.Now()
		err := pc.DoTimeout(&req, &resp, T)
		if time.Since(t0) > T+5*time.Millisecond {
			followOnTime = false
		}
		if err == nil && string(resp.Body()) != "/f"+c07Digits(i) {
			followOwn = false
		}
		// a server that answers at once now (it always did, or only its first
		// connection was faulty) must be heard: no stale result of an earlier call
		if mode == 0 && err != nil {
			followAnswered = false
		}
		// a connection error (anything but nil / ErrTimeout) cannot come from a
		// connection that is still open and has answered this very request
		if err != nil && err != ErrTimeout {
			for _, c := range conns {
				healthy := c.closed == 0 && !c.srvClosed && !c.stall && c.failWriteCall == 0 && c.stallAfter == 0 && c.delay == 0
				if healthy && vcContains(c.wrote, "/f"+c07Digits(i)+" ") {
					followAnswered = false
					vNote("follow-up error on a healthy connection: " + err.Error())
				}
			}
		}
	}
	vAssert("later-deadline-calls-return-by-their-deadline", followOnTime)
	vAssert("later-calls-carry-their-own-response", followOwn)
	vAssert("later-calls-answered-on-a-healthy-connection-succeed", followAnswered)
	vAssert("deadline-calls-return-by-their-deadline", onTime)
	vAssert("successful-calls-carry-their-own-response", own)
	vAssert("overflowed-calls-were-never-transmitted", quiet)
	// requests that timed out stay queued until the connection makes progress;
	// the queues themselves are bounded by MaxPendingRequests
	vAssert("pending-requests-are-bounded", pc.PendingRequests() <= 2*pc.MaxPendingRequests+K)
}
