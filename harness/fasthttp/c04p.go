package fasthttp

import (
	"io"
	"net"
	"time"
)

// C04 (PipelineClient) — pipelined calls get their own responses.
//
// The real PipelineClient (worker / writer / reader goroutines, work queues,
// timers) on the engine's scheduler with virtual time, against a reactive
// in-memory server: every complete request written to a connection is answered
// with a response whose body is that request's path — unless the connection is
// scripted to die first.

type vpConn struct {
	id        int
	in        chan []byte
	buf       []byte
	wrote     []byte
	parsed    int // bytes of wrote already turned into requests
	requests  int
	dieAfter  int // server closes the connection after this many requests (0: never)
	answer    int // number of requests answered before dying (only with dieAfter > 0)
	srvClosed bool
	closed    int
	closeCh   chan struct{}
}

func newVpConn(id int) *vpConn {
	return &vpConn{id: id, in: make(chan []byte, 16), closeCh: make(chan struct{})}
}

func (c *vpConn) Read(b []byte) (int, error) {
	if len(c.buf) == 0 {
		select {
		case d, ok := <-c.in:
			if !ok {
				return 0, io.EOF
			}
			c.buf = d
		case <-c.closeCh:
			return 0, errVlClosed
		}
	}
	n := copy(b, c.buf)
	c.buf = c.buf[n:]
	return n, nil
}

func (c *vpConn) Write(b []byte) (int, error) {
	if c.closed > 0 || c.srvClosed {
		return 0, errVlClosed
	}
	c.wrote = append(c.wrote, b...)
	// the server side: answer every complete request
	for {
		end := -1
		for i := c.parsed; i+3 < len(c.wrote); i++ {
			if string(c.wrote[i:i+4]) == "\r\n\r\n" {
				end = i + 4
				break
			}
		}
		if end < 0 {
			break
		}
		req := c.wrote[c.parsed:end]
		c.parsed = end
		c.requests++
		// path = second token of the request line
		j := 4
		for j < len(req) && req[j] != ' ' {
			j++
		}
		path := string(req[4:j])
		if c.dieAfter == 0 || c.requests <= c.answer {
			c.in <- []byte("HTTP/1.1 200 OK\r\nContent-Length: " + c07Digits(len(path)) + "\r\n\r\n" + path)
		}
		if c.dieAfter > 0 && c.requests >= c.dieAfter && !c.srvClosed {
			c.srvClosed = true
			close(c.in)
		}
	}
	return len(b), nil
}

func (c *vpConn) Close() error {
	c.closed++
	if c.closed == 1 {
		close(c.closeCh)
	}
	return nil
}
func (c *vpConn) LocalAddr() net.Addr                { return &net.TCPAddr{IP: net.IPv4(10, 0, 0, 2), Port: 4321} }
func (c *vpConn) RemoteAddr() net.Addr               { return &net.TCPAddr{IP: net.IPv4(10, 0, 0, 1), Port: 80} }
func (c *vpConn) SetDeadline(t time.Time) error      { return nil }
func (c *vpConn) SetReadDeadline(t time.Time) error  { return nil }
func (c *vpConn) SetWriteDeadline(t time.Time) error { return nil }

func vhC04Pipeline() {
	K := vParam("calls", 3)
	dials := 0
	die := vChoose("firstConnDiesAfter", 3)     // 0: never
	ans := 0
	if die > 0 {
		ans = vChoose("answeredBeforeDying", die)
	}
	pc := &PipelineClient{Addr: "a.co:80", MaxConns: 1, MaxPendingRequests: 8, MaxBatchDelay: time.Millisecond}
	pc.Dial = func(addr string) (net.Conn, error) {
		c := newVpConn(dials)
		if dials == 0 {
			c.dieAfter, c.answer = die, ans
		}
		dials++
		return c, nil
	}
	type out struct {
		err  error
		body string
	}
	res := make([]out, K)
	done := make(chan int, K)
	for i := 0; i < K; i++ {
		i := i
		go func() {
			var req Request
			var resp Response
			req.SetRequestURI("http://a.co/r" + c07Digits(i))
			err := pc.DoTimeout(&req, &resp, time.Second)
			res[i] = out{err, string(resp.Body())}
			done <- i
		}()
		if vBool("spaced") {
			time.Sleep(5 * time.Millisecond)
		}
	}
	for i := 0; i < K; i++ {
		<-done
	}
	own := true
	for i, r := range res {
		if r.err == nil && r.body != "/r"+c07Digits(i) {
			own = false
		}
	}
	vAssert("each-successful-pipelined-call-returns-its-own-response", own)
	if die == 0 {
		all := true
		for _, r := range res {
			if r.err != nil {
				all = false
			}
		}
		vAssert("healthy-server-answers-every-call", all)
	}
}
