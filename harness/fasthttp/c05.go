package fasthttp

// C05 — setter inputs cannot inject header lines or extra messages.
//
// The serialised head is scanned by an independent line splitter: CR and LF
// may appear only as CRLF pairs, the only empty line is the last one, every
// header line has a name that is one of the names set (or implied by the
// setter), and the number of lines is what the setter calls account for.

func c05FoldEq(a []byte, b string) bool {
	if len(a) != len(b) {
		return false
	}
	for i := range a {
		x, y := a[i], b[i]
		if x >= 'A' && x <= 'Z' {
			x += 32
		}
		if y >= 'A' && y <= 'Z' {
			y += 32
		}
		if x != y {
			return false
		}
	}
	return true
}

type c05Result struct {
	lines      int
	pairedCRLF bool
	earlyBlank bool
	endsBlank  bool
	namesOK    bool
}

func c05Scan(out []byte, allowed []string) c05Result {
	r := c05Result{pairedCRLF: true, namesOK: true}
	i := 0
	for i < len(out) {
		j := i
		for j < len(out) && out[j] != '\r' && out[j] != '\n' {
			j++
		}
		if j >= len(out) || out[j] == '\n' || j+1 >= len(out) || out[j+1] != '\n' {
			r.pairedCRLF = false
			return r
		}
		line := out[i:j]
		r.lines++
		if len(line) == 0 {
			if j+2 == len(out) {
				r.endsBlank = true
			} else {
				r.earlyBlank = true
			}
		} else if r.lines > 1 {
			k := 0
			for k < len(line) && line[k] != ':' {
				k++
			}
			ok := false
			if k < len(line) {
				for _, a := range allowed {
					if c05FoldEq(line[:k], a) {
						ok = true
					}
				}
			}
			if !ok {
				r.namesOK = false
			}
		}
		i = j + 2
	}
	return r
}

func c05Sym(name string, maxLen int) []byte {
	n := vLen(name+"n", 0, maxLen)
	return vBytes(name, n)
}

func c05IsTChar(c byte) bool {
	if (c >= 'a' && c <= 'z') || (c >= 'A' && c <= 'Z') || (c >= '0' && c <= '9') {
		return true
	}
	switch c {
	case '!', '#', '$', '%', '&', '\'', '*', '+', '-', '.', '^', '_', '`', '|', '~':
		return true
	}
	return false
}

// c05Name returns a symbolic header name. Known finding C05-name-not-validated:
// the normalising setters neutralise CR/LF in names but accept empty names and
// names with ':' , spaces and other non-token bytes; when it is listed the
// harness keeps to RFC 9110 token names.
func c05Name() []byte {
	nm := c05Sym("name", vParam("nameLen", 2))
	if vKnown("C05-name-not-validated") {
		vAssume(len(nm) > 0)
		for i, c := range nm {
			// CR and LF stay in play (they must be neutralised whatever else
			// the name contains); the listed finding is about the other
			// non-token bytes and about names that begin with whitespace
			vAssume(c05IsTChar(c) || (i > 0 && (c == '\r' || c == '\n')))
		}
	}
	return nm
}

// c05Neutral is the name a peer may see for nm: CR and LF replaced by a space.
func c05Neutral(nm []byte) string {
	out := make([]byte, len(nm))
	for i, c := range nm {
		if c == '\r' || c == '\n' {
			c = ' '
		}
		out[i] = c
	}
	return string(out)
}

var c05Special = [...]string{"Content-Type", "Content-Length", "Connection", "Server", "Set-Cookie", "Transfer-Encoding", "Trailer", "Date", "Host", "User-Agent", "Cookie", "Content-Encoding"}

var c05Implied = []string{"Content-Type", "Content-Length", "Connection", "Server", "Set-Cookie", "Transfer-Encoding", "Trailer", "Date", "Host", "User-Agent", "Cookie", "Content-Encoding"}

func c05Asserts(r c05Result, maxLines int) {
	vAssert("cr-lf-only-as-crlf", r.pairedCRLF)
	vAssert("no-early-blank-line", !r.pairedCRLF || !r.earlyBlank)
	vAssert("ends-with-blank-line", !r.pairedCRLF || r.endsBlank)
	vAssert("names-among-those-set", !r.pairedCRLF || r.namesOK)
	vAssert("line-count", !r.pairedCRLF || r.lines <= maxLines)
}

// vhC05ResponseSetters: one setter call with symbolic bytes on a fresh
// ResponseHeader; the serialised head is then scanned.
func vhC05ResponseSetters() {
	var h ResponseHeader
	h.noDefaultDate = true
	if vBool("disableNormalizing") {
		h.DisableNormalizing()
	}
	vl := vParam("valLen", 3)
	allowed := append([]string(nil), c05Implied...)
	which := vChoose("setter", 11)
	switch which {
	case 10: // a specially handled name through the byte-slice / canonical setters
		sp := c05Special[vChoose("special", len(c05Special))]
		v := c05Sym("value", vl)
		switch vChoose("via", 4) {
		case 0:
			h.SetBytesKV([]byte(sp), v)
		case 1:
			h.SetBytesV(sp, v)
		case 2:
			h.SetBytesK([]byte(sp), string(v))
		case 3:
			h.SetCanonical([]byte(sp), v)
		}
	case 0:
		nm, v := c05Name(), c05Sym("value", vl)
		h.Set(string(nm), string(v))
		allowed = append(allowed, string(nm), c05Neutral(nm))
	case 1:
		nm, v := c05Name(), c05Sym("value", vl)
		h.Add(string(nm), string(v))
		allowed = append(allowed, string(nm), c05Neutral(nm))
	case 2:
		h.SetContentTypeBytes(c05Sym("value", vl))
	case 3:
		h.SetServerBytes(c05Sym("value", vl))
	case 4:
		h.SetStatusMessage(c05Sym("value", vl))
	case 5:
		h.SetContentEncodingBytes(c05Sym("value", vl))
	case 6:
		nm, v := c05Name(), c05Sym("value", vl)
		h.SetBytesKV(nm, v)
		allowed = append(allowed, string(nm), c05Neutral(nm))
	case 7:
		sp := c05Special[vChoose("special", len(c05Special))]
		h.Set(sp, string(c05Sym("value", vl)))
	case 8:
		sp := c05Special[vChoose("special", len(c05Special))]
		h.Add(sp, string(c05Sym("value", vl)))
	case 9:
		h.SetTrailerBytes(c05Sym("value", vl)) //nolint:errcheck
	}
	out := h.Header()
	// status line + at most (the set line, Content-Type and Content-Length
	// defaults, Connection) + blank line
	c05Asserts(c05Scan(out, allowed), 6)
}

// vhC05RequestSetters: the same for RequestHeader, including method, request
// URI, host, user agent and protocol.
func vhC05RequestSetters() {
	var h RequestHeader
	if vBool("disableNormalizing") {
		h.DisableNormalizing()
	}
	vl := vParam("valLen", 3)
	allowed := append([]string(nil), c05Implied...)
	which := vChoose("setter", 12)
	switch which {
	case 0:
		nm, v := c05Name(), c05Sym("value", vl)
		h.Set(string(nm), string(v))
		allowed = append(allowed, string(nm), c05Neutral(nm))
	case 1:
		nm, v := c05Name(), c05Sym("value", vl)
		h.Add(string(nm), string(v))
		allowed = append(allowed, string(nm), c05Neutral(nm))
	case 2:
		h.SetMethodBytes(c05Sym("value", vl))
	case 3:
		h.SetRequestURIBytes(c05Sym("value", vl))
	case 4:
		h.SetHostBytes(c05Sym("value", vl))
	case 5:
		h.SetUserAgentBytes(c05Sym("value", vl))
	case 6:
		h.SetContentTypeBytes(c05Sym("value", vl))
	case 7:
		h.SetProtocolBytes(c05Sym("value", vl))
	case 8:
		sp := c05Special[vChoose("special", len(c05Special))]
		h.Set(sp, string(c05Sym("value", vl)))
	case 9:
		h.SetRefererBytes(c05Sym("value", vl))
		allowed = append(allowed, "Referer")
	case 10:
		h.SetCookieBytesKV(c05Sym("ckey", 2), c05Sym("value", vl))
	case 11:
		h.SetTrailerBytes(c05Sym("value", vl)) //nolint:errcheck
	}
	out := h.Header()
	c05Asserts(c05Scan(out, allowed), 7)
}
