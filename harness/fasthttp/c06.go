package fasthttp

// C06 — request cookies set through RequestHeader.SetCookie are seen by the
// server as exactly the cookies that were set, never an additional one.

// RFC 6265 cookie-octet
func c06CookieOctet(c byte) bool {
	return c == 0x21 || (c >= 0x23 && c <= 0x2b) || (c >= 0x2d && c <= 0x3a) || (c >= 0x3c && c <= 0x5b) || (c >= 0x5d && c <= 0x7e)
}

func c06HasByte(b []byte, x byte) bool {
	for _, c := range b {
		if c == x {
			return true
		}
	}
	return false
}

// vhC06RequestCookies: N SetCookie calls with arbitrary key/value bytes; the
// Cookie header fasthttp serialises is handed to a second RequestHeader (the
// server side) and parsed by the real cookie parser.
func vhC06RequestCookies() {
	N := vLen("cookies", 1, vParam("cookies", 2))
	kl, vl := vParam("keyLen", 1), vParam("valLen", 2)
	var h RequestHeader
	type kv struct{ k, v []byte }
	var set []kv
	octets := true
	for i := 0; i < N; i++ {
		k := c05Sym("k", kl)
		v := c05Sym("v", vl)
		if vKnown("C06-request-cookie-separator") {
			// listed finding: ';' in a key or value is written verbatim and
			// splits the cookie on the server side.
			vAssume(!c06HasByte(k, ';') && !c06HasByte(v, ';'))
		}
		for _, c := range k {
			if !c06CookieOctet(c) || c == '=' {
				octets = false
			}
		}
		for _, c := range v {
			if !c06CookieOctet(c) {
				octets = false
			}
		}
		if len(k) == 0 {
			octets = false
		}
		h.SetCookieBytesKV(k, v)
		// model: SetCookie replaces the value of an existing key
		found := false
		for j := range set {
			if string(set[j].k) == string(k) {
				set[j].v, found = v, true
			}
		}
		if !found {
			set = append(set, kv{k, v})
		}
	}
	wire := append([]byte(nil), h.Peek(HeaderCookie)...)
	var srv RequestHeader
	srv.SetBytesKV(strCookie, wire)
	srv.collectCookies()
	vAssert("never-an-additional-cookie", len(srv.cookies) <= len(set))
	if octets {
		ok := len(srv.cookies) == len(set)
		if ok {
			for i := range set {
				if string(srv.cookies[i].key) != string(set[i].k) || string(srv.cookies[i].value) != string(set[i].v) {
					ok = false
				}
			}
		}
		vAssert("cookie-octets-round-trip", ok)
	}
}
