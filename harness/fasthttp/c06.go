package fasthttp

// C06 — request cookies set through RequestHeader.SetCookie are seen by the
// server as exactly the cookies that were set, never an additional one.

// RFC 6265 cookie-octet
func c06CookieOctet(c byte) bool {
	return c == 0x21 || (c >= 0x23 && c <= 0x2b) || (c >= 0x2d && c <= 0x3a) || (c >= 0x3c && c <= 0x5b) || (c >= 0x5d && c <= 0x7e)
}

// table form of c06CookieOctet: a lookup by a symbolic byte is one term, where
// the chain of comparisons would fork the path.
var c06Octet = func() (t [256]bool) {
	for i := range t {
		t[i] = c06CookieOctet(byte(i))
	}
	return
}()

func c06HasByte(b []byte, x byte) bool {
	for _, c := range b {
		if c == x {
			return true
		}
	}
	return false
}

// vhC06RequestCookies: N SetCookie calls with arbitrary key/value bytes; the
// Cookie header fasthttp serialises is handed to a second RequestHeader (the
// server side) and parsed by the real cookie parser.
func vhC06RequestCookies() {
	N := vLen("cookies", 1, vParam("cookies", 2))
	kl, vl := vParam("keyLen", 1), vParam("valLen", 2)
	var h RequestHeader
	type kv struct{ k, v []byte }
	var set []kv
	octets := true
	for i := 0; i < N; i++ {
		k := c05Sym("k", kl)
		v := c05Sym("v", vl)
		if vKnown("C06-request-cookie-separator") {
			// listed finding: ';' in a key or value is written verbatim and
			// splits the cookie on the server side.
			vAssume(!c06HasByte(k, ';') && !c06HasByte(v, ';'))
		}
		for _, c := range k {
			if !c06Octet[c] || c == '=' {
				octets = false
			}
		}
		for _, c := range v {
			if !c06Octet[c] {
				octets = false
			}
		}
		if len(k) == 0 {
			octets = false
		}
		h.SetCookieBytesKV(k, v)
		// model: SetCookie replaces the value of an existing key
		found := false
		for j := range set {
			if string(set[j].k) == string(k) {
				set[j].v, found = v, true
			}
		}
		if !found {
			set = append(set, kv{k, v})
		}
	}
	wire := append([]byte(nil), h.Peek(HeaderCookie)...)
	var srv RequestHeader
	if vBool("serverHeaderReused") {
		// the server's header object served an earlier request with cookies
		srv.SetBytesKV(strCookie, []byte("session=abc; theme=dark; admin=\"x"))
		srv.collectCookies()
		srv.Reset()
	}
	srv.SetBytesKV(strCookie, wire)
	srv.collectCookies()
	vAssert("never-an-additional-cookie", len(srv.cookies) <= len(set))
	// a reused header object sees what a fresh one sees
	var fresh RequestHeader
	fresh.SetBytesKV(strCookie, wire)
	fresh.collectCookies()
	same := len(fresh.cookies) == len(srv.cookies)
	for i := 0; i < len(fresh.cookies) && i < len(srv.cookies); i++ {
		if string(fresh.cookies[i].key) != string(srv.cookies[i].key) || string(fresh.cookies[i].value) != string(srv.cookies[i].value) {
			same = false
		}
	}
	vAssert("reused-header-sees-the-same-cookies", same)
	if octets {
		ok := len(srv.cookies) == len(set)
		if ok {
			for i := range set {
				if string(srv.cookies[i].key) != string(set[i].k) || string(srv.cookies[i].value) != string(set[i].v) {
					ok = false
				}
			}
		}
		vAssert("cookie-octets-round-trip", ok)
	}
}


// vhC06ResponseCookie: a Set-Cookie built from arbitrary key / value / domain
// / path bytes and arbitrary flags parses back (Cookie.ParseBytes of what
// Cookie.AppendBytes wrote, through ResponseHeader.SetCookie) with exactly the
// attributes that were set: a string argument never adds Secure, HttpOnly,
// SameSite, Partitioned, Domain, Path or Max-Age.
func vhC06ResponseCookie() {
	var c Cookie
	key := c05Sym("key", vParam("keyLen", 1))
	val := c05Sym("val", vParam("valLen", 2))
	attr := vChoose("stringAttribute", 3) // none, domain, path (one at a time keeps the product small)
	setDomain, setPath := attr == 1, attr == 2
	var dom, path []byte
	c.SetKeyBytes(key)
	c.SetValueBytes(val)
	if setDomain {
		dom = c05Sym("domain", vParam("valLen", 2))
		c.SetDomainBytes(dom)
	}
	if setPath {
		// a path hole behind "/%" so that percent-escapes are in reach
		hole := c05Sym("path", vParam("pathLen", 2))
		if vBool("pathEscape") {
			path = append([]byte("/%"), hole...)
		} else {
			path = append([]byte("/"), hole...)
		}
		if vBool("pathAsString") {
			c.SetPath(string(path))
		} else {
			c.SetPathBytes(path)
		}
	}
	// flag combinations (independent of the string arguments): a small covering table
	type flags struct {
		secure, httpOnly, part bool
		ss                     CookieSameSite
		maxAge                 int
	}
	table := [...]flags{
		{}, {secure: true, httpOnly: true}, {part: true}, {httpOnly: true, maxAge: 5},
		{ss: CookieSameSiteDefaultMode}, {ss: CookieSameSiteLaxMode, maxAge: -1}, {ss: CookieSameSiteStrictMode, secure: true}, {ss: CookieSameSiteNoneMode},
	}
	f := table[vChoose("flags", len(table))]
	secure, httpOnly, part, ss, maxAge := f.secure, f.httpOnly, f.part, f.ss, f.maxAge
	c.SetSecure(secure)
	c.SetHTTPOnly(httpOnly)
	c.SetPartitioned(part)
	if part {
		secure, setPath = true, true // documented: Partitioned forces Secure and Path=/
	}
	c.SetSameSite(ss)
	if ss == CookieSameSiteNoneMode {
		secure = true // documented: SameSite=None forces Secure
	}
	c.SetMaxAge(maxAge)

	var h ResponseHeader
	h.SetCookie(&c)
	wire := append([]byte(nil), h.PeekCookie(string(c.Key()))...)
	if len(wire) == 0 {
		wire = append([]byte(nil), c.Cookie()...)
	}
	vNote(string(wire))
	nAttrs, nSemi := 0, 0
	for _, on := range []bool{maxAge != 0, len(c.Domain()) > 0, len(c.Path()) > 0, httpOnly, secure, ss != CookieSameSiteDisabled, part} {
		if on {
			nAttrs++
		}
	}
	for _, b := range wire {
		if b == ';' {
			nSemi++
		}
	}
	vAssert("semicolons-only-separate-the-attributes-set", nSemi == nAttrs)
	var p Cookie
	err := p.ParseBytes(wire)
	if err != nil {
		return // rejected: nothing was delivered
	}
	vAssert("no-secure-unless-set", p.Secure() == secure)
	vAssert("no-httponly-unless-set", p.HTTPOnly() == httpOnly)
	vAssert("no-partitioned-unless-set", p.Partitioned() == part)
	vAssert("samesite-as-set", p.SameSite() == ss)
	wantAge := maxAge
	if wantAge < 0 {
		wantAge = 0
	}
	vAssert("max-age-as-set", p.MaxAge() == wantAge)
	vAssert("no-domain-unless-set", len(p.Domain()) == 0 || (setDomain && len(c.Domain()) > 0))
	vAssert("no-path-unless-set", len(p.Path()) == 0 || (setPath && len(c.Path()) > 0))
	vAssert("no-expiry-unless-set", p.Expire().Equal(CookieExpireUnlimited))
	// cookie-octet inputs round-trip unchanged
	octets := len(key) > 0
	for _, b := range key {
		if !c06Octet[b] || b == '=' {
			octets = false
		}
	}
	for _, b := range val {
		if !c06Octet[b] {
			octets = false
		}
	}
	for _, b := range dom {
		if !c06Octet[b] {
			octets = false
		}
	}
	pathOctets := true
	for _, b := range c.Path() {
		if !c06Octet[b] {
			pathOctets = false
		}
	}
	// implications instead of branches: octets / pathOctets are terms over the
	// symbolic bytes, branching on them would only multiply the paths
	kvSame := string(p.Key()) == string(key) && string(p.Value()) == string(val)
	vAssert("octets-key-value-round-trip", !octets || kvSame)
	domSame := string(p.Domain()) == string(dom)
	vAssert("octets-domain-round-trip", !octets || !setDomain || domSame)
	pathSame := string(p.Path()) == string(c.Path())
	vAssert("path-round-trip", !octets || !setPath || !pathOctets || pathSame)
}
