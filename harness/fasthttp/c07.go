package fasthttp

// C07 — configured size limits bound what is buffered (server side).

func c07Digits(n int) string {
	if n == 0 {
		return "0"
	}
	s := ""
	for n > 0 {
		s = string(rune('0'+n%10)) + s
		n /= 10
	}
	return s
}

// vhC07RequestBodyLimit: MaxRequestBodySize = L (symbolic), a non-streamed
// POST with n body bytes (fixed-length, or chunked in one or two chunks):
// n ≤ L is dispatched with exactly its body; n > L is never dispatched, gets
// an error response and the connection is closed.
func vhC07RequestBodyLimit() {
	L := vIntRange("limit", 1, vParam("maxLimit", 6))
	n := vLen("bodyLen", 0, vParam("maxBody", 8))
	body := vBytes("body", n)
	var req []byte
	switch vChoose("framing", 3) {
	case 0:
		req = append([]byte("POST /p HTTP/1.1\r\nHost: a\r\nContent-Length: "+c07Digits(n)+"\r\n\r\n"), body...)
	case 1:
		req = []byte("POST /p HTTP/1.1\r\nHost: a\r\nTransfer-Encoding: chunked\r\n\r\n")
		if n > 0 {
			req = append(req, (c07Digits(n) + "\r\n")...) // n ≤ 9: decimal == hex
			req = append(req, body...)
			req = append(req, "\r\n"...)
		}
		req = append(req, "0\r\n\r\n"...)
	case 2:
		req = []byte("POST /p HTTP/1.1\r\nHost: a\r\nTransfer-Encoding: chunked\r\n\r\n")
		k := n / 2
		for _, part := range [][]byte{body[:k], body[k:]} {
			if len(part) > 0 {
				req = append(req, (c07Digits(len(part)) + "\r\n")...)
				req = append(req, part...)
				req = append(req, "\r\n"...)
			}
		}
		req = append(req, "0\r\n\r\n"...)
	}
	c := &vsSegConn{segs: [][]byte{req, []byte("GET /next HTTP/1.1\r\nHost: a\r\nConnection: close\r\n\r\n")}}
	s := &Server{NoDefaultDate: true, NoDefaultServerHeader: true, MaxRequestBodySize: L}
	var seen [][]byte
	var paths []string
	maxHeld := 0
	s.Handler = func(ctx *RequestCtx) {
		paths = append(paths, string(ctx.Path()))
		b := ctx.PostBody()
		if len(b) > maxHeld {
			maxHeld = len(b)
		}
		seen = append(seen, append([]byte(nil), b...))
		ctx.SetBodyString("ok")
	}
	s.ServeConn(c)
	vNote(string(c.wrote))
	rs, ok := c03Parse(c.wrote, nil)
	vAssert("responses-parse", ok && len(rs) >= 1)
	if !ok || len(rs) == 0 {
		return
	}
	vAssert("never-buffers-more-than-limit", maxHeld <= L)
	if n > L {
		vAssert("oversized-body-not-dispatched", len(paths) == 0)
		// the statement asks for "an error response" and a close; fasthttp
		// answers 400 here (413 is not demanded)
		vAssert("oversized-body-gets-error-response-and-close", rs[0].status >= 400 && rs[0].status < 500 && rs[0].close && len(rs) == 1 && c.closed == 1)
	} else {
		vAssert("body-within-limit-dispatched-exactly", len(paths) >= 1 && paths[0] == "/p" && string(seen[0]) == string(body))
		vAssert("next-request-follows", len(paths) == 2 && paths[1] == "/next")
	}
}

// vhC07HeadTooLarge: a request head longer than ReadBufferSize is answered
// with 431 and the connection is closed; the handler never runs.
func vhC07HeadTooLarge() {
	pad := vLen("pad", 0, 3) * 40
	v := make([]byte, pad)
	for i := range v {
		v[i] = 'x'
	}
	req := "GET / HTTP/1.1\r\nHost: a\r\nX-Pad: " + string(v) + "\r\n\r\n"
	c := &vsSegConn{segs: [][]byte{[]byte(req)}}
	s := &Server{NoDefaultDate: true, NoDefaultServerHeader: true, ReadBufferSize: 64}
	calls := 0
	s.Handler = func(ctx *RequestCtx) { calls++; ctx.SetBodyString("ok") }
	s.ServeConn(c)
	rs, ok := c03Parse(c.wrote, nil)
	if len(req) > 64 {
		vAssert("large-head-431-and-close", ok && len(rs) == 1 && rs[0].status == StatusRequestHeaderFieldsTooLarge && rs[0].close && calls == 0 && c.closed == 1)
	} else {
		vAssert("small-head-served", ok && len(rs) == 1 && rs[0].status == 200 && calls == 1)
	}
}

// vhC07AnnouncedTooLarge: the size is announced (Content-Length, or a chunk
// size line) before the data, and the data arrives in later segments. Once
// the announcement exceeds the limit the server must give up without pulling
// the data off the connection: what it has not read it cannot have buffered.
// The limit comes from MaxRequestBodySize, or from a smaller per-request
// limit returned by HeaderReceived; the request may carry Expect: 100-continue.
func vhC07AnnouncedTooLarge() {
	L := vIntRange("limit", 1, vParam("maxLimit", 6))
	n := vIntRange("announced", 1, 40)
	perRequest := vBool("limitFromHeaderReceived")
	expect := vBool("expect100")
	chunked := vBool("chunked")
	head := "POST /p HTTP/1.1\r\nHost: a\r\n"
	if expect {
		head += "Expect: 100-continue\r\n"
	}
	multipart := vBool("multipartContentType")
	if multipart {
		// a form the server would pre-parse: the limit comes first all the same
		head += "Content-Type: multipart/form-data; boundary=b\r\n"
	}
	nn := vConc(n) // the announced size is written into the head: one path per value
	var first string
	if chunked {
		const hexd = "0123456789abcdef"
		first = head + "Transfer-Encoding: chunked\r\n\r\n" + string([]byte{hexd[nn>>4], hexd[nn&15]}) + "\r\n"
	} else {
		first = head + "Content-Length: " + c07Digits(nn) + "\r\n\r\n"
	}
	data := make([]byte, nn)
	for i := range data {
		data[i] = 'd'
	}
	tail := ""
	if chunked {
		tail = "\r\n0\r\n\r\n"
	}
	c := &vsSegConn{segs: [][]byte{[]byte(first), data, []byte(tail + "GET /next HTTP/1.1\r\nHost: a\r\nConnection: close\r\n\r\n")}}
	s := &Server{NoDefaultDate: true, NoDefaultServerHeader: true}
	if perRequest {
		s.MaxRequestBodySize = 64
		s.HeaderReceived = func(h *RequestHeader) RequestConfig {
			return RequestConfig{MaxRequestBodySize: L}
		}
	} else {
		s.MaxRequestBodySize = L
	}
	maxHeld := 0
	dispatched := 0
	s.Handler = func(ctx *RequestCtx) {
		if string(ctx.Path()) == "/p" {
			dispatched++
			if b := ctx.PostBody(); len(b) > maxHeld {
				maxHeld = len(b)
			}
		}
		ctx.SetBodyString("ok")
	}
	s.ServeConn(c)
	vAssert("never-hands-over-more-than-limit", maxHeld <= L)
	if nn > L {
		vAssert("oversized-announcement-not-dispatched", dispatched == 0)
		vAssert("data-beyond-the-limit-is-not-pulled-off-the-connection", c.next <= 1)
		vAssert("connection-closed", c.closed == 1)
	} else if !multipart {
		// (the data is not a well-formed form: with the multipart content type
		// the server may refuse it as malformed instead)
		vAssert("body-within-limit-dispatched", dispatched == 1)
	}
}

// vhC07PerRequestLimit: HeaderReceived raises the limit for one kind of
// request (/up) and returns nothing for the others. Two requests on one
// keep-alive connection, in either order, fixed-length or chunked: each body
// is held against the limit that applies to *its* request — the raised limit
// of an earlier request does not carry over, nor does the server-wide limit
// apply to the request that raised it.
func vhC07PerRequestLimit() {
	const serverLimit, raised = 3, 9
	s := &Server{NoDefaultDate: true, NoDefaultServerHeader: true, MaxRequestBodySize: serverLimit}
	s.HeaderReceived = func(h *RequestHeader) RequestConfig {
		if string(h.RequestURI()) == "/up" {
			return RequestConfig{MaxRequestBodySize: raised}
		}
		return RequestConfig{}
	}
	var got []string
	maxHeld := map[string]int{}
	s.Handler = func(ctx *RequestCtx) {
		p := string(ctx.Path())
		got = append(got, p)
		if n := len(ctx.PostBody()); n > maxHeld[p] {
			maxHeld[p] = n
		}
		ctx.SetBodyString("ok")
	}
	paths := [2]string{"/up", "/p"}
	if vBool("plainFirst") {
		paths = [2]string{"/p", "/up"}
	}
	var lens [2]int
	var segs [][]byte
	for i, p := range paths {
		n := vLen("bodyLen", 0, 11)
		lens[i] = n
		body := make([]byte, n)
		for k := range body {
			body[k] = 'd'
		}
		req := "POST " + p + " HTTP/1.1\r\nHost: a\r\n"
		if vBool("chunked") {
			req += "Transfer-Encoding: chunked\r\n\r\n"
			if n > 0 {
				const hexd = "0123456789abcdef"
				req += string(hexd[n]) + "\r\n" + string(body) + "\r\n"
			}
			req += "0\r\n\r\n"
		} else {
			req += "Content-Length: " + c07Digits(n) + "\r\n\r\n" + string(body)
		}
		segs = append(segs, []byte(req))
	}
	c := &vsSegConn{segs: segs}
	s.ServeConn(c)
	limitOf := func(p string) int {
		if p == "/up" {
			return raised
		}
		return serverLimit
	}
	firstFits := lens[0] <= limitOf(paths[0])
	secondFits := lens[1] <= limitOf(paths[1])
	vAssert("nothing-beyond-its-own-limit-is-handed-over", maxHeld["/up"] <= raised && maxHeld["/p"] <= serverLimit)
	if !firstFits {
		vAssert("oversized-first-request-ends-the-connection", len(got) == 0 && c.closed == 1)
		return
	}
	vAssert("first-request-within-its-limit-is-dispatched", len(got) >= 1 && got[0] == paths[0])
	if secondFits {
		vAssert("second-request-within-its-limit-is-dispatched", len(got) == 2 && got[1] == paths[1])
	} else {
		vAssert("second-request-beyond-its-own-limit-is-refused", len(got) == 1 && c.closed == 1)
	}
}

// vhC07ClientResponseLimit: the client side. MaxResponseBodySize = L
// (symbolic) and a non-streamed response of n body bytes — fixed length, one
// chunk, or delimited by the close and arriving in reads of at most 2 bytes:
// n ≤ L is returned whole, n > L ends in ErrBodyTooLarge, and the caller is
// never handed more than L body bytes.
func vhC07ClientResponseLimit() {
	L := vIntRange("limit", 1, vParam("maxLimit", 6))
	n := vLen("bodyLen", 0, vParam("maxBody", 8))
	body := vBytes("body", n)
	nw := &vcNet{}
	framing := vChoose("framing", 3)
	nw.onDial = func(k int, addr string) *vcConn {
		c := &vcConn{}
		switch framing {
		case 0:
			c.segs = [][]byte{append([]byte("HTTP/1.1 200 OK\r\nContent-Length: "+c07Digits(n)+"\r\n\r\n"), body...)}
		case 1:
			w := []byte("HTTP/1.1 200 OK\r\nTransfer-Encoding: chunked\r\n\r\n")
			if n > 0 {
				w = append(w, (c07Digits(n) + "\r\n")...) // n ≤ 9: decimal == hex
				w = append(w, body...)
				w = append(w, "\r\n"...)
			}
			c.segs = [][]byte{append(w, "0\r\n\r\n"...)}
		case 2:
			c.segs = [][]byte{[]byte("HTTP/1.1 200 OK\r\nConnection: close\r\n\r\n")}
			for i := 0; i < n; i += 2 {
				j := i + 2
				if j > n {
					j = n
				}
				c.segs = append(c.segs, body[i:j])
			}
		}
		return c
	}
	hc := &HostClient{Addr: "a.co:80", Dial: nw.Dial, MaxResponseBodySize: L, MaxIdemponentCallAttempts: 1}
	var req Request
	var resp Response
	req.SetRequestURI("http://a.co/x")
	err := hc.Do(&req, &resp)
	vAssert("never-more-than-the-limit-handed-to-the-caller", err != nil || len(resp.Body()) <= L)
	if n > L {
		vAssert("oversized-response-is-ErrBodyTooLarge", err == ErrBodyTooLarge)
	} else {
		vAssert("response-within-the-limit-is-returned-whole", err == nil && string(resp.Body()) == string(body))
	}
}
