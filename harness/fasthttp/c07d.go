package fasthttp

import (
	stdgzip "compress/gzip"
	"github.com/klauspost/compress/gzip"
	"io"

	"github.com/andybalholm/brotli"
	"github.com/klauspost/compress/zstd"
)

// C07 — the decompressing *WithLimit helpers. The codecs themselves (gzip,
// zlib, brotli, zstd inflation) are not interpretable, so they are the
// environment here: their constructors and Read/Reset/Close methods are
// replaced under the engine (//verif:stub) by one scripted "inflated stream"
// of n arbitrary bytes handed out in reads of at most seg bytes. Everything
// fasthttp does around the codec is the real code: the route from the public
// helper to the codec (Body*WithLimit, BodyUncompressedWithLimit,
// MultipartFormWithLimit), the reader pools, writeGunzip / writeInflate /
// writeUnbrotli / writeUnzstd, copyZeroAllocWithLimit, copyZeroAlloc and
// bytebufferpool.ByteBuffer.ReadFrom. The observable is what C07 is about:
// how many inflated bytes fasthttp pulls out of the codec (= buffers).

type vdStream struct {
	data   []byte
	pos    int
	seg    int
	pulled int
	opened int
}

var vdS vdStream

func (s *vdStream) read(p []byte) (int, error) {
	if s.pos >= len(s.data) {
		return 0, io.EOF
	}
	k := len(s.data) - s.pos
	if k > s.seg {
		k = s.seg
	}
	if k > len(p) {
		k = len(p)
	}
	copy(p, s.data[s.pos:s.pos+k])
	s.pos += k
	s.pulled += k
	return k, nil
}

// writeTo is what an unlimited copy uses (copyZeroAlloc prefers io.WriterTo):
// the whole stream is pulled.
func (s *vdStream) writeTo(w io.Writer) (int64, error) {
	var buf [4]byte
	var total int64
	for {
		k, err := s.read(buf[:])
		if k > 0 {
			if _, werr := w.Write(buf[:k]); werr != nil {
				return total, werr
			}
			total += int64(k)
		}
		if err != nil {
			return total, nil
		}
	}
}

//verif:stub (*github.com/klauspost/compress/gzip.Reader).WriteTo
func vstubGzipWriteTo(z *gzip.Reader, w io.Writer) (int64, error) { return vdS.writeTo(w) }

//verif:stub (*github.com/klauspost/compress/zstd.Decoder).WriteTo
func vstubZstdWriteTo(z *zstd.Decoder, w io.Writer) (int64, error) { return vdS.writeTo(w) }

// vdFlate stands in for the io.ReadCloser zlib.NewReader returns.
type vdFlate struct{}

func (vdFlate) Read(p []byte) (int, error)           { return vdS.read(p) }
func (vdFlate) Close() error                         { return nil }
func (vdFlate) Reset(r io.Reader, dict []byte) error { vdS.opened++; return nil }

//verif:stub github.com/klauspost/compress/zlib.NewReader
func vstubZlibNewReader(r io.Reader) (io.ReadCloser, error) { vdS.opened++; return vdFlate{}, nil }

//verif:stub github.com/klauspost/compress/gzip.NewReader
func vstubGzipNewReader(r io.Reader) (*gzip.Reader, error) { vdS.opened++; return &gzip.Reader{}, nil }

//verif:stub (*github.com/klauspost/compress/gzip.Reader).Reset
func vstubGzipReset(z *gzip.Reader, r io.Reader) error { vdS.opened++; return nil }

//verif:stub (*github.com/klauspost/compress/gzip.Reader).Read
func vstubGzipRead(z *gzip.Reader, p []byte) (int, error) { return vdS.read(p) }

//verif:stub (*github.com/klauspost/compress/gzip.Reader).Close
func vstubGzipClose(z *gzip.Reader) error { return nil }

//verif:stub github.com/andybalholm/brotli.NewReader
func vstubBrotliNewReader(r io.Reader) *brotli.Reader { vdS.opened++; return &brotli.Reader{} }

//verif:stub (*github.com/andybalholm/brotli.Reader).Reset
func vstubBrotliReset(z *brotli.Reader, r io.Reader) error { vdS.opened++; return nil }

//verif:stub (*github.com/andybalholm/brotli.Reader).Read
func vstubBrotliRead(z *brotli.Reader, p []byte) (int, error) { return vdS.read(p) }

//verif:stub github.com/klauspost/compress/zstd.NewReader
func vstubZstdNewReader(r io.Reader, opts ...zstd.DOption) (*zstd.Decoder, error) {
	vdS.opened++
	return &zstd.Decoder{}, nil
}

//verif:stub (*github.com/klauspost/compress/zstd.Decoder).Reset
func vstubZstdReset(z *zstd.Decoder, r io.Reader) error { vdS.opened++; return nil }

//verif:stub (*github.com/klauspost/compress/zstd.Decoder).Read
func vstubZstdRead(z *zstd.Decoder, p []byte) (int, error) { return vdS.read(p) }

var vdEncodings = []string{"gzip", "deflate", "br", "zstd"}

// vhC07DecompressLimit: every public decompressing *WithLimit helper of
// Request and Response, limit L symbolic, an inflated stream of n arbitrary
// bytes: never more than L+1 inflated bytes are pulled out of the codec
// (L+1 is what copyZeroAllocWithLimit needs to tell "exactly L" from "more"),
// n > L is ErrBodyTooLarge, n ≤ L comes back whole. The call is made twice so
// the second one runs over the pooled reader (Reset path).
func vhC07DecompressLimit() {
	L := vIntRange("limit", 1, vParam("maxLimit", 5))
	n := vLen("inflatedLen", 0, vParam("maxBody", 7))
	data := vBytes("inflated", n)
	codec := vChoose("codec", 4)
	route := vChoose("route", 4) // 0 Request.BodyXWithLimit, 1 Request.BodyUncompressedWithLimit, 2/3 the same on Response
	seg := 1 + vChoose("seg", 3)
	for round := 0; round < 2; round++ {
		vdS = vdStream{data: data, seg: seg}
		var req Request
		var resp Response
		var out []byte
		var err error
		switch route {
		case 0:
			req.SetBody([]byte("zz"))
			switch codec {
			case 0:
				out, err = req.BodyGunzipWithLimit(L)
			case 1:
				out, err = req.BodyInflateWithLimit(L)
			case 2:
				out, err = req.BodyUnbrotliWithLimit(L)
			case 3:
				out, err = req.BodyUnzstdWithLimit(L)
			}
		case 1:
			req.SetBody([]byte("zz"))
			req.Header.SetContentEncoding(vdEncodings[codec])
			out, err = req.BodyUncompressedWithLimit(L)
		case 2:
			resp.SetBody([]byte("zz"))
			switch codec {
			case 0:
				out, err = resp.BodyGunzipWithLimit(L)
			case 1:
				out, err = resp.BodyInflateWithLimit(L)
			case 2:
				out, err = resp.BodyUnbrotliWithLimit(L)
			case 3:
				out, err = resp.BodyUnzstdWithLimit(L)
			}
		case 3:
			resp.SetBody([]byte("zz"))
			resp.Header.SetContentEncoding(vdEncodings[codec])
			out, err = resp.BodyUncompressedWithLimit(L)
		}
		vAssert("the-codec-was-asked", vdS.opened == 1)
		vAssert("never-more-than-limit-plus-one-inflated-bytes-pulled", vdS.pulled <= L+1)
		vAssert("never-more-than-the-limit-handed-to-the-caller", err != nil || len(out) <= L)
		if n > L {
			vAssert("oversized-inflated-body-is-ErrBodyTooLarge", err == ErrBodyTooLarge)
		} else {
			vAssert("inflated-body-within-the-limit-is-returned-whole", err == nil && string(out) == string(data))
		}
	}
}

const vdForm = "--b\r\nContent-Disposition: form-data; name=\"a\"\r\n\r\nv\r\n--b--\r\n"

// vhC07MultipartGzipLimit: MultipartFormWithLimit over a buffered gzip body.
// The inflated stream is a fixed well-formed form of len(vdForm) bytes handed
// out in reads of 1..3 bytes; L symbolic around that length. The limit bounds
// what is inflated, not only what is returned.
func vhC07MultipartGzipLimit() {
	n := len(vdForm)
	L := vIntRange("limit", 1, n+2)
	seg := 1 + vChoose("seg", 3)
	vdS = vdStream{data: []byte(vdForm), seg: seg}
	var req Request
	req.Header.SetMethod("POST")
	req.Header.SetContentType("multipart/form-data; boundary=b")
	req.Header.SetContentEncoding("gzip")
	req.SetBody([]byte("zz"))
	f, err := req.MultipartFormWithLimit(L)
	vAssert("the-codec-was-asked", vdS.opened == 1)
	vAssert("never-more-than-limit-plus-one-inflated-bytes-pulled", vdS.pulled <= L+1)
	if n > L {
		vAssert("oversized-inflated-form-is-refused", err != nil && f == nil)
	} else {
		vAssert("form-within-the-limit-is-parsed", err == nil && f != nil && len(f.Value["a"]) == 1 && f.Value["a"][0] == "v")
	}
}

//verif:stub compress/gzip.NewReader
func vstubStdGzipNewReader(r io.Reader) (*stdgzip.Reader, error) {
	vdS.opened++
	return &stdgzip.Reader{}, nil
}

//verif:stub (*compress/gzip.Reader).Read
func vstubStdGzipRead(z *stdgzip.Reader, p []byte) (int, error) { return vdS.read(p) }

type vdBodyStream struct{}

func (vdBodyStream) Read(p []byte) (int, error) { return vdS.read(p) }

// vhC07MultipartStreamLimit: MultipartFormWithLimit over a streamed request
// body, identity or gzip (the standard library's gzip reader, stubbed like
// the others): never more than L+1 bytes of the form are pulled, a form
// longer than L is refused, a form within L is parsed.
func vhC07MultipartStreamLimit() {
	n := len(vdForm)
	L := vIntRange("limit", 1, n+2)
	seg := 1 + vChoose("seg", 3)
	gz := vBool("gzip")
	vdS = vdStream{data: []byte(vdForm), seg: seg}
	var req Request
	req.Header.SetMethod("POST")
	req.Header.SetContentType("multipart/form-data; boundary=b")
	if gz {
		req.Header.SetContentEncoding("gzip")
	}
	req.SetBodyStream(vdBodyStream{}, -1)
	f, err := req.MultipartFormWithLimit(L)
	if gz {
		vAssert("the-codec-was-asked", vdS.opened == 1)
	}
	vAssert("never-more-than-limit-plus-one-bytes-of-the-form-pulled", vdS.pulled <= L+1)
	if n > L {
		vAssert("oversized-form-is-refused", err != nil && f == nil)
	} else {
		vAssert("form-within-the-limit-is-parsed", err == nil && f != nil && len(f.Value["a"]) == 1 && f.Value["a"][0] == "v")
	}
}
