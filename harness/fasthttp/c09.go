package fasthttp

import (
	"bufio"
	"bytes"
	"io"
)

// C08 / C09 — request and response heads through the real Read (bufio.Reader
// over an in-memory stream).

var c09Ends = [...]string{"\r\n\r\n", "\n\n", "\n\r\n", "\r\n\n"}

// c09ReqHead builds a request head from a template with symbolic holes.
func c09ReqHead() []byte {
	hl := vParam("holeLen", 2)
	var h []byte
	switch vChoose("template", 5) {
	case 0:
		h = append([]byte("GET / HTTP/1.1\r\nHost: a\r\nX"), c05Sym("hole", hl)...)
		h = append(h, ": v"...)
	case 1:
		h = append([]byte("GET / HTTP/1.1\r\nHost: a\r\nA: b"), c05Sym("hole", hl)...)
	case 2:
		h = append([]byte("POST / HTTP/1.1\r\nHost: a\r\nContent-Length: "), c05Sym("hole", hl)...)
	case 3:
		h = append([]byte("GET /"), c05Sym("hole", hl)...)
		h = append(h, " HTTP/1.1\r\nHost: a"...)
	case 4:
		h = append([]byte("GET / HTTP/1.1\r\nHost: a"), c05Sym("hole", hl)...)
		h = append(h, "B: c"...)
	}
	end := 0
	if e := vParam("endOnly", -1); e >= 0 {
		end = e
	} else if vKnown("C09-lf-crlf-terminator") {
		// listed finding: a head whose blank line is LF CRLF ("...\n\r\n")
		end = [3]int{0, 1, 3}[vChoose("end", 3)]
	} else {
		end = vChoose("end", len(c09Ends))
	}
	return append(h, c09Ends[end]...)
}

type c09Out struct {
	ok     bool
	rest   int
	method string
	uri    string
	host   string
	cl     int
	nhdr   int
	close  bool
}

func c09ReadReq(stream []byte) c09Out {
	var h RequestHeader
	r := bufio.NewReaderSize(bytes.NewReader(stream), 128)
	err := h.Read(r)
	var o c09Out
	o.ok = err == nil
	if err == nil {
		rest, _ := io.ReadAll(r)
		o.rest = len(rest)
		o.method = string(h.Method())
		o.uri = string(h.RequestURI())
		o.host = string(h.Host())
		o.cl = h.ContentLength()
		o.nhdr = h.Len()
		o.close = h.ConnectionClose()
	}
	return o
}

// vhC09RequestHead: parse(H+S1) and parse(H+S2) agree on acceptance and on
// every field; an accepted head leaves at least the continuation unread and
// never more than the stream (C08: no over-read).
func vhC09RequestHead() { c09RequestHead(true) }

// vhC08RequestHeadNoOverRead: the same input family, asserting only C08's
// clause: an accepted head never consumes bytes of the continuation.
func vhC08RequestHeadNoOverRead() { c09RequestHead(false) }

func c09RequestHead(agree bool) {
	H := c09ReqHead()
	s1 := c05Sym("s1", vParam("contLen", 2))
	s2 := c05Sym("s2", vParam("contLen", 2))
	o1 := c09ReadReq(append(append([]byte(nil), H...), s1...))
	o2 := c09ReadReq(append(append([]byte(nil), H...), s2...))
	if !agree {
		vAssert("no-over-read", (!o1.ok || o1.rest >= len(s1)) && (!o2.ok || o2.rest >= len(s2)))
		return
	}
	vAssert("acceptance-independent-of-continuation", o1.ok == o2.ok)
	if o1.ok && o2.ok {
		vAssert("fields-independent-of-continuation",
			o1.method == o2.method && o1.uri == o2.uri && o1.host == o2.host && o1.cl == o2.cl && o1.nhdr == o2.nhdr && o1.close == o2.close)
		vAssert("consumed-independent-of-continuation", o1.rest-len(s1) == o2.rest-len(s2))
	}
}

// vhC08SmallBuffers: every parser named by C08 on a fully symbolic buffer of
// length ≤ N: it returns (the engine reports any panic, out-of-range index or
// step-budget overrun on any path as a violation) and header reads never
// consume more than the stream holds.
func vhC08SmallBuffers() {
	b := c05Sym("buf", vParam("bufLen", 3))
	switch vChoose("parser", 11) {
	case 10:
		// a bracketed host: arbitrary bytes in front of a dotted quad
		vAssume(len(b) <= 3) // (these three kinds: at most 3 free bytes at either tier)
		var u URI
		host := append([]byte("["), b...)
		host = append(host, "1.2.3.4]"...)
		err := u.Parse(host, []byte("/"))
		vAssert("bracketed-host-returned", err != nil || len(u.Host()) > 0)
	case 8:
		// the multipart boundary parameter of an arbitrary Content-Type tail
		vAssume(len(b) <= 3)
		var h RequestHeader
		h.SetContentTypeBytes(append([]byte("multipart/form-data; boundary="), b...))
		bd := h.MultipartFormBoundary()
		vAssert("boundary-bounded", len(bd) <= len(b))
	case 9:
		// …and a whole request with such a Content-Type and a body, through the reader
		vAssume(len(b) <= 3)
		req := append([]byte("POST / HTTP/1.1\r\nHost: a\r\nContent-Length: 2\r\nContent-Type: multipart/form-data; boundary="), b...)
		req = append(req, "\r\n\r\nxy"...)
		var r Request
		err := r.ReadLimitBody(bufio.NewReaderSize(bytes.NewReader(req), 256), 1024)
		vAssert("multipart-request-returned", err != nil || len(r.Body()) <= 2)
	case 0:
		var a Args
		a.ParseBytes(b)
		vAssert("args-len-bounded", a.Len() <= len(b)+1)
	case 1:
		var c Cookie
		err := c.ParseBytes(b)
		vAssert("cookie-returned", err != nil || len(c.Key())+len(c.Value()) <= len(b))
	case 2:
		var u URI
		err := u.Parse(nil, b)
		vAssert("uri-returned", err != nil || len(u.Path()) > 0)
	case 3:
		cl := vInt("contentLength")
		vAssume(cl >= 0)
		s, e, err := ParseByteRange(b, cl)
		vAssert("range-returned", err != nil || (s <= e && e < cl))
	case 4:
		o := c09ReadReq(b)
		vAssert("request-head-no-over-read", !o.ok || o.rest <= len(b))
	case 5:
		var h ResponseHeader
		r := bufio.NewReaderSize(bytes.NewReader(b), 128)
		err := h.Read(r)
		vAssert("response-head-no-over-read", err != nil || r.Buffered() <= len(b))
	case 6:
		n := 0
		VisitHeaderParams(b, func(k, v []byte) bool { n++; return true })
		vAssert("params-bounded", n <= len(b)+1)
	case 7:
		var h RequestHeader
		h.SetCookieBytesKV([]byte("k"), b)
		h.SetBytesKV([]byte("Cookie"), b)
		n := 0
		for range h.Cookies() {
			n++
		}
		vAssert("request-cookies-bounded", n <= len(b)+2)
	}
}

// ---- response heads, and "no waiting once the head is complete" ----------

func c09RespHead() []byte {
	hl := vParam("holeLen", 2)
	var h []byte
	switch vChoose("template", 5) {
	case 0:
		h = append([]byte("HTTP/1.1 200 OK\r\nX"), c05Sym("hole", hl)...)
		h = append(h, ": v"...)
	case 1:
		h = append([]byte("HTTP/1.1 200 OK\r\nA: b"), c05Sym("hole", hl)...)
	case 2:
		h = append([]byte("HTTP/1.1 200 OK\r\nContent-Length: "), c05Sym("hole", hl)...)
	case 3:
		h = append([]byte("HTTP/1.1 "), c05Sym("hole", hl)...)
		h = append(h, " OK\r\nA: b"...)
	case 4:
		h = append([]byte("HTTP/1.1 200 OK\r\nA: a"), c05Sym("hole", hl)...)
		h = append(h, "B: c"...)
	}
	end := 0
	if vKnown("C09-lf-crlf-terminator") {
		end = [3]int{0, 1, 3}[vChoose("end", 3)]
	} else {
		end = vChoose("end", len(c09Ends))
	}
	return append(h, c09Ends[end]...)
}

type c09RespOut struct {
	ok     bool
	rest   int
	status int
	cl     int
	nhdr   int
	a      string
	close  bool
}

func c09ReadResp(stream []byte) c09RespOut {
	var h ResponseHeader
	r := bufio.NewReaderSize(bytes.NewReader(stream), 128)
	err := h.Read(r)
	var o c09RespOut
	o.ok = err == nil
	if err == nil {
		rest, _ := io.ReadAll(r)
		o.rest = len(rest)
		o.status = h.StatusCode()
		o.cl = h.ContentLength()
		o.nhdr = h.Len()
		o.a = string(h.Peek("A"))
		o.close = h.ConnectionClose()
	}
	return o
}

// vhC09ResponseHead: the differential of vhC09RequestHead for response heads.
func vhC09ResponseHead() {
	H := c09RespHead()
	s1 := c05Sym("s1", vParam("contLen", 2))
	s2 := c05Sym("s2", vParam("contLen", 2))
	o1 := c09ReadResp(append(append([]byte(nil), H...), s1...))
	o2 := c09ReadResp(append(append([]byte(nil), H...), s2...))
	vAssert("acceptance-independent-of-continuation", o1.ok == o2.ok)
	if o1.ok && o2.ok {
		vAssert("fields-independent-of-continuation",
			o1.status == o2.status && o1.cl == o2.cl && o1.nhdr == o2.nhdr && o1.a == o2.a && o1.close == o2.close)
		vAssert("consumed-independent-of-continuation", o1.rest-len(s1) == o2.rest-len(s2))
	}
}

// c09SegReader hands out the head in segments and counts the Read calls made
// after the whole head has been delivered (each of those is the parser waiting
// for input that an open connection may never send).
type c09SegReader struct {
	segs       [][]byte
	next, off  int
	afterEnd   int
}

func (r *c09SegReader) Read(p []byte) (int, error) {
	if r.next >= len(r.segs) {
		r.afterEnd++
		return 0, io.EOF
	}
	n := copy(p, r.segs[r.next][r.off:])
	r.off += n
	if r.off >= len(r.segs[r.next]) {
		r.next++
		r.off = 0
	}
	return n, nil
}

// vhC09NoWaiting: a complete head (request or response) arrives in one, two
// or three reads, the cuts falling inside its last five bytes; the parser
// must answer without asking the connection for more.
func vhC09NoWaiting() {
	isResp := vBool("response")
	var H []byte
	if isResp {
		H = c09RespHead()
	} else {
		H = c09ReqHead()
	}
	if vKnown("C09-lf-crlf-terminator") {
		// listed finding: a blank line that is not spelled CRLF CRLF is only
		// recognised when a CRLF CRLF follows somewhere later, so such a head
		// waits for more input; the check keeps to heads ending in CRLF CRLF
		vAssume(len(H) >= 4 && string(H[len(H)-4:]) == "\r\n\r\n")
	}
	n := len(H)
	rd := &c09SegReader{}
	switch vChoose("reads", 3) {
	case 0:
		rd.segs = [][]byte{H}
	case 1:
		c1 := n - 1 - vChoose("cut", 4)
		rd.segs = [][]byte{H[:c1], H[c1:]}
	case 2:
		c2 := n - 1 - vChoose("cut2", 3)
		c1 := c2 - 1 - vChoose("cut1", 2)
		rd.segs = [][]byte{H[:c1], H[c1:c2], H[c2:]}
	}
	r := bufio.NewReaderSize(rd, 128)
	var err error
	if isResp {
		var h ResponseHeader
		err = h.Read(r)
	} else {
		var h RequestHeader
		err = h.Read(r)
	}
	_ = err
	vAssert("complete-head-is-answered-without-waiting", rd.afterEnd == 0)
}

// ---- C08: bodies, chunk sizes and trailers ---------------------------------

var c08IsHex = func() (t [256]bool) {
	for i := range t {
		t[i] = refHexVal(byte(i)) >= 0
	}
	return
}()

// vhC08ChunkSizeLine: a chunked request or response whose first chunk-size
// line is 14..17 arbitrary hex digits: the reader returns (no panic, no
// runaway allocation) for every positive body limit.
func vhC08ChunkSizeLine() {
	nd := 14 + vChoose("digits", 4)
	d := vBytes("size", nd)
	for _, c := range d {
		vAssume(c08IsHex[c])
	}
	limit := vIntRange("maxBodySize", 1, 8)
	if vBool("response") {
		msg := append([]byte("HTTP/1.1 200 OK\r\nTransfer-Encoding: chunked\r\n\r\n"), d...)
		msg = append(msg, "\r\nx\r\n0\r\n\r\n"...)
		var resp Response
		err := resp.ReadLimitBody(bufio.NewReaderSize(bytes.NewReader(msg), 128), limit)
		vAssert("returns-with-a-bounded-body", err != nil || len(resp.Body()) <= limit)
	} else {
		msg := append([]byte("POST / HTTP/1.1\r\nHost: a\r\nTransfer-Encoding: chunked\r\n\r\n"), d...)
		msg = append(msg, "\r\nx\r\n0\r\n\r\n"...)
		var req Request
		err := req.ReadLimitBody(bufio.NewReaderSize(bytes.NewReader(msg), 128), limit)
		vAssert("returns-with-a-bounded-body", err != nil || len(req.Body()) <= limit)
	}
}

// vhC08SplitReads: a complete chunked message with a trailer (and a message
// with a fixed-length body), delivered in two reads split at any position of
// its last 14 bytes or in its head; the reader terminates (the engine's step
// budget turns a spinning loop into a violation), consumes exactly the
// message and yields the same body and trailer as when it arrives whole.
func vhC08SplitReads() {
	x := vBytes("x", 2)
	for _, c := range x {
		vAssume(c > ' ' && c < 0x7f && c != ':')
	}
	var msg []byte
	isResp := vBool("response")
	withTrailer := vBool("chunkedWithTrailer")
	switch {
	case isResp && withTrailer:
		msg = []byte("HTTP/1.1 200 OK\r\nTransfer-Encoding: chunked\r\nTrailer: Foo\r\n\r\n2\r\n" + string(x) + "\r\n0\r\nFoo: " + string(x) + "\r\n\r\n")
	case isResp:
		msg = []byte("HTTP/1.1 200 OK\r\nContent-Length: 2\r\n\r\n" + string(x))
	case withTrailer:
		msg = []byte("POST / HTTP/1.1\r\nHost: a\r\nTransfer-Encoding: chunked\r\nTrailer: Foo\r\n\r\n2\r\n" + string(x) + "\r\n0\r\nFoo: " + string(x) + "\r\n\r\n")
	default:
		msg = []byte("POST / HTTP/1.1\r\nHost: a\r\nContent-Length: 2\r\n\r\n" + string(x))
	}
	next := []byte("NEXT")
	cut := len(msg) - 1 - vChoose("cutFromEnd", 14)
	if vBool("cutInHead") {
		cut = 5 + vChoose("cutInHeadAt", 4)*7
	}
	rd := &c09SegReader{segs: [][]byte{msg[:cut], append(append([]byte(nil), msg[cut:]...), next...)}}
	br := bufio.NewReaderSize(rd, 128)
	var body, trailer []byte
	var err error
	if isResp {
		var resp Response
		err = resp.ReadLimitBody(br, 16)
		body, trailer = resp.Body(), resp.Header.Peek("Foo")
	} else {
		var req Request
		err = req.ReadLimitBody(br, 16)
		body, trailer = req.Body(), req.Header.Peek("Foo")
	}
	vAssert("split-message-is-read", err == nil && string(body) == string(x))
	if withTrailer {
		vAssert("trailer-is-read", string(trailer) == string(x))
	}
	rest, _ := io.ReadAll(br)
	vAssert("nothing-beyond-the-message-is-consumed", string(rest) == "NEXT")
}
