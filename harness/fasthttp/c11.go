package fasthttp

import "net"

// C11 — no request observes state left over from an earlier request.
//
// Non-interference: request 2 is served (a) after an arbitrary request 1 and a
// handler that dirties everything reachable from RequestCtx — on the same
// connection or on an earlier connection of the same Server (pooled contexts,
// readers, streams) — and (b) alone on a fresh Server. What handler 2 observes
// and the response it produces must be identical in (a) and (b), and handler 2
// must run in (a) whenever it runs in (b). No model of the expected values is
// involved: the oracle is the code's own behaviour on the request alone.

// c11Snapshot renders every observable of the request and the default
// response as one string.
func c11Snapshot(ctx *RequestCtx, readCookies bool) string {
	q := &ctx.Request
	p := &ctx.Response
	s := "M=" + string(q.Header.Method()) + " U=" + string(q.RequestURI()) + " P=" + string(ctx.Path()) +
		" H=" + string(q.Header.Host()) + " UA=" + string(q.Header.UserAgent()) + " CT=" + string(q.Header.ContentType()) +
		" proto=" + string(q.Header.Protocol())
	if readCookies {
		s += " cookie-c=" + string(q.Header.Cookie("c"))
	}
	s += " hdrs["
	for k, v := range q.Header.All() {
		s += string(k) + ":" + string(v) + ";"
	}
	s += "] cookies["
	for k, v := range q.Header.Cookies() {
		s += string(k) + "=" + string(v) + ";"
	}
	s += "] body=" + string(ctx.PostBody()) + " q["
	for k, v := range ctx.QueryArgs().All() {
		s += string(k) + "=" + string(v) + "&"
	}
	s += "] post["
	for k, v := range ctx.PostArgs().All() {
		s += string(k) + "=" + string(v) + "&"
	}
	s += "]"
	if ctx.UserValue("k") != nil {
		s += " uservalue!"
	}
	ctx.VisitUserValuesAll(func(any, any) { s += " uservalue-visit!" })
	s += " resp=" + string(p.Header.StatusMessage()) + "/" + string(p.Header.ContentType()) + " ["
	for k, v := range p.Header.All() {
		s += string(k) + ":" + string(v) + ";"
	}
	s += "] rbody=" + string(p.Body())
	if p.StatusCode() != 200 {
		s += " status!"
	}
	if p.Header.ConnectionClose() || q.Header.ConnectionClose() != (string(q.Header.Peek("Connection")) == "close") {
		s += " close!"
	}
	return s
}

func c11Dirty(ctx *RequestCtx, xs string) {
	ctx.SetUserValue("k", "v")
	ctx.SetUserValueBytes([]byte("kb"), 1)
	ctx.Request.Header.Cookie("c") // forces cookie collection
	ctx.PostBody()                 // consume the body (also when it is streamed)
	ctx.PostArgs()
	ctx.QueryArgs().Set("dirty", xs)
	ctx.Request.Header.Set("X-Handler-Set", xs)
	ctx.Request.Header.SetCookie("h", xs)
	ctx.Response.Header.Set("X-Leak", xs)
	ctx.Response.Header.SetCookie(&Cookie{})
	ctx.Response.Header.SetStatusMessage([]byte("Leak"))
	ctx.SetStatusCode(500)
	ctx.SetContentType("x/" + xs)
	ctx.SetBodyString("leak" + xs)
	ctx.HijackSetNoResponse(true) // without Hijack: must not outlive this request
}

// request 1: anything that fills or disturbs per-connection / pooled state.
func c11First(kind int, xs string) (req string, endsConn bool) {
	switch kind {
	case 0:
		return "POST /one?q=" + xs + " HTTP/1.1\r\nHost: a\r\nX-Dirty: " + xs + "\r\nCookie: c=" + xs + "; d=" + xs + "\r\nX-After-Cookie: " + xs + "\r\nContent-Type: application/x-www-form-urlencoded\r\nContent-Length: 4\r\n\r\np=" + xs, false
	case 1:
		return "PUT /one HTTP/1.1\r\nHost: a\r\nTransfer-Encoding: chunked\r\nX-Dirty: " + xs + "\r\n\r\n2\r\n" + xs + "\r\n0\r\n\r\n", false
	case 2:
		return "GET /one?q=" + xs + " HTTP/1.1\r\nHost: a\r\nUser-Agent: " + xs + "\r\nCookie: c=" + xs + "\r\nX-Dirty: " + xs + "\r\nX-Dirty2: " + xs + "\r\n\r\n", false
	case 3:
		return "POST /one HTTP/1.1\r\nHost: a\r\nExpect: 100-continue\r\nContent-Length: 2\r\n\r\n" + xs, false
	case 4:
		// chunked upload that breaks off inside a chunk
		return "POST /one HTTP/1.1\r\nHost: a\r\nTransfer-Encoding: chunked\r\n\r\n1f\r\n" + xs, true
	case 5:
		// malformed head
		return "GET /one HTTP/1.1\r\nHost: a\r\nBroken Header\r\n\r\n", true
	case 6:
		return "GET /one HTTP/1.0\r\nHost: a\r\nConnection: keep-alive\r\nCookie: session=" + xs + "\r\n\r\n", false
	}
	return "", true
}

const c11NumFirst = 7

// request 2: varied shapes, each with two symbolic token bytes.
func c11Second(kind int, ys string) string {
	switch kind {
	case 0:
		return "GET /two?y=" + ys + " HTTP/1.1\r\nHost: b\r\nConnection: close\r\n\r\n"
	case 1:
		return "GET /two HTTP/1.1\r\nHost: b\r\nX-A: " + ys + "\r\nX-B: 2\r\nCookie: " + ys + "; z=1\r\nX-C: 3\r\nX-D: 4\r\nX-E: 5\r\nConnection: close\r\n\r\n"
	case 2:
		return "POST /two HTTP/1.1\r\nHost: b\r\nTransfer-Encoding: chunked\r\nConnection: close\r\n\r\n3\r\n" + ys + "!\r\n0\r\n\r\n"
	case 3:
		return "POST /two HTTP/1.1\r\nHost: b\r\nContent-Type: application/x-www-form-urlencoded\r\nContent-Length: 4\r\nConnection: close\r\n\r\nf=" + ys
	case 4: // value-less arguments, in the query and in the form body
		return "POST /two?" + ys + " HTTP/1.1\r\nHost: b\r\nContent-Type: application/x-www-form-urlencoded\r\nContent-Length: 2\r\nConnection: close\r\n\r\n" + ys
	}
	return ""
}

const c11NumSecond = 5

func vhC11Differential() {
	x := vBytes("x", 2)
	y := vBytes("y", 2)
	for i := range x {
		vAssume(x[i] >= 'a' && x[i] <= 'z') // token bytes: the requests must parse
		vAssume(y[i] >= 'a' && y[i] <= 'z')
	}
	xs, ys := string(x), string(y)
	r1, endsConn := c11First(vChoose("first", c11NumFirst), xs)
	r2 := c11Second(vChoose("second", c11NumSecond), ys)
	reduceMemory := vBool("reduceMemory")
	stream := vBool("stream")
	readCookies := vBool("handler2ReadsCookieFirst")
	expectMode := vChoose("expectCallback", 3) // 0 none, 1 ContinueHandler rejects, 2 ExpectHandler rejects
	mk := func() *Server {
		s := &Server{NoDefaultDate: true, NoDefaultServerHeader: true, ReduceMemoryUsage: reduceMemory, StreamRequestBody: stream}
		switch expectMode {
		case 1:
			s.ContinueHandler = func(*RequestHeader) bool { return false }
		case 2:
			s.ExpectHandler = func(*RequestCtx) int { return StatusExpectationFailed }
		}
		return s
	}

	// (b) request 2 alone on a fresh server
	var snapB string
	callsB := 0
	sb := mk()
	hijack2 := vBool("secondHandlerHijacks")
	sb.Handler = func(ctx *RequestCtx) {
		callsB++
		snapB = c11Snapshot(ctx, readCookies)
		ctx.SetBodyString("ok")
		if hijack2 {
			ctx.Hijack(func(net.Conn) {})
		}
	}
	cb := &vsSegConn{segs: [][]byte{[]byte(r2)}}
	sb.ServeConn(cb)

	// (a) request 1 first
	var snapA string
	calls2 := 0
	sa := mk()
	sa.Handler = func(ctx *RequestCtx) {
		if string(ctx.Path()) == "/one" {
			c11Dirty(ctx, xs)
			return
		}
		calls2++
		snapA = c11Snapshot(ctx, readCookies)
		ctx.SetBodyString("ok")
		if hijack2 {
			ctx.Hijack(func(net.Conn) {})
		}
	}
	sameConn := !endsConn && vBool("sameConnection")
	var ca *vsSegConn
	if sameConn {
		if vBool("oneSegment") {
			ca = &vsSegConn{segs: [][]byte{[]byte(r1 + r2)}}
		} else {
			ca = &vsSegConn{segs: [][]byte{[]byte(r1), []byte(r2)}}
		}
		sa.ServeConn(ca)
	} else {
		sa.ServeConn(&vsSegConn{segs: [][]byte{[]byte(r1)}})
		ca = &vsSegConn{segs: [][]byte{[]byte(r2)}}
		sa.ServeConn(ca)
	}
	vNote("A: " + snapA)
	vNote("B: " + snapB)
	// a connection the server chose to close after request 1 does not carry
	// request 2 at all; that is C02/C10's business, not a leftover
	closedAfterFirst := sameConn && calls2 == 0 && c11ClosedAfterFirst(ca.wrote)
	if !closedAfterFirst {
		vAssert("second-request-dispatched-as-when-alone", calls2 == callsB)
		vAssert("second-request-sees-only-itself", calls2 != 1 || callsB != 1 || snapA == snapB)
		// the response to request 2 is the same bytes
		ra, oka := vsParseResponses(ca.wrote)
		rb, okb := vsParseResponses(cb.wrote)
		same := oka && okb && len(ra) >= 1 && len(rb) == 1
		if same {
			la := ra[len(ra)-1]
			same = la.status == rb[0].status && la.body == rb[0].body && la.close == rb[0].close
		}
		vAssert("second-response-same-as-when-alone", same)
	}
}

// c11ClosedAfterFirst: the first final response on the wire says close.
func c11ClosedAfterFirst(w []byte) bool {
	rs, ok := vsParseResponses(w)
	if !ok {
		return false
	}
	for _, r := range rs {
		if r.status >= 200 {
			return r.close
		}
	}
	return false
}
