package fasthttp

// C11 — no request observes state left over from an earlier request.
// Request 2 is served after a request 1 that fills every part of RequestCtx
// (symbolic header/cookie/body/query bytes) and a handler that dirties the
// response and the user values; what handler 2 sees must be exactly request 2
// and a fresh default response.
func vhC11NoLeftovers() {
	x := vBytes("x", 2)
	for _, c := range x {
		vAssume(c >= 'a' && c <= 'z') // token bytes: request 1 must parse
	}
	xs := string(x)
	var r1 string
	switch vChoose("first", 4) {
	case 0:
		r1 = "POST /one?q=" + xs + " HTTP/1.1\r\nHost: a\r\nX-Dirty: " + xs + "\r\nCookie: c=" + xs + "\r\nContent-Type: application/x-www-form-urlencoded\r\nContent-Length: 4\r\n\r\np=" + xs
	case 1:
		r1 = "PUT /one HTTP/1.1\r\nHost: a\r\nTransfer-Encoding: chunked\r\nX-Dirty: " + xs + "\r\n\r\n2\r\n" + xs + "\r\n0\r\n\r\n"
	case 2:
		r1 = "GET /one?q=" + xs + " HTTP/1.1\r\nHost: a\r\nUser-Agent: " + xs + "\r\nCookie: c=" + xs + "\r\nX-Dirty: " + xs + "\r\n\r\n"
	case 3:
		r1 = "POST /one HTTP/1.1\r\nHost: a\r\nExpect: 100-continue\r\nContent-Length: 2\r\n\r\n" + xs
	}
	r2 := "GET /two?y=1 HTTP/1.1\r\nHost: b\r\nConnection: close\r\n\r\n"
	c := &vsSegConn{}
	if vBool("oneSegment") {
		c.segs = [][]byte{[]byte(r1 + r2)}
	} else {
		c.segs = [][]byte{[]byte(r1), []byte(r2)}
	}
	s := &Server{NoDefaultDate: true, NoDefaultServerHeader: true}
	s.ReduceMemoryUsage = vBool("reduceMemory")
	s.StreamRequestBody = vBool("stream")
	calls := 0
	clean := false
	s.Handler = func(ctx *RequestCtx) {
		calls++
		if calls == 1 {
			ctx.SetUserValue("k", "v")
			ctx.PostBody() // consume the body (also when it is streamed)
			ctx.PostArgs()
			ctx.QueryArgs()
			ctx.Response.Header.Set("X-Leak", xs)
			ctx.Response.Header.SetCookie(&Cookie{})
			ctx.SetStatusCode(500)
			ctx.SetContentType("x/" + xs)
			ctx.SetBodyString("leak" + xs)
			return
		}
		q := &ctx.Request
		p := &ctx.Response
		clean = string(q.Header.Method()) == "GET" &&
			string(q.RequestURI()) == "/two?y=1" &&
			string(ctx.Path()) == "/two" &&
			string(q.Header.Host()) == "b" &&
			q.Header.Peek("X-Dirty") == nil &&
			q.Header.Cookie("c") == nil &&
			len(q.Header.UserAgent()) == 0 &&
			len(q.Header.ContentType()) == 0 &&
			len(q.Body()) == 0 &&
			ctx.QueryArgs().Len() == 1 && string(ctx.QueryArgs().Peek("y")) == "1" &&
			ctx.PostArgs().Len() == 0 &&
			ctx.UserValue("k") == nil &&
			p.StatusCode() == 200 &&
			p.Header.Peek("X-Leak") == nil &&
			p.Header.Len() == 1 && // the default Content-Type only
			string(p.Header.ContentType()) == string(defaultContentType) &&
			len(p.Body()) == 0
		ctx.SetBodyString("ok")
	}
	s.ServeConn(c)
	vAssert("second-request-dispatched", calls == 2)
	vAssert("second-request-sees-only-itself", calls != 2 || clean)
	rs, ok := vsParseResponses(c.wrote)
	n := len(rs)
	vAssert("second-response-fresh", !ok || n == 0 || (rs[n-1].status == 200 && rs[n-1].close))
}
