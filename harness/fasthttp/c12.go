package fasthttp

import (
	"net"
	"time"
)

// C12 — per-IP and concurrency admission: one-step contracts and counter
// balance over sequential open/close histories.

type c12Conn struct {
	ip     net.IP
	wrote  []byte
	closed int
}

func (c *c12Conn) Read(b []byte) (int, error)         { return 0, nil }
func (c *c12Conn) Write(b []byte) (int, error)        { c.wrote = append(c.wrote, b...); return len(b), nil }
func (c *c12Conn) Close() error                       { c.closed++; return nil }
func (c *c12Conn) LocalAddr() net.Addr                { return &net.TCPAddr{IP: net.IPv4(10, 0, 0, 1), Port: 80} }
func (c *c12Conn) RemoteAddr() net.Addr               { return &net.TCPAddr{IP: c.ip, Port: 1234} }
func (c *c12Conn) SetDeadline(t time.Time) error      { return nil }
func (c *c12Conn) SetReadDeadline(t time.Time) error  { return nil }
func (c *c12Conn) SetWriteDeadline(t time.Time) error { return nil }

func c12Has429(b []byte) bool {
	const p = "HTTP/1.1 429 "
	return len(b) >= len(p) && string(b[:len(p)]) == p
}

// vhC12PerIP: K open/close steps over two client addresses with a symbolic
// MaxConnsPerIP; the real counter agrees with the number of open wrapped
// connections after every step, never exceeds the limit, a rejected
// connection got a 429 and was closed, and everything returns to zero.
func vhC12PerIP() {
	K := vParam("steps", 4)
	s := &Server{NoDefaultDate: true, Name: "x"}
	s.MaxConnsPerIP = vIntRange("maxPerIP", 1, 2)
	ips := [2]net.IP{net.IPv4(1, 2, 3, 4), net.IPv4(9, 9, 9, 9)}
	keys := [2]uint32{1<<24 | 2<<16 | 3<<8 | 4, 9<<24 | 9<<16 | 9<<8 | 9}
	var model [2]int
	type open struct {
		c      net.Conn
		raw    *c12Conn
		ip     int
		closed bool
	}
	var conns []*open
	for step := 0; step < K; step++ {
		if len(conns) == 0 || vBool("open") {
			ipi := vChoose("ip", 2)
			raw := &c12Conn{ip: ips[ipi]}
			w := wrapPerIPConn(s, raw)
			if w == nil {
				vAssert("rejected-only-at-limit", model[ipi] == s.MaxConnsPerIP)
				vAssert("rejected-gets-429-and-close", c12Has429(raw.wrote) && raw.closed == 1)
			} else {
				vAssert("admitted-only-below-limit", model[ipi] < s.MaxConnsPerIP)
				model[ipi]++
				conns = append(conns, &open{c: w, raw: raw, ip: ipi})
			}
		} else {
			// a handle is closed once by its owner and dropped (the wrapper
			// object is recycled through a sync.Pool after Close, so a stale
			// handle must not be used again); an immediate second Close is
			// a no-op.
			k := vChoose("which", len(conns))
			o := conns[k]
			o.c.Close()
			o.c.Close()
			model[o.ip]--
			conns = append(conns[:k:k], conns[k+1:]...)
			vAssert("underlying-closed-once", o.raw.closed == 1)
		}
		ok := true
		for i := range keys {
			if s.perIPConnCounter.m[keys[i]] != model[i] || model[i] > s.MaxConnsPerIP {
				ok = false
			}
		}
		vAssert("counter-equals-open-conns", ok)
	}
	for _, o := range conns {
		o.c.Close()
	}
	vAssert("counts-return-to-zero", len(s.perIPConnCounter.m) == 0)
}

// vhC12ConcurrencyStep: tryAcquireConcurrency from an arbitrary counter value
// within the limit admits iff there is room and leaves the counter exact.
func vhC12ConcurrencyStep() {
	s := &Server{}
	s.Concurrency = vIntRange("limit", 1, 1<<20)
	cur := vUint32("current")
	vAssume(int(cur) <= s.Concurrency)
	s.concurrency.Store(cur)
	ok := s.tryAcquireConcurrency()
	vAssert("admit-iff-room", ok == (int(cur) < s.Concurrency))
	if ok {
		vAssert("counter-incremented", s.GetCurrentConcurrency() == cur+1)
		s.releaseConcurrency()
	}
	vAssert("counter-balanced", s.GetCurrentConcurrency() == cur)
}

// vhC12ServeConnBalance: connections served one after the other through the
// real ServeConn with a small Concurrency: a plain request, a hijacking
// request, a malformed request or a silent client. Every connection must be
// admitted (the previous one has given its slot back) and the counters are
// back to zero when all are closed or hijacked-and-released.
func vhC12ServeConnBalance() {
	K := vLen("conns", 1, vParam("conns", 3))
	s := &Server{NoDefaultDate: true, NoDefaultServerHeader: true}
	s.Concurrency = vIntRange("concurrency", 1, 2)
	s.KeepHijackedConns = vBool("keepHijacked")
	handled := 0
	hijackDone := 0
	s.Handler = func(ctx *RequestCtx) {
		handled++
		if string(ctx.Path()) == "/hijack" {
			ctx.Hijack(func(c net.Conn) { hijackDone++ })
		}
		ctx.SetBodyString("ok")
	}
	wantHandled, wantHijacks := 0, 0
	rejected := false
	for i := 0; i < K; i++ {
		var in string
		switch vChoose("kind", 4) {
		case 0:
			in = "GET /plain HTTP/1.1\r\nHost: a\r\nConnection: close\r\n\r\n"
			wantHandled++
		case 1:
			in = "GET /hijack HTTP/1.1\r\nHost: a\r\n\r\n"
			wantHandled++
			wantHijacks++
		case 2:
			in = "BAD\r\n\r\n"
		case 3:
			in = ""
		}
		c := &vsSegConn{}
		if in != "" {
			c.segs = [][]byte{[]byte(in)}
		}
		s.ServeConn(c)
		time.Sleep(10 * time.Millisecond) // let a hijack handler goroutine finish
		if len(c.wrote) >= 12 && string(c.wrote[:12]) == "HTTP/1.1 503" {
			rejected = true
		}
	}
	vAssert("sequential-connections-are-never-rejected", !rejected && handled == wantHandled && hijackDone == wantHijacks)
	vAssert("concurrency-returns-to-zero", s.GetCurrentConcurrency() == 0)
	vAssert("open-counter-balanced", s.open.Load() == 0)
	if vKnown("C12-open-count-minus-one-without-listener") {
		// listed finding: GetOpenConnectionsCount subtracts the unit that a
		// listening Serve adds; a server used only through ServeConn reports -1
		vAssert("open-connections-return-to-zero", s.GetOpenConnectionsCount() == -1)
	} else {
		vAssert("open-connections-return-to-zero", s.GetOpenConnectionsCount() == 0)
	}
}

// vhC12ServeConnOverflow: ServeConn calls that overlap. With Concurrency = 1
// the second (and third) call arrives while the first connection's handler is
// still running and is refused (ErrConcurrencyLimit, 503); once everything has
// returned the counters are back where they started, and a later connection is
// served again.
func vhC12ServeConnOverflow() {
	s := &Server{NoDefaultDate: true, NoDefaultServerHeader: true, Concurrency: 1}
	perIP := vBool("limitIsPerIP")
	refusal := "HTTP/1.1 503"
	if perIP {
		// the overlapping connections come from the address that already has
		// its one allowed connection open: refused with 429, nothing else held
		s.Concurrency = 8
		s.MaxConnsPerIP = 1
		refusal = "HTTP/1.1 429"
	}
	handled := 0
	s.Handler = func(ctx *RequestCtx) {
		handled++
		if string(ctx.Path()) == "/slow" {
			time.Sleep(50 * time.Millisecond)
		}
		ctx.SetBodyString("ok")
	}
	first := &vsSegConn{segs: [][]byte{[]byte("GET /slow HTTP/1.1\r\nHost: a\r\nConnection: close\r\n\r\n")}}
	firstDone := make(chan error, 1)
	go func() { firstDone <- s.ServeConn(first) }()
	time.Sleep(10 * time.Millisecond) // the first handler is running now
	extra := 1 + vChoose("extraOverlapping", 2)
	refused := 0
	for i := 0; i < extra; i++ {
		c := &vsSegConn{segs: [][]byte{[]byte("GET /x HTTP/1.1\r\nHost: a\r\nConnection: close\r\n\r\n")}}
		err := s.ServeConn(c)
		if (err == ErrConcurrencyLimit || perIP) && err != nil && len(c.wrote) >= 12 && string(c.wrote[:12]) == refusal && c.closed == 1 {
			refused++
		}
	}
	err1 := <-firstDone
	vAssert("overlapping-connections-are-refused-with-503-and-closed", refused == extra && err1 == nil && handled == 1)
	vAssert("concurrency-returns-to-zero", s.GetCurrentConcurrency() == 0)
	vAssert("open-counter-balanced", s.open.Load() == 0)
	// and the server serves again
	c := &vsSegConn{segs: [][]byte{[]byte("GET /x HTTP/1.1\r\nHost: a\r\nConnection: close\r\n\r\n")}}
	err := s.ServeConn(c)
	vAssert("served-again-afterwards", err == nil && handled == 2 && s.open.Load() == 0)
}
