package fasthttp

import (
	"net"
	"time"
)

// C12 — per-IP and concurrency admission: one-step contracts and counter
// balance over sequential open/close histories.

type c12Conn struct {
	ip     net.IP
	wrote  []byte
	closed int
}

func (c *c12Conn) Read(b []byte) (int, error)         { return 0, nil }
func (c *c12Conn) Write(b []byte) (int, error)        { c.wrote = append(c.wrote, b...); return len(b), nil }
func (c *c12Conn) Close() error                       { c.closed++; return nil }
func (c *c12Conn) LocalAddr() net.Addr                { return &net.TCPAddr{IP: net.IPv4(10, 0, 0, 1), Port: 80} }
func (c *c12Conn) RemoteAddr() net.Addr               { return &net.TCPAddr{IP: c.ip, Port: 1234} }
func (c *c12Conn) SetDeadline(t time.Time) error      { return nil }
func (c *c12Conn) SetReadDeadline(t time.Time) error  { return nil }
func (c *c12Conn) SetWriteDeadline(t time.Time) error { return nil }

func c12Has429(b []byte) bool {
	const p = "HTTP/1.1 429 "
	return len(b) >= len(p) && string(b[:len(p)]) == p
}

// vhC12PerIP: K open/close steps over two client addresses with a symbolic
// MaxConnsPerIP; the real counter agrees with the number of open wrapped
// connections after every step, never exceeds the limit, a rejected
// connection got a 429 and was closed, and everything returns to zero.
func vhC12PerIP() {
	K := vParam("steps", 4)
	s := &Server{NoDefaultDate: true, Name: "x"}
	s.MaxConnsPerIP = vIntRange("maxPerIP", 1, 2)
	ips := [2]net.IP{net.IPv4(1, 2, 3, 4), net.IPv4(9, 9, 9, 9)}
	keys := [2]uint32{1<<24 | 2<<16 | 3<<8 | 4, 9<<24 | 9<<16 | 9<<8 | 9}
	var model [2]int
	type open struct {
		c      net.Conn
		raw    *c12Conn
		ip     int
		closed bool
	}
	var conns []*open
	for step := 0; step < K; step++ {
		if len(conns) == 0 || vBool("open") {
			ipi := vChoose("ip", 2)
			raw := &c12Conn{ip: ips[ipi]}
			w := wrapPerIPConn(s, raw)
			if w == nil {
				vAssert("rejected-only-at-limit", model[ipi] == s.MaxConnsPerIP)
				vAssert("rejected-gets-429-and-close", c12Has429(raw.wrote) && raw.closed == 1)
			} else {
				vAssert("admitted-only-below-limit", model[ipi] < s.MaxConnsPerIP)
				model[ipi]++
				conns = append(conns, &open{c: w, raw: raw, ip: ipi})
			}
		} else {
			// a handle is closed once by its owner and dropped (the wrapper
			// object is recycled through a sync.Pool after Close, so a stale
			// handle must not be used again); an immediate second Close is
			// a no-op.
			k := vChoose("which", len(conns))
			o := conns[k]
			o.c.Close()
			o.c.Close()
			model[o.ip]--
			conns = append(conns[:k:k], conns[k+1:]...)
			vAssert("underlying-closed-once", o.raw.closed == 1)
		}
		ok := true
		for i := range keys {
			if s.perIPConnCounter.m[keys[i]] != model[i] || model[i] > s.MaxConnsPerIP {
				ok = false
			}
		}
		vAssert("counter-equals-open-conns", ok)
	}
	for _, o := range conns {
		o.c.Close()
	}
	vAssert("counts-return-to-zero", len(s.perIPConnCounter.m) == 0)
}

// vhC12ConcurrencyStep: tryAcquireConcurrency from an arbitrary counter value
// within the limit admits iff there is room and leaves the counter exact.
func vhC12ConcurrencyStep() {
	s := &Server{}
	s.Concurrency = vIntRange("limit", 1, 1<<20)
	cur := vUint32("current")
	vAssume(int(cur) <= s.Concurrency)
	s.concurrency.Store(cur)
	ok := s.tryAcquireConcurrency()
	vAssert("admit-iff-room", ok == (int(cur) < s.Concurrency))
	if ok {
		vAssert("counter-incremented", s.GetCurrentConcurrency() == cur+1)
		s.releaseConcurrency()
	}
	vAssert("counter-balanced", s.GetCurrentConcurrency() == cur)
}
