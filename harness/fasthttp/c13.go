package fasthttp

import (
	"net"
	"runtime"
	"time"
)

// C13 — worker pool: every accepted connection is served exactly once and
// closed; the worker bound holds; idle workers retire; Stop leaves none.

func vhC13WorkerPool() {
	// worker channels are unbuffered when GOMAXPROCS is 1, buffered otherwise
	workerChanCap = vChoose("workerChanCap", 2)
	nconn := vParam("conns", 3)
	served := make([]int, nconn)
	conns := make([]*c12Conn, nconn)
	maxSeen := 0
	hijacked := make([]bool, nconn)
	finals := make([][]ConnState, nconn)
	wp := &workerPool{
		MaxWorkersCount:       vIntRange("maxWorkers", 1, 2),
		MaxIdleWorkerDuration: time.Second,
		Logger:                defaultLogger,
	}
	wp.connState = func(c net.Conn, st ConnState) {
		i := int(c.(*c12Conn).ip[len(c.(*c12Conn).ip)-1])
		finals[i] = append(finals[i], st)
	}
	wp.WorkerFunc = func(c net.Conn) error {
		cc := c.(*c12Conn)
		served[int(cc.ip[len(cc.ip)-1])]++
		wp.lock.Lock()
		if wp.workersCount > maxSeen {
			maxSeen = wp.workersCount
		}
		wp.lock.Unlock()
		vYield()
		if vBool("hijack") {
			hijacked[int(cc.ip[len(cc.ip)-1])] = true
			return errHijacked
		}
		return nil
	}
	wp.Start()
	accepted := make([]bool, nconn)
	for i := 0; i < nconn; i++ {
		conns[i] = &c12Conn{ip: net.IPv4(10, 0, 0, byte(i))}
		accepted[i] = wp.Serve(conns[i])
		if !accepted[i] {
			wp.lock.Lock()
			vAssert("rejected-only-when-all-workers-busy", wp.workersCount == wp.MaxWorkersCount && len(wp.ready) == 0)
			wp.lock.Unlock()
		}
		vYield()
	}
	// let every worker finish
	for k := 0; k < 8*nconn; k++ {
		runtime.Gosched()
	}
	once := true
	for i := 0; i < nconn; i++ {
		want := 0
		if accepted[i] {
			want = 1
		}
		if served[i] != want {
			once = false
		}
	}
	vAssert("served-exactly-once-iff-accepted", once)
	// then closed, or reported hijacked (and left open) — per connection
	endOK := true
	for i := 0; i < nconn; i++ {
		if !accepted[i] {
			continue
		}
		if hijacked[i] {
			if len(finals[i]) != 1 || finals[i][0] != StateHijacked || conns[i].closed != 0 {
				endOK = false
			}
		} else if len(finals[i]) != 1 || finals[i][0] != StateClosed || conns[i].closed != 1 {
			endOK = false
		}
	}
	vAssert("each-connection-closed-or-reported-hijacked", endOK)
	vAssert("worker-bound", maxSeen <= wp.MaxWorkersCount)
	wp.lock.Lock()
	idle := len(wp.ready)
	vAssert("all-workers-idle-after-serving", idle == wp.workersCount && idle <= wp.MaxWorkersCount)
	wp.lock.Unlock()
	if vBool("expire") {
		// idle workers are retired after MaxIdleWorkerDuration
		time.Sleep(3 * time.Second)
		for k := 0; k < 8; k++ {
			runtime.Gosched()
		}
		wp.lock.Lock()
		vAssert("idle-workers-retired", len(wp.ready) == 0 && wp.workersCount == 0)
		wp.lock.Unlock()
	}
	wp.Stop()
	for k := 0; k < 8; k++ {
		runtime.Gosched()
	}
	wp.lock.Lock()
	vAssert("no-worker-after-stop", len(wp.ready) == 0 && wp.workersCount == 0)
	wp.lock.Unlock()
}

// vhC13Lifecycle: timed histories on the virtual clock.
//   - mixed expiry: two workers, one idle since 0.5 s and one used again at
//     1.5 s; the cleanup round at 2 s (MaxIdleWorkerDuration 1 s) retires
//     exactly the stale one, and the next connections are still served once each;
//   - Stop while every worker is busy: when the workers finish, none is left.
func vhC13Lifecycle() {
	workerChanCap = vChoose("workerChanCap", 2)
	served := map[int]int{}
	closed := map[int]*c12Conn{}
	busy := 20 * time.Millisecond
	wp := &workerPool{MaxWorkersCount: 2 + vChoose("extraWorker", 2), MaxIdleWorkerDuration: time.Second, Logger: defaultLogger}
	wp.connState = func(net.Conn, ConnState) {}
	wp.WorkerFunc = func(c net.Conn) error {
		cc := c.(*c12Conn)
		served[int(cc.ip[3])]++
		time.Sleep(busy)
		return nil
	}
	next := 0
	serve := func() bool {
		c := &c12Conn{ip: net.IPv4(10, 0, 0, byte(next)).To4()}
		closed[next] = c
		next++
		return wp.Serve(c)
	}
	wp.Start()
	allAccepted := true
	switch vChoose("scenario", 2) {
	case 0:
		time.Sleep(500 * time.Millisecond)
		allAccepted = serve() && allAccepted // two at once: two workers
		allAccepted = serve() && allAccepted
		time.Sleep(time.Second) // 1.5 s: one of them is used again
		allAccepted = serve() && allAccepted
		time.Sleep(700 * time.Millisecond) // 2.2 s: the cleanup round at 2 s has run
		wp.lock.Lock()
		vAssert("exactly-the-stale-worker-is-retired", len(wp.ready) == 1 && wp.workersCount == 1)
		wp.lock.Unlock()
		n := 1 + vChoose("connectionsAfterCleanup", 2)
		for i := 0; i < n; i++ {
			allAccepted = serve() && allAccepted
		}
		time.Sleep(100 * time.Millisecond)
	case 1:
		n := 1 + vChoose("busyWorkers", 2)
		for i := 0; i < n; i++ {
			allAccepted = serve() && allAccepted
		}
		time.Sleep(5 * time.Millisecond) // every worker is inside WorkerFunc
	}
	wp.Stop()
	time.Sleep(100 * time.Millisecond)
	once := allAccepted
	for i := 0; i < next; i++ {
		if served[i] != 1 || closed[i].closed != 1 {
			once = false
		}
	}
	vAssert("every-connection-served-once-and-closed", once)
	wp.lock.Lock()
	vAssert("no-worker-after-stop", len(wp.ready) == 0 && wp.workersCount == 0)
	wp.lock.Unlock()
}
