package fasthttp

import (
	"net"
	"runtime"
	"time"
)

// C13 — worker pool: every accepted connection is served exactly once and
// closed; the worker bound holds; idle workers retire; Stop leaves none.

func vhC13WorkerPool() {
	nconn := vParam("conns", 3)
	served := make([]int, nconn)
	conns := make([]*c12Conn, nconn)
	maxSeen := 0
	hijacked := make([]bool, nconn)
	finals := make([][]ConnState, nconn)
	wp := &workerPool{
		MaxWorkersCount:       vIntRange("maxWorkers", 1, 2),
		MaxIdleWorkerDuration: time.Second,
		Logger:                defaultLogger,
	}
	wp.connState = func(c net.Conn, st ConnState) {
		i := int(c.(*c12Conn).ip[len(c.(*c12Conn).ip)-1])
		finals[i] = append(finals[i], st)
	}
	wp.WorkerFunc = func(c net.Conn) error {
		cc := c.(*c12Conn)
		served[int(cc.ip[len(cc.ip)-1])]++
		wp.lock.Lock()
		if wp.workersCount > maxSeen {
			maxSeen = wp.workersCount
		}
		wp.lock.Unlock()
		vYield()
		if vBool("hijack") {
			hijacked[int(cc.ip[len(cc.ip)-1])] = true
			return errHijacked
		}
		return nil
	}
	wp.Start()
	accepted := make([]bool, nconn)
	for i := 0; i < nconn; i++ {
		conns[i] = &c12Conn{ip: net.IPv4(10, 0, 0, byte(i))}
		accepted[i] = wp.Serve(conns[i])
		if !accepted[i] {
			wp.lock.Lock()
			vAssert("rejected-only-when-all-workers-busy", wp.workersCount == wp.MaxWorkersCount && len(wp.ready) == 0)
			wp.lock.Unlock()
		}
		vYield()
	}
	// let every worker finish
	for k := 0; k < 8*nconn; k++ {
		runtime.Gosched()
	}
	once := true
	for i := 0; i < nconn; i++ {
		want := 0
		if accepted[i] {
			want = 1
		}
		if served[i] != want {
			once = false
		}
	}
	vAssert("served-exactly-once-iff-accepted", once)
	// then closed, or reported hijacked (and left open) — per connection
	endOK := true
	for i := 0; i < nconn; i++ {
		if !accepted[i] {
			continue
		}
		if hijacked[i] {
			if len(finals[i]) != 1 || finals[i][0] != StateHijacked || conns[i].closed != 0 {
				endOK = false
			}
		} else if len(finals[i]) != 1 || finals[i][0] != StateClosed || conns[i].closed != 1 {
			endOK = false
		}
	}
	vAssert("each-connection-closed-or-reported-hijacked", endOK)
	vAssert("worker-bound", maxSeen <= wp.MaxWorkersCount)
	wp.lock.Lock()
	idle := len(wp.ready)
	vAssert("all-workers-idle-after-serving", idle == wp.workersCount && idle <= wp.MaxWorkersCount)
	wp.lock.Unlock()
	if vBool("expire") {
		// idle workers are retired after MaxIdleWorkerDuration
		time.Sleep(3 * time.Second)
		for k := 0; k < 8; k++ {
			runtime.Gosched()
		}
		wp.lock.Lock()
		vAssert("idle-workers-retired", len(wp.ready) == 0 && wp.workersCount == 0)
		wp.lock.Unlock()
	}
	wp.Stop()
	for k := 0; k < 8; k++ {
		runtime.Gosched()
	}
	wp.lock.Lock()
	vAssert("no-worker-after-stop", len(wp.ready) == 0 && wp.workersCount == 0)
	wp.lock.Unlock()
}
