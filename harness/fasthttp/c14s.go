package fasthttp

import (
	"net"
	"time"
)

// C14 on the listener path: connections accepted by Server.Serve — served by
// the worker pool, refused because Concurrency is exhausted, still open when
// the listener goes away, or open during Shutdown. Every connection's reported
// states form New (Active Idle)* [Active] (Closed | Hijacked): in particular
// every connection reaches a terminal state, whatever ends it.

func c14ValidSequence(seq []ConnState) bool {
	if len(seq) < 2 || seq[0] != StateNew {
		return false
	}
	last := seq[len(seq)-1]
	if last != StateClosed && last != StateHijacked {
		return false
	}
	for i := 1; i+1 < len(seq); i++ {
		want := StateActive
		if i%2 == 0 {
			want = StateIdle
		}
		if seq[i] != want {
			return false
		}
	}
	return true
}

func vhC14ServePath() {
	ln := &vlListener{conns: make(chan net.Conn, 8), done: make(chan struct{})}
	s := &Server{NoDefaultDate: true, NoDefaultServerHeader: true}
	s.ReduceMemoryUsage = vBool("reduceMemory")
	limited := vBool("concurrencyOne")
	if limited {
		s.Concurrency = 1
	}
	states := map[net.Conn][]ConnState{}
	s.ConnState = func(nc net.Conn, st ConnState) { states[nc] = append(states[nc], st) }
	s.Handler = func(ctx *RequestCtx) {
		if string(ctx.Path()) == "/slow" {
			time.Sleep(100 * time.Millisecond)
		}
		ctx.SetBodyString("ok")
	}
	served := make(chan error, 1)
	go func() { served <- s.Serve(ln) }()

	var conns, silent []*vlConn
	open := func(req string) *vlConn {
		c := newVlConn()
		conns = append(conns, c)
		if req == "" {
			silent = append(silent, c)
		}
		ln.conns <- c
		if req != "" {
			c.in <- []byte(req)
		}
		return c
	}
	// a connection whose handler takes 100 ms; while it runs, up to three more
	// arrive (refused when Concurrency is 1, served otherwise)
	open("GET /slow HTTP/1.1\r\nHost: a\r\n\r\n")
	time.Sleep(10 * time.Millisecond)
	more := vChoose("moreConnections", 4)
	for i := 0; i < more; i++ {
		kind := vChoose("kind", 3)
		switch kind {
		case 0:
			open("GET /x HTTP/1.1\r\nHost: a\r\nConnection: close\r\n\r\n")
		case 1:
			open("GET /x HTTP/1.1\r\nHost: a\r\n\r\n") // stays open, idle
		case 2:
			open("") // never sends anything
		}
		time.Sleep(time.Millisecond)
	}
	// how it ends: the listener fails while connections are open and they end
	// later by themselves (client EOF); or Shutdown
	ending := vChoose("ending", 2)
	if vBool("endWhileSlowHandlerRuns") {
		time.Sleep(20 * time.Millisecond)
	} else {
		time.Sleep(200 * time.Millisecond)
	}
	switch ending {
	case 0:
		ln.Close()
		<-served
		time.Sleep(150 * time.Millisecond)
		for _, c := range conns {
			if c.closed == 0 {
				close(c.in) // the client goes away
			}
		}
		silent = nil
		time.Sleep(50 * time.Millisecond)
	case 1:
		// (Shutdown waits for a connection that has not sent anything yet, as
		// documented: those clients go away 30 ms into it)
		go func() {
			time.Sleep(30 * time.Millisecond)
			for _, c := range silent {
				close(c.in)
			}
		}()
		s.Shutdown() //nolint:errcheck
		<-served
		time.Sleep(50 * time.Millisecond)
	}
	allValid, allSeen := true, true
	for _, c := range conns {
		seq, ok := states[c]
		if !ok {
			allSeen = false
			continue
		}
		if !c14ValidSequence(seq) {
			allValid = false
			str := ""
			for _, x := range seq {
				str += x.String() + " "
			}
			vNote("invalid: " + str)
		}
	}
	vAssert("every-accepted-connection-is-reported", allSeen)
	vAssert("every-connection-follows-the-state-machine-to-a-terminal-state", allValid)
}
