package fasthttp

import (
	"errors"
	"io"
	"net"
	"time"
)

// C15 — Shutdown is graceful.
//
// The real Server.Serve (accept loop, worker pool), serve loop and
// ShutdownWithContext on the engine's scheduler with virtual time, over a
// scripted listener and blocking in-memory connections.

type vlConn struct {
	in      chan []byte
	buf     []byte
	wrote   []byte
	closed  int
	closeCh chan struct{}
}

func newVlConn() *vlConn {
	return &vlConn{in: make(chan []byte, 4), closeCh: make(chan struct{})}
}

var errVlClosed = errors.New("vl: use of closed network connection")

func (c *vlConn) Read(b []byte) (int, error) {
	if len(c.buf) == 0 {
		select {
		case d, ok := <-c.in:
			if !ok {
				return 0, io.EOF
			}
			c.buf = d
		case <-c.closeCh:
			return 0, errVlClosed
		}
	}
	n := copy(b, c.buf)
	c.buf = c.buf[n:]
	return n, nil
}

func (c *vlConn) Write(b []byte) (int, error) {
	if c.closed > 0 {
		return 0, errVlClosed
	}
	c.wrote = append(c.wrote, b...)
	return len(b), nil
}

func (c *vlConn) Close() error {
	c.closed++
	if c.closed == 1 {
		close(c.closeCh)
	}
	return nil
}
func (c *vlConn) LocalAddr() net.Addr                { return &net.TCPAddr{IP: net.IPv4(10, 0, 0, 1), Port: 80} }
func (c *vlConn) RemoteAddr() net.Addr               { return &net.TCPAddr{IP: net.IPv4(10, 0, 0, 2), Port: 1234} }
func (c *vlConn) SetDeadline(t time.Time) error      { return nil }
func (c *vlConn) SetReadDeadline(t time.Time) error  { return nil }
func (c *vlConn) SetWriteDeadline(t time.Time) error { return nil }

type vlListener struct {
	conns  chan net.Conn
	done   chan struct{}
	closed int
}

func (l *vlListener) Accept() (net.Conn, error) {
	select {
	case c := <-l.conns:
		return c, nil
	case <-l.done:
		return nil, errVlClosed
	}
}
func (l *vlListener) Close() error {
	l.closed++
	if l.closed == 1 {
		close(l.done)
	}
	return nil
}
func (l *vlListener) Addr() net.Addr { return &net.TCPAddr{IP: net.IPv4(10, 0, 0, 1), Port: 80} }

func vhC15Shutdown() {
	ln := &vlListener{conns: make(chan net.Conn, 4), done: make(chan struct{})}
	running, started, finished := 0, 0, 0
	doneSeen, afterBegin := 0, 0
	slow := [...]time.Duration{0, 300 * time.Millisecond}[vChoose("handlerTakes", 2)]
	var shutdownBegan bool
	s := &Server{NoDefaultDate: true, NoDefaultServerHeader: true}
	s.ReduceMemoryUsage = vBool("reduceMemory")
	if vBool("connStateHookTakesTime") {
		// a ConnState hook that takes 20 ms when a connection goes idle:
		// Shutdown may begin while the serve loop is inside it
		s.ConnState = func(c net.Conn, st ConnState) {
			if st == StateIdle {
				time.Sleep(20 * time.Millisecond)
			}
		}
	}
	waitedForDone, sawDone := 0, 0
	s.Handler = func(ctx *RequestCtx) {
		if string(ctx.Path()) == "/wait-for-done" {
			// second round: a handler that waits to be told about the shutdown
			waitedForDone++
			select {
			case <-ctx.Done():
				sawDone++
			case <-time.After(2 * time.Second):
			}
			ctx.SetBodyString("ok")
			return
		}
		if string(ctx.Path()) == "/idle-after-timeout" {
			// answered through TimeoutError: the connection stays open, idle
			started++
			finished++
			ctx.TimeoutError("took too long")
			return
		}
		running++
		started++
		if slow > 0 {
			time.Sleep(slow)
		}
		if shutdownBegan {
			afterBegin++
			select {
			case <-ctx.Done():
				doneSeen++
			default:
			}
		}
		ctx.SetBodyString("ok-" + string(ctx.Path()))
		running--
		finished++
	}
	served := make(chan error, 1)
	go func() { served <- s.Serve(ln) }()

	// connection 1: one or two pipelined requests, then stays open
	c1 := newVlConn()
	mode := vChoose("conn1", 3) // one request; two pipelined; two, the second sent after the first was answered
	reqs := "GET /a HTTP/1.1\r\nHost: a\r\n\r\n"
	if mode == 1 {
		reqs += "GET /b HTTP/1.1\r\nHost: a\r\n\r\n"
	}
	ln.conns <- c1
	c1.in <- []byte(reqs)
	if mode == 2 {
		go func() {
			time.Sleep(slow + 20*time.Millisecond)
			c1.in <- []byte("GET /b HTTP/1.1\r\nHost: a\r\n\r\n")
		}()
	}
	// connection 2 (optional): served one request, then idle keep-alive
	var c2 *vlConn
	if vBool("idleKeepAliveConn") {
		c2 = newVlConn()
		ln.conns <- c2
		if vBool("answeredByTimeoutError") {
			c2.in <- []byte("GET /idle-after-timeout HTTP/1.1\r\nHost: a\r\n\r\n")
		} else {
			c2.in <- []byte("GET /idle HTTP/1.1\r\nHost: a\r\n\r\n")
		}
	}
	time.Sleep([...]time.Duration{10, 150, 400}[vChoose("shutdownAfter", 3)] * time.Millisecond)
	startedBefore := started
	shutdownBegan = true
	t0 := time.Now()
	err := s.Shutdown()
	took := time.Since(t0)
	time.Sleep(10 * time.Millisecond)
	vAssert("shutdown-returns-nil", err == nil)
	vAssert("listener-closed", ln.closed >= 1)
	servedReturned := false
	select {
	case e := <-served:
		servedReturned = e == nil
	default:
	}
	vAssert("serve-has-returned", servedReturned)
	vAssert("no-handler-still-running", running == 0 && started == finished)
	// every request whose handler started had its response written
	vNote("c1 wire: " + string(c1.wrote))
	rs1, ok1 := vsParseResponses(c1.wrote)
	vAssert("started-requests-were-answered", ok1 && len(rs1) >= 1 && started >= startedBefore)
	answered := len(rs1)
	if c2 != nil {
		rs2, ok2 := vsParseResponses(c2.wrote)
		vAssert("idle-connection-was-answered-then-closed", ok2 && len(rs2) == 1 && c2.closed >= 1)
		answered += len(rs2)
	}
	vAssert("one-response-per-started-handler", answered == started)
	vAssert("connections-closed", c1.closed >= 1)
	vAssert("idle-connections-are-not-waited-for", took <= slow+250*time.Millisecond)
	vAssert("done-channel-closed-once-shutdown-began", doneSeen == afterBegin)
	vAssert("counters-settle", s.GetOpenConnectionsCount() <= 0 && s.GetCurrentConcurrency() == 0)
	if vBool("serveAgain") {
		// the same Server is served and shut down a second time
		ln2 := &vlListener{conns: make(chan net.Conn, 4), done: make(chan struct{})}
		served2 := make(chan error, 1)
		go func() { served2 <- s.Serve(ln2) }()
		c3 := newVlConn()
		ln2.conns <- c3
		c3.in <- []byte("GET /wait-for-done HTTP/1.1\r\nHost: a\r\n\r\n")
		time.Sleep(50 * time.Millisecond)
		err2 := s.Shutdown()
		time.Sleep(10 * time.Millisecond)
		rs3, ok3 := vsParseResponses(c3.wrote)
		vAssert("second-shutdown-is-graceful-too", err2 == nil && ln2.closed >= 1 && ok3 && len(rs3) == 1)
		vAssert("done-is-closed-on-every-shutdown", waitedForDone == 1 && sawDone == 1)
	}
}
