package fasthttp

import (
	"io"
	"net"
	"time"
)

// C16 — timed-out handlers cannot affect what is sent.
//
// The real TimeoutWithCodeHandler and serve loop on the engine's scheduler
// with virtual time. The wrapped handler of request 1 outlives the timeout and
// keeps mutating its RequestCtx at times that fall before, inside and after
// the handling of request 2 on the same connection.

// c16Conn delivers its segments at given (virtual) times.
type c16Conn struct {
	vsSegConn
	at    []time.Duration // earliest delivery time of each segment, since start
	start time.Time
}

func (c *c16Conn) Read(b []byte) (int, error) {
	if c.next < len(c.segs) && c.off == 0 {
		if d := c.at[c.next] - time.Since(c.start); d > 0 {
			time.Sleep(d)
		}
	}
	if c.next >= len(c.segs) {
		return 0, io.EOF
	}
	return c.vsSegConn.Read(b)
}

func vhC16LateHandler() {
	x := vBytes("x", 2)
	for _, b := range x {
		vAssume(b >= 'a' && b <= 'z')
	}
	xs := string(x)
	const T = 100 * time.Millisecond
	// when the abandoned handler wakes up to scribble on its ctx
	late1 := [...]time.Duration{150, 230, 400}[vChoose("firstLateWrite", 3)] * time.Millisecond
	late2 := late1 + [...]time.Duration{20, 200}[vChoose("secondLateWrite", 2)]*time.Millisecond
	secondAt := [...]time.Duration{0, 220}[vChoose("secondRequestAt", 2)] * time.Millisecond
	secondTakes := [...]time.Duration{0, 50}[vChoose("secondHandlerTakes", 2)] * time.Millisecond
	start := time.Now()
	hijackMode := vChoose("lateHandlerHijacks", 3) // 0 no, 1 Hijack, 2 Hijack + HijackSetNoResponse
	hijackRan := false
	earlyClose := vBool("closeFlagSetBeforeTheTimeout")
	inner := func(ctx *RequestCtx) {
		if string(ctx.Path()) == "/slow" {
			if earlyClose {
				// what the abandoned handler did to its own response before it was
				// abandoned does not reach the timeout response either
				ctx.SetConnectionClose()
				ctx.Response.Header.Set("X-Late", xs)
			}
			if hijackMode > 0 {
				// asked for before the timeout fires; the request is then abandoned
				ctx.Hijack(func(c net.Conn) {
					hijackRan = true
					c.Write([]byte("HIJACKED")) //nolint:errcheck
				})
				if hijackMode == 2 {
					ctx.HijackSetNoResponse(true)
				}
			}
			time.Sleep(late1 - time.Since(start))
			ctx.SetStatusCode(201)
			ctx.SetBodyString("late-" + xs)
			ctx.Response.Header.Set("X-Late", xs)
			ctx.SetConnectionClose()
			time.Sleep(late2 - time.Since(start))
			ctx.Response.Header.Set("X-Later", xs)
			ctx.Response.AppendBodyString("later")
			ctx.Request.SetRequestURI("/scribbled")
			return
		}
		time.Sleep(secondTakes)
		ctx.SetBodyString("fast-" + string(ctx.Path()))
	}
	s := &Server{NoDefaultDate: true, NoDefaultServerHeader: true}
	s.ReduceMemoryUsage = vBool("reduceMemory")
	one := vBool("concurrencyOne")
	if one {
		s.Concurrency = 1 // the abandoned handler keeps the only slot until it returns
	}
	s.Handler = TimeoutWithCodeHandler(inner, T, "timed out", StatusServiceUnavailable)
	c := &c16Conn{start: start}
	c.segs = [][]byte{[]byte("GET /slow HTTP/1.1\r\nHost: a\r\n\r\n"), []byte("GET /two HTTP/1.1\r\nHost: a\r\nConnection: close\r\n\r\n")}
	c.at = []time.Duration{0, secondAt}
	s.ServeConn(c)
	time.Sleep(time.Second) // let the abandoned handler finish
	vNote(string(c.wrote))
	rs, ok := vsParseResponses(c.wrote)
	vAssert("two-responses", ok && len(rs) == 2)
	if ok && len(rs) == 2 {
		vAssert("first-is-exactly-the-timeout-response", rs[0].status == StatusServiceUnavailable && rs[0].body == "timed out" && !rs[0].close)
		t2 := T // request 2 is handled when it arrives, not before the timeout response went out
		if secondAt > t2 {
			t2 = secondAt
		}
		if one && late2 > t2 {
			vAssert("excess-wrapped-call-is-answered-429", rs[1].status == StatusTooManyRequests && rs[1].close)
		} else {
			vAssert("second-request-served-normally", rs[1].status == 200 && rs[1].body == "fast-/two" && rs[1].close)
		}
	}
	leaked := vcContains(c.wrote, "X-Late") || vcContains(c.wrote, "late-") || vcContains(c.wrote, "scribbled") || vcContains(c.wrote, "HIJACKED") || hijackRan
	vAssert("nothing-written-later-reaches-the-connection", !leaked)
}

// vhC16TimeoutErrorWithResponse: the handler hands over a response of its own
// through TimeoutErrorWithResponse and then goes on writing into that very
// Response object (body, header, status) — at once or after a while: the
// client receives the response as it was when it was handed over.
func vhC16TimeoutErrorWithResponse() {
	x := vBytes("x", 2)
	for _, b := range x {
		vAssume(b >= 'a' && b <= 'z')
	}
	later := [...]time.Duration{0, 20 * time.Millisecond}[vChoose("handlerWritesAgainAfter", 2)]
	sameLength := vBool("sameLength")
	s := &Server{NoDefaultDate: true, NoDefaultServerHeader: true}
	s.ReduceMemoryUsage = vBool("reduceMemory")
	s.Handler = func(ctx *RequestCtx) {
		if string(ctx.Path()) != "/busy" {
			ctx.SetBodyString("fast")
			return
		}
		var r Response
		r.SetStatusCode(StatusServiceUnavailable)
		r.Header.Set("X-Handed-Over", string(x))
		r.SetBodyString("busy-" + string(x))
		ctx.TimeoutErrorWithResponse(&r)
		scribble := func() {
			if sameLength {
				r.SetBodyString("LATE-" + string(x))
			} else {
				r.SetBodyString("a much longer late write " + string(x))
			}
			r.Header.Set("X-Handed-Over", "late")
			r.SetStatusCode(200)
		}
		if later == 0 {
			scribble()
		} else {
			go func() {
				time.Sleep(later)
				scribble()
			}()
		}
	}
	c := &vsSegConn{segs: [][]byte{[]byte("GET /busy HTTP/1.1\r\nHost: a\r\n\r\n"), []byte("GET /two HTTP/1.1\r\nHost: a\r\nConnection: close\r\n\r\n")}}
	s.ServeConn(c)
	time.Sleep(100 * time.Millisecond)
	vNote(string(c.wrote))
	rs, ok := vsParseResponses(c.wrote)
	vAssert("two-responses", ok && len(rs) == 2)
	if ok && len(rs) == 2 {
		vAssert("client-gets-the-response-as-handed-over", rs[0].status == StatusServiceUnavailable && rs[0].body == "busy-"+string(x) && vcContains(c.wrote, "X-Handed-Over: "+string(x)))
		vAssert("second-request-served-normally", rs[1].status == 200 && rs[1].body == "fast")
	}
}
