package fasthttp

import (
	"io"
	"net"
	"time"
)

// C17 — hijacked connections are handed over intact.
func vhC17Hijack() {
	tail := c05Sym("tail", vParam("tailLen", 3))
	req := "GET /h HTTP/1.1\r\nHost: a\r\n\r\n"
	reqKind := vChoose("request", 3)
	switch reqKind {
	case 1: // a hijacking request with a body
		req = "POST /h HTTP/1.1\r\nHost: a\r\nContent-Length: 2\r\n\r\nxy"
	case 2: // ... announced with Expect: 100-continue
		req = "POST /h HTTP/1.1\r\nHost: a\r\nExpect: 100-continue\r\nContent-Length: 2\r\n\r\nxy"
	}
	c := &vsSegConn{}
	switch vChoose("split", 3) {
	case 0: // trailing bytes already buffered with the request
		c.segs = [][]byte{append([]byte(req), tail...)}
	case 1: // trailing bytes arrive later
		c.segs = [][]byte{[]byte(req)}
		if len(tail) > 0 {
			c.segs = append(c.segs, tail)
		}
	case 2: // first trailing byte buffered, the rest later
		if len(tail) > 1 {
			c.segs = [][]byte{append([]byte(req), tail[0]), tail[1:]}
		} else {
			c.segs = [][]byte{append([]byte(req), tail...)}
		}
	}
	noResp := vBool("noResponse")
	s := &Server{NoDefaultDate: true, NoDefaultServerHeader: true}
	s.KeepHijackedConns = vBool("keepHijacked")
	s.ReduceMemoryUsage = vBool("reduceMemory")
	var got []byte
	wroteAtHijack := -1
	closedAtHijack := -1
	ran := 0
	done := make(chan struct{})
	s.Handler = func(ctx *RequestCtx) {
		ctx.SetBodyString("body")
		if noResp {
			ctx.HijackSetNoResponse(true)
		}
		ctx.Hijack(func(hc net.Conn) {
			ran++
			wroteAtHijack = len(c.wrote)
			closedAtHijack = c.closed
			got, _ = io.ReadAll(hc)
			close(done)
		})
	}
	err := s.ServeConn(c)
	select { // let the hijack goroutine run to completion
	case <-done:
	case <-time.After(time.Second):
	}
	time.Sleep(10 * time.Millisecond) // the server closes the connection after the handler returns
	vAssert("hijack-handler-ran-once", ran == 1 && err == nil)
	vAssert("trailing-bytes-delivered-in-order", string(got) == string(tail))
	rs, ok := vsParseResponses(c.wrote)
	if noResp {
		vAssert("no-response-when-suppressed", ok && len(c02Final(rs)) == 0)
	} else {
		fin := c02Final(rs)
		vAssert("response-complete-before-hijack", ok && len(fin) == 1 && fin[0].status == 200 && wroteAtHijack == len(c.wrote))
	}
	vAssert("not-closed-before-handler", closedAtHijack == 0)
	if s.KeepHijackedConns {
		vAssert("kept-open", c.closed == 0)
	} else {
		vAssert("closed-after-handler", c.closed == 1)
	}
}

// c17Conn records the read deadline the server leaves on the connection.
type c17Conn struct {
	vsSegConn
	readDeadline time.Time
	deadlineSets int
}

func (c *c17Conn) SetDeadline(t time.Time) error {
	c.readDeadline = t
	c.deadlineSets++
	return nil
}
func (c *c17Conn) SetReadDeadline(t time.Time) error {
	c.readDeadline = t
	c.deadlineSets++
	return nil
}

// vhC17HijackAfterOtherRequests: the hijacking request is not the first on
// its connection — an ordinary request, or one whose handler called
// HijackSetNoResponse(true) without hijacking, came before it — and the
// request may carry a per-request read timeout (HeaderReceived): the hijacked
// request still gets its response, and the hijack handler receives a
// connection without a read deadline left over from the server.
func vhC17HijackAfterOtherRequests() {
	first := vChoose("firstRequest", 3) // none, ordinary, sets NoResponse without hijacking
	perRequestTimeout := vBool("perRequestReadTimeout")
	c := &c17Conn{}
	if first > 0 {
		c.segs = append(c.segs, []byte("GET /first HTTP/1.1\r\nHost: a\r\n\r\n"))
	}
	c.segs = append(c.segs, []byte("GET /h HTTP/1.1\r\nHost: a\r\n\r\n"), []byte("later-bytes"))
	s := &Server{NoDefaultDate: true, NoDefaultServerHeader: true}
	s.ReduceMemoryUsage = vBool("reduceMemory")
	if perRequestTimeout {
		s.HeaderReceived = func(h *RequestHeader) RequestConfig {
			return RequestConfig{ReadTimeout: time.Second}
		}
	}
	var got []byte
	deadlineAtHijack := time.Time{}
	wroteAtHijack := 0
	ran := 0
	done := make(chan struct{})
	s.Handler = func(ctx *RequestCtx) {
		if string(ctx.Path()) == "/first" {
			if first == 2 {
				ctx.HijackSetNoResponse(true) // but no Hijack: this request is answered normally
			}
			ctx.SetBodyString("first")
			return
		}
		ctx.SetBodyString("hijacked")
		ctx.Hijack(func(hc net.Conn) {
			ran++
			deadlineAtHijack = c.readDeadline
			wroteAtHijack = len(c.wrote)
			got, _ = io.ReadAll(hc)
			close(done)
		})
	}
	s.ServeConn(c)
	select {
	case <-done:
	case <-time.After(time.Second):
	}
	vAssert("hijack-handler-ran-once", ran == 1)
	vAssert("later-bytes-reach-the-hijack-handler", string(got) == "later-bytes")
	rs, ok := vsParseResponses(c.wrote[:wroteAtHijack])
	want := 1
	if first > 0 {
		want = 2
	}
	vAssert("every-request-answered-before-the-hijack", ok && len(c02Final(rs)) == want && rs[len(rs)-1].body == "hijacked")
	vAssert("no-read-deadline-left-on-the-hijacked-connection", deadlineAtHijack.IsZero())
}
