package fasthttp

import (
	"time"
)

// C18 — HostClient connection pool respects MaxConns and keeps exact accounting.
//
// The real HostClient (AcquireConn / ReleaseConn / CloseConn / decConnsCount /
// dialConnFor / wantConn queue) with K concurrent Do calls as goroutines on
// the engine's scheduler (virtual time); the scripted network yields inside
// Dial and before answering, so the calls interleave at those points and at
// every blocking operation of the pool itself.

func vhC18Pool() {
	K := vParam("calls", 2)
	M := vIntRange("maxConns", 1, 2)
	wait := vBool("maxConnWaitTimeout")
	hc := &HostClient{Addr: "a.co:80", MaxConns: M}
	if wait {
		hc.MaxConnWaitTimeout = 500 * time.Millisecond
	}
	live, maxLive := 0, 0
	lentTwice := false
	nw := &vcNet{}
	nw.onDial = func(k int, addr string) *vcConn {
		vYield()
		fails := vBool("dialFails")
		if wait && vBool("dialSlow") {
			time.Sleep(600 * time.Millisecond) // longer than a waiter is willing to wait
		}
		if fails {
			return nil
		}
		live++
		if live > maxLive {
			maxLive = live
		}
		c := &vcConn{}
		c.onClose = func() { live-- }
		c.more = func(c *vcConn) {
			if reqsWritten(c) <= len(c.segs) {
				return
			}
			vYield() // the server takes its time: other calls run meanwhile
			if vBool("serverCloses") {
				c.segs = append(c.segs, []byte("HTTP/1.1 200 OK\r\nConnection: close\r\nContent-Length: 2\r\n\r\nok"))
			} else {
				c.segs = append(c.segs, []byte("HTTP/1.1 200 OK\r\nContent-Length: 2\r\n\r\nok"))
			}
		}
		return c
	}
	hc.Dial = nw.Dial
	type res struct {
		err     error
		elapsed time.Duration
	}
	results := make([]res, K)
	done := make(chan int, K)
	start := time.Now()
	for i := 0; i < K; i++ {
		i := i
		go func() {
			var req Request
			var resp Response
			req.SetRequestURI("http://a.co/r")
			err := hc.Do(&req, &resp)
			results[i] = res{err, time.Since(start)}
			done <- i
		}()
	}
	for i := 0; i < K; i++ {
		<-done
	}
	// a connection is in use from the write of a request until its response
	// has been handed over; two requests on it without a response in between
	// means it was lent twice
	for _, c := range nw.conns {
		if reqsWritten(c) > len(c.segs)+0 && reqsWritten(c)-c.next > 1 {
			lentTwice = true
		}
	}
	vAssert("never-more-than-MaxConns-connections", maxLive <= M)
	vAssert("no-connection-lent-to-two-requests", !lentTwice)
	okOutcome := true
	for _, r := range results {
		switch r.err {
		case nil, ErrNoFreeConns, ErrTimeout, errVcDial, ErrConnectionClosed:
		default:
			okOutcome = false
		}
		if r.elapsed > 1300*time.Millisecond {
			okOutcome = false // at most one slow dial of its own plus one wait timeout
		}
	}
	vAssert("every-call-ends-with-a-connection-or-a-documented-error", okOutcome)
	time.Sleep(time.Second) // dials started on behalf of waiters that gave up finish now
	vAssert("idle-plus-lent-equals-count", hc.ConnsCount() == len(hc.conns) && hc.ConnsCount() == live)
	hc.CloseIdleConnections()
	closedAll := true
	for _, c := range nw.conns {
		if c.closed != 1 {
			closedAll = false
		}
	}
	vAssert("count-returns-to-zero", hc.ConnsCount() == 0 && closedAll && hc.PendingRequests() == 0)
}
