package fasthttp

import (
	"bytes"
	"time"
)

// C19 — client retries are bounded and respect idempotency.
//
// The real HostClient.Do / DoTimeout with the real transport.RoundTrip on the
// scripted network of client.go. Every dial draws the next fault from the
// fault alphabet; each attempt consumes a chosen amount of (virtual) time.
// The four clauses of the property are asserted on the transmissions the
// scripted network observed.

var c19Methods = [...]string{"GET", "HEAD", "PUT", "POST", "DELETE", "PATCH"}

const (
	c19Oversized = vcNumFaults + iota // well-formed response whose body exceeds MaxResponseBodySize
	c19DialErr
	c19OversizedChunked // the same, chunked
	c19OversizedIdentity // the same, delimited by the close, arriving in reads no larger than the limit
	)

var c19Delays = [...]time.Duration{0, 300 * time.Millisecond, 1100 * time.Millisecond}

// c19Run drives one HostClient call. faults: the per-dial alphabet; the
// remaining arguments select which dimensions are explored.
func c19Run(faults []int, methods []string, attemptsLo, attemptsHi int, callbacks []int, withTimeout bool) {
	hc := &HostClient{Addr: "a.co:80", MaxResponseBodySize: 4}
	if attemptsLo == attemptsHi {
		hc.MaxIdemponentCallAttempts = attemptsLo
	} else {
		hc.MaxIdemponentCallAttempts = vIntRange("MaxIdemponentCallAttempts", attemptsLo, attemptsHi)
	}
	limit := hc.MaxIdemponentCallAttempts
	if limit <= 0 {
		limit = 5
	}
	method := methods[vChoose("method", len(methods))]
	idem := method == "GET" || method == "HEAD" || method == "PUT"
	const T = time.Second

	// callbacks: 0 none, 1 RetryIf, 2 RetryIfErr, 3 RetryIfErrUpstream
	cb := callbacks[vChoose("callbacks", len(callbacks))]
	cbAllowed := false // some callback said "retry"
	lastReset := time.Now()
	switch cb {
	case 1:
		hc.RetryIf = func(*Request) bool {
			r := vBool("retryIf")
			if r {
				cbAllowed = true
			}
			return r
		}
	case 2:
		hc.RetryIfErr = func(_ *Request, attempts int, err error) (bool, bool) {
			reset, retry := vBool("resetTimeout"), vBool("retryIfErr")
			if retry {
				cbAllowed = true
			}
			if reset && retry {
				lastReset = time.Now()
			}
			return reset, retry
		}
	case 3: // the same answers through RetryIfErrUpstream
		hc.RetryIfErrUpstream = func(_ *Request, attempts int, err error, upstream string) (bool, bool) {
			reset, retry := vBool("resetTimeout"), vBool("retryIfErr")
			if retry {
				cbAllowed = true
			}
			if reset && retry {
				lastReset = time.Now()
			}
			return reset, retry
		}
	}

	type tx struct {
		kind  int
		begin time.Duration // since the last timeout reset
	}
	var txs []tx
	nw := &vcNet{}
	nw.onDial = func(k int, addr string) *vcConn {
		kind := faults[vChoose("fault", len(faults))]
		if kind == c19DialErr {
			return nil
		}
		c := &vcConn{}
		if withTimeout {
			c.delay = c19Delays[vChoose("delay", len(c19Delays))]
		}
		txs = append(txs, tx{kind: kind, begin: time.Since(lastReset)})
		switch kind {
		case c19Oversized:
			c.segs = [][]byte{[]byte("HTTP/1.1 200 OK\r\nContent-Length: 9\r\n\r\n123456789")}
		case c19OversizedChunked:
			c.segs = [][]byte{[]byte("HTTP/1.1 200 OK\r\nTransfer-Encoding: chunked\r\n\r\n9\r\n123456789\r\n0\r\n\r\n")}
		case c19OversizedIdentity:
			c.segs = [][]byte{[]byte("HTTP/1.1 200 OK\r\nConnection: close\r\n\r\n"), []byte("123"), []byte("456"), []byte("789")}
		case vcOK:
			c.segs = [][]byte{[]byte("HTTP/1.1 200 OK\r\nContent-Length: 2\r\n\r\nhi")}
		default:
			c.fault = kind
		}
		return c
	}
	hc.Dial = nw.Dial

	var req Request
	var resp Response
	req.SetRequestURI("http://a.co/x")
	req.Header.SetMethod(method)
	bodyStream := false
	if !idem || method == "PUT" {
		if vBool("bodyStream") {
			bodyStream = true
			req.SetBodyStream(bytes.NewReader([]byte("abc")), 3)
		} else {
			req.SetBodyString("abc")
		}
	}
	var err error
	if withTimeout {
		err = hc.DoTimeout(&req, &resp, T)
	} else {
		err = hc.Do(&req, &resp)
	}

	n := nw.transmissions()
	vAssert("at-most-MaxIdemponentCallAttempts-transmissions", n <= limit && nw.dials <= limit)
	vAssert("non-idempotent-sent-once-unless-callback-allows", idem || n <= 1 || cbAllowed)
	vAssert("body-stream-never-retried", !bodyStream || nw.dials <= 1)
	overs, late := true, true
	for i, t := range txs {
		if (t.kind == c19Oversized || t.kind == c19OversizedChunked || t.kind == c19OversizedIdentity) && i != len(txs)-1 {
			overs = false
		}
		if withTimeout && t.begin >= T {
			late = false
		}
	}
	vAssert("oversized-response-never-retried", overs && (len(txs) == 0 || (txs[len(txs)-1].kind != c19Oversized && txs[len(txs)-1].kind != c19OversizedChunked && txs[len(txs)-1].kind != c19OversizedIdentity) || err == ErrBodyTooLarge || method == "HEAD"))
	vAssert("never-more-than-the-limit-handed-to-the-caller", len(resp.Body()) <= hc.MaxResponseBodySize || err != nil)
	vAssert("no-transmission-after-the-timeout", late)
	// a successful exchange is returned as such
	if len(txs) > 0 && txs[len(txs)-1].kind == vcOK && nw.dials == len(txs) {
		vAssert("success-is-returned", err == nil && resp.StatusCode() == 200)
	}
	vAssert("pending-requests-balanced", hc.PendingRequests() == 0)
}

// vhC19Faults: every method × MaxIdemponentCallAttempts ∈ [-1, maxAttempts]
// (symbolic) × every fault sequence, no callbacks, no timeout.
func vhC19Faults() {
	faults := []int{vcOK, vcWriteErr, vcEOF, vcReadTimeout, c19Oversized, c19DialErr, c19OversizedChunked, c19OversizedIdentity}
	if vParam("resetFault", 0) > 0 {
		faults = append(faults, vcReadReset)
	}
	c19Run(faults, c19Methods[:], -1, vParam("maxAttempts", 3), []int{0}, false)
}

// vhC19Callbacks: RetryIf / RetryIfErr with arbitrary answers per call.
func vhC19Callbacks() {
	c19Run([]int{vcOK, vcWriteErr, vcEOF, c19Oversized}, []string{"GET", "POST"}, 1, vParam("maxAttempts", 3), []int{1, 2, 3}, false)
}

// vhC19Timeout: DoTimeout with attempts that consume 0 / 0.3 / 1.1 timeouts
// of (virtual) time each; RetryIfErr may reset the timeout.
func vhC19Timeout() {
	if vBool("withRetryIfErr") {
		c19Run([]int{vcOK, vcEOF, vcReadTimeout}, []string{"GET"}, 3, 3, []int{2, 3}, true)
	} else {
		c19Run([]int{vcOK, vcEOF, vcReadTimeout}, []string{"GET"}, -1, -1, []int{0}, true)
	}
}
