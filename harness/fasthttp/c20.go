package fasthttp

import (
	"bufio"
	"bytes"
)

// C20 — redirects never leak credentials to other hosts.

type c20Hop struct {
	host    string
	method  string
	hasAuth bool
	hasCk   bool
	hasBody bool
	hasCL   bool
}

type c20Doer struct {
	hops      []c20Hop
	statuses  []int
	locations [][]byte
}

func (d *c20Doer) Do(req *Request, resp *Response) error {
	i := len(d.hops)
	// what would go on the wire for this hop (a copy: Write finalises headers)
	var cp Request
	req.CopyTo(&cp)
	var wb bytes.Buffer
	bw := bufio.NewWriter(&wb)
	cp.Write(bw) //nolint:errcheck
	bw.Flush()
	wire := wb.Bytes()
	wireBody := false
	for k := 0; k+3 < len(wire); k++ {
		if string(wire[k:k+4]) == "\r\n\r\n" {
			wireBody = k+4 < len(wire)
			break
		}
	}
	d.hops = append(d.hops, c20Hop{
		host:    string(req.URI().Host()),
		method:  string(req.Header.Method()),
		hasAuth: len(req.Header.Peek(HeaderAuthorization)) > 0 || len(req.Header.Peek(HeaderProxyAuthorization)) > 0,
		hasCk:   len(req.Header.Peek(HeaderCookie)) > 0,
		hasBody: len(req.Body()) > 0 || wireBody,
		hasCL:   len(req.Header.Peek(HeaderContentLength)) > 0 || len(req.Header.Peek(HeaderTransferEncoding)) > 0 || len(req.Header.Peek(HeaderContentType)) > 0,
	})
	resp.Reset()
	if i < len(d.statuses) {
		resp.SetStatusCode(d.statuses[i])
		resp.Header.SetBytesV(HeaderLocation, d.locations[i])
	} else {
		resp.SetStatusCode(200)
	}
	return nil
}

// refTrustedHost: the redirect target host (as the client will dial it,
// without port, ASCII case-insensitive) is the initial host or a subdomain.
func c20Trusted(hostport string, initial string) bool {
	h := hostport
	// strip a port
	for i := len(h) - 1; i >= 0; i-- {
		if h[i] == ':' {
			h = h[:i]
			break
		}
		if h[i] < '0' || h[i] > '9' {
			break
		}
	}
	if c05FoldEq([]byte(h), initial) {
		return true
	}
	if len(h) > len(initial) && h[len(h)-len(initial)-1] == '.' && c05FoldEq([]byte(h[len(h)-len(initial):]), initial) {
		for i := 0; i < len(h); i++ {
			if h[i] == ':' || h[i] == '%' {
				return false
			}
		}
		return true
	}
	return false
}

var c20Statuses = [...]int{301, 302, 303, 307, 308}
var c20Suffix = [...]string{"", "a.co", ".a.co", "xa.co", ".a"}
var c20Port = [...]string{"", ":81"}
var c20Prefix = [...]string{"http://", "https://", "//", "HTTP://u:p@"}

func vhC20Redirects() {
	const initial = "a.co"
	hops := vLen("redirects", 1, vParam("redirects", 2))
	d := &c20Doer{}
	for i := 0; i < hops; i++ {
		d.statuses = append(d.statuses, c20Statuses[vChoose("status", len(c20Statuses))])
		var loc []byte
		if vBool("relative") {
			loc = []byte("/next")
		} else {
			hb := c05Sym("host", vParam("hostLen", 2))
			for _, c := range hb {
				// host label bytes (letters, digits, '-', '.'): other bytes make the URI invalid or change its structure
				vAssume((c >= 'a' && c <= 'z') || (c >= 'A' && c <= 'Z') || (c >= '0' && c <= '9') || c == '-' || c == '.')
			}
			loc = append([]byte(c20Prefix[vChoose("prefix", len(c20Prefix))]), hb...)
			loc = append(loc, c20Suffix[vChoose("suffix", len(c20Suffix))]...)
			loc = append(loc, c20Port[vChoose("port", len(c20Port))]...)
			loc = append(loc, "/p"...)
		}
		d.locations = append(d.locations, loc)
	}
	var req Request
	var resp Response
	postMode := vChoose("post", 3) // none, raw body, form arguments
	post := postMode > 0
	switch postMode {
	case 1:
		req.Header.SetMethod(MethodPost)
		req.SetBodyString("secret-body")
		req.Header.SetContentType("text/plain")
	case 2:
		req.Header.SetMethod(MethodPost)
		req.PostArgs().Set("secret", "form")
	}
	req.Header.Set(HeaderAuthorization, "Bearer t")
	req.Header.Set(HeaderCookie, "sid=1")
	maxRedirects := vIntRange("maxRedirects", 0, 2)
	_, _, err := doRequestFollowRedirects(&req, &resp, "http://"+initial+"/start", maxRedirects, d)
	leak := false
	for _, h := range d.hops {
		if (h.hasAuth || h.hasCk) && !c20Trusted(h.host, initial) {
			leak = true
		}
	}
	vAssert("no-credentials-to-untrusted-host", !leak)
	vAssert("redirect-count-bounded", len(d.hops) <= maxRedirects+1 && (err == nil || len(d.hops) <= maxRedirects+1))
	okMethod := true
	for i := 1; i < len(d.hops); i++ {
		st := d.statuses[i-1]
		h := d.hops[i]
		if st == 303 && (h.method != MethodGet && h.method != MethodHead || h.hasBody || h.hasCL) {
			okMethod = false
		}
		if post && i == 1 && (st == 301 || st == 302) && h.method != MethodGet {
			okMethod = false
		}
	}
	vAssert("303-and-post-rewrites", okMethod)
}

// vhC20Chain: chains of two or three redirects over a menu of hosts built
// around the initial one (subdomains, look-alikes, prefixes and suffixes of
// earlier hosts, longer and shorter names), with a fresh Request or one that
// has been used before for a long host name: whether a host is trusted is
// decided against the *initial* host at every hop.
var c20ChainHosts = [...]string{"a.co", "xy.a.co", "xy.a", "a.c", "co", "xa.co", "z.xy.a.co", "xy.a.co.evil.io", "A.CO"}

func vhC20Chain() {
	const initial = "a.co"
	hops := 2 + vChoose("thirdHop", 2)
	d := &c20Doer{}
	for i := 0; i < hops; i++ {
		d.statuses = append(d.statuses, [...]int{302, 307}[vChoose("status", 2)])
		d.locations = append(d.locations, []byte("http://"+c20ChainHosts[vChoose("host", len(c20ChainHosts))]+"/p"))
	}
	var req Request
	var resp Response
	if vBool("requestUsedBefore") {
		req.SetRequestURI("http://a-rather-long-host-name.example.org/earlier")
		req.URI().Host()
		req.Reset()
	}
	req.Header.Set(HeaderAuthorization, "Bearer t")
	req.Header.Set(HeaderCookie, "sid=1")
	_, _, err := doRequestFollowRedirects(&req, &resp, "http://"+initial+"/start", 3, d)
	leak := false
	for _, h := range d.hops {
		if (h.hasAuth || h.hasCk) && !c20Trusted(h.host, initial) {
			leak = true
		}
	}
	vAssert("no-credentials-to-untrusted-host", !leak)
	vAssert("chain-followed", err == nil && len(d.hops) == hops+1)
}
