package fasthttp

// C21 — https requests are never sent over a plaintext connection.
//
// The real Client / HostClient (host-client maps per scheme, dialAddr, the
// scheme check) on the scripted network; crypto/tls is the engine's
// transparent model (engine/interp/intr_tls.go): tls.Client wraps the raw
// connection and tells it the ServerName, and bytes written inside TLS are
// recorded apart from bytes written to the raw connection.

import (
	"crypto/tls"
	"net"
	"time"
)

func c21Serve(nw *vcNet) {
	nw.onDial = func(k int, addr string) *vcConn {
		c := &vcConn{}
		c.more = func(c *vcConn) {
			c.segs = append(c.segs, []byte("HTTP/1.1 200 OK\r\nContent-Length: 2\r\n\r\nok"))
		}
		return c
	}
}

// c21Scheme returns 4 or 5 arbitrary ASCII letters.
func c21Scheme(name string) []byte {
	n := 4 + vChoose(name+"Len", 2)
	b := vBytes(name, n)
	for _, c := range b {
		vAssume((c >= 'a' && c <= 'z') || (c >= 'A' && c <= 'Z'))
	}
	return b
}

func c21Lower(b []byte) string {
	out := make([]byte, len(b))
	for i, c := range b {
		if c >= 'A' && c <= 'Z' {
			c += 32
		}
		out[i] = c
	}
	return string(out)
}

// c21Check: where did the request with this marker path travel?
func c21Check(nw *vcNet, path, scheme, host string, err error) {
	inTLS, raw := false, false
	okTLSConn, okPlainConn := true, true
	for _, c := range nw.conns {
		if vcContains(c.tlsWrote, path) {
			inTLS = true
			if !c.tls || c.serverName != host || c.addr != host+":443" {
				okTLSConn = false
			}
		}
		if vcContains(c.wrote, path) {
			raw = true
			if c.tls || c.addr != host+":80" {
				okPlainConn = false
			}
		}
	}
	switch scheme {
	case "https":
		vAssert("https-request-never-on-a-raw-connection", !raw)
		if vSymbolic() {
			vAssert("https-request-inside-tls-to-its-own-host", okTLSConn && (inTLS || err != nil))
		}
	case "http":
		vAssert("http-request-never-on-a-tls-connection", !inTLS && okPlainConn)
		vAssert("http-request-delivered-or-error", raw || err != nil)
	default:
		vAssert("other-schemes-are-refused-without-transmission", err != nil && !raw && !inTLS)
	}
}

// vhC21ClientSchemes: two requests through one Client for the same or
// different hosts, each with an arbitrary 4-5 letter scheme.
func vhC21ClientSchemes() {
	nw := &vcNet{}
	c21Serve(nw)
	cl := &Client{Dial: nw.Dial}
	if vBool("dialThroughDialTimeout") {
		// the same scripted network handed over through the DialTimeout option
		cl = &Client{DialTimeout: func(addr string, _ time.Duration) (net.Conn, error) { return nw.Dial(addr) }}
	}
	if vBool("sharedTLSConfig") {
		// one TLS configuration (without a ServerName) for every host of the Client
		cl.TLSConfig = &tls.Config{MinVersion: tls.VersionTLS12}
	}
	hosts := [...]string{"a.co", "b.co"}
	for i := 0; i < 2; i++ {
		var scheme []byte
		if i == 0 {
			scheme = c21Scheme("scheme")
		} else {
			scheme = []byte([...]string{"http", "https", "HTTPS", "ftp"}[vChoose("scheme2", 4)])
		}
		host := hosts[0]
		if i == 1 && vBool("otherHost") {
			host = hosts[1]
		}
		path := "/marker" + string(rune('0'+i))
		var req Request
		var resp Response
		req.SetRequestURI(string(scheme) + "://" + host + path)
		err := cl.Do(&req, &resp)
		c21Check(nw, path, c21Lower(scheme), host, err)
	}
}

// vhC21HostClient: a HostClient refuses requests whose scheme does not match
// its IsTLS setting.
func vhC21HostClient() {
	nw := &vcNet{}
	c21Serve(nw)
	isTLS := vBool("isTLS")
	addr := "a.co:80"
	if isTLS {
		addr = "a.co:443"
	}
	if isTLS && vBool("addressWithoutServerName") {
		// no TLS server name can be derived from this address and none is
		// configured: such a client can never connect, and must not fall back
		// to plaintext on a later attempt
		hc := &HostClient{Addr: "::1", IsTLS: true, Dial: nw.Dial}
		for i := 0; i < 3; i++ {
			var req Request
			var resp Response
			req.SetRequestURI("https://a.co/marker0")
			hc.Do(&req, &resp) //nolint:errcheck
		}
		raw := false
		for _, c := range nw.conns {
			if vcContains(c.wrote, "/marker0") {
				raw = true
			}
		}
		vAssert("https-request-never-on-a-raw-connection", !raw)
		return
	}
	hc := &HostClient{Addr: addr, IsTLS: isTLS, Dial: nw.Dial}
	if vBool("dialThroughDialTimeout") {
		hc.Dial = nil
		hc.DialTimeout = func(addr string, _ time.Duration) (net.Conn, error) { return nw.Dial(addr) }
	}
	scheme := c21Scheme("scheme")
	var req Request
	var resp Response
	req.SetRequestURI(string(scheme) + "://a.co/marker0")
	err := hc.Do(&req, &resp)
	ls := c21Lower(scheme)
	// a HostClient only distinguishes https from everything else
	match := (ls == "https") == isTLS
	if !match {
		raw, inTLS := false, false
		for _, c := range nw.conns {
			if vcContains(c.wrote, "/marker0") {
				raw = true
			}
			if vcContains(c.tlsWrote, "/marker0") {
				inTLS = true
			}
		}
		vAssert("mismatching-scheme-is-refused-without-transmission", err != nil && !raw && !inTLS)
		if ls == "https" || ls == "http" {
			vAssert("mismatch-error-is-the-documented-one", err == ErrHostClientRedirectToDifferentScheme)
		}
	} else {
		if ls != "https" {
			ls = "http" // a plaintext HostClient sends any non-https scheme in the clear
		}
		c21Check(nw, "/marker0", ls, "a.co", err)
	}
}

// vhC21Redirect: DoRedirects across schemes (http → https and https → http).
func vhC21Redirect() {
	nw := &vcNet{}
	toTLS := vBool("redirectToHTTPS")
	first, second := "http", "https"
	if !toTLS {
		first, second = "https", "http"
	}
	nw.onDial = func(k int, addr string) *vcConn {
		c := &vcConn{}
		c.more = func(c *vcConn) {
			if vcContains(c.wrote, "/marker0") || vcContains(c.tlsWrote, "/marker0") {
				c.segs = append(c.segs, []byte("HTTP/1.1 302 Found\r\nLocation: "+second+"://a.co/marker1\r\nContent-Length: 0\r\n\r\n"))
			} else {
				c.segs = append(c.segs, []byte("HTTP/1.1 200 OK\r\nContent-Length: 2\r\n\r\nok"))
			}
		}
		return c
	}
	cl := &Client{Dial: nw.Dial}
	var req Request
	var resp Response
	req.SetRequestURI(first + "://a.co/marker0")
	err := cl.DoRedirects(&req, &resp, 3)
	c21Check(nw, "/marker0", first, "a.co", err)
	c21Check(nw, "/marker1", second, "a.co", err)
	if vSymbolic() {
		vAssert("redirect-followed", err == nil && resp.StatusCode() == 200)
	}
}
