package fasthttp

import (
	"bufio"
	"bytes"
	"io"
)

// C22 (handler half, codecs abstracted) — compression is transparent.
//
// The codecs themselves (DEFLATE, brotli, zstd: table-driven loops over whole
// buffers) are far outside what a bit-blasting back end decides, so under the
// engine each codec entry point the handler wrapper uses is replaced by a
// tagging function (//verif:stub): "compressing" x with gzip yields
// "GZ<" x ">", and so on. What is checked is everything around the codecs:
// which encoding the wrapper picks for an Accept-Encoding header, that it
// declares exactly that encoding, encodes exactly once, leaves small,
// incompressible or already encoded bodies alone, and adds Vary.

func c22Tag(tag string, dst, src []byte) []byte {
	dst = append(dst, tag...)
	dst = append(dst, '<')
	dst = append(dst, src...)
	return append(dst, '>')
}

//verif:stub github.com/valyala/fasthttp.AppendGzipBytesLevel
func vstubAppendGzip(dst, src []byte, level int) []byte { return c22Tag("GZ", dst, src) }

//verif:stub github.com/valyala/fasthttp.AppendDeflateBytesLevel
func vstubAppendDeflate(dst, src []byte, level int) []byte { return c22Tag("DF", dst, src) }

//verif:stub github.com/valyala/fasthttp.AppendBrotliBytesLevel
func vstubAppendBrotli(dst, src []byte, level int) []byte { return c22Tag("BR", dst, src) }

//verif:stub github.com/valyala/fasthttp.AppendZstdBytesLevel
func vstubAppendZstd(dst, src []byte, level int) []byte { return c22Tag("ZS", dst, src) }

func c22StreamTag(tag string, sw *bufio.Writer, r io.Reader) error {
	b, err := io.ReadAll(r)
	if err != nil {
		return err
	}
	_, err = sw.Write(c22Tag(tag, nil, b))
	return err
}

//verif:stub github.com/valyala/fasthttp.compressGzipBodyStream
func vstubStreamGzip(sw *bufio.Writer, r io.Reader, level int) error { return c22StreamTag("GZ", sw, r) }

//verif:stub github.com/valyala/fasthttp.compressDeflateBodyStream
func vstubStreamDeflate(sw *bufio.Writer, r io.Reader, level int) error {
	return c22StreamTag("DF", sw, r)
}

//verif:stub github.com/valyala/fasthttp.compressBrotliBodyStream
func vstubStreamBrotli(sw *bufio.Writer, r io.Reader, level int) error {
	return c22StreamTag("BR", sw, r)
}

//verif:stub github.com/valyala/fasthttp.compressZstdBodyStream
func vstubStreamZstd(sw *bufio.Writer, r io.Reader, level int) error { return c22StreamTag("ZS", sw, r) }

var c22TokenOrParam = func() (t [256]bool) {
	for i := range t {
		t[i] = c05IsTChar(byte(i)) || i == ';' || i == '='
	}
	return
}()

var c22Elements = [...]string{"gzip", "br", "deflate", "zstd", "identity", "x-gzip", "gzip;q=0", "*", "compress", "br;q=0.5"}
var c22Codings = [...]string{"gzip", "br", "deflate", "zstd"}
var c22Tags = [...]string{"GZ", "BR", "DF", "ZS"}

// c22Lists: the Accept-Encoding value is a comma-separated list; element e
// (surrounding blanks removed) names coding c iff e == c.
func c22Lists(ae []byte, coding string) bool {
	start := 0
	found := false
	for i := 0; i <= len(ae); i++ {
		if i == len(ae) || ae[i] == ',' {
			lo, hi := start, i
			for lo < hi && (ae[lo] == ' ' || ae[lo] == '\t') {
				lo++
			}
			for hi > lo && (ae[hi-1] == ' ' || ae[hi-1] == '\t') {
				hi--
			}
			if string(ae[lo:hi]) == coding {
				found = true
			}
			start = i + 1
		}
	}
	return found
}

func vhC22CompressHandler() {
	// Accept-Encoding: one or two list elements, one byte of the first
	// replaced by an arbitrary token byte
	e1 := []byte(c22Elements[vChoose("element1", len(c22Elements))])
	if vBool("hole") {
		pos := vLen("holeAt", 0, len(e1)-1)
		b := vBytes("b", 1)
		vAssume(c22TokenOrParam[b[0]])
		e1[pos] = b[0]
	}
	ae := e1
	if vBool("twoElements") {
		sep := ", "
		if vBool("noSpace") {
			sep = ","
		}
		ae = append(append(append([]byte(nil), e1...), sep...), c22Elements[vChoose("element2", 5)]...)
	}
	// the wrapped handler's response
	tail := vBytes("tail", 2)
	orig := make([]byte, 0, 210)
	// response shapes: a covering table instead of the full product
	type shape struct{ small, image, preEncoded, streamed, brotli, raw bool }
	shapes := [...]shape{
		{}, {brotli: true}, {streamed: true}, {streamed: true, brotli: true},
		{small: true}, {image: true, brotli: true}, {preEncoded: true}, {preEncoded: true, streamed: true, brotli: true},
		{small: true, streamed: true}, {image: true, streamed: true},
		{raw: true}, {raw: true, brotli: true},
	}
	sh := shapes[vChoose("shape", len(shapes))]
	n := 198
	if sh.small {
		n = 10
	}
	for i := 0; i < n; i++ {
		orig = append(orig, 'a')
	}
	orig = append(orig, tail...)
	compressible := !sh.image
	preEncoded := sh.preEncoded
	streamed := sh.streamed
	inner := func(ctx *RequestCtx) {
		if compressible {
			ctx.SetContentType("text/plain")
		} else {
			ctx.SetContentType("image/png")
		}
		if preEncoded {
			ctx.Response.Header.SetContentEncoding("gzip")
		}
		if streamed {
			ctx.SetBodyStream(bytes.NewReader(orig), -1)
		} else if sh.raw {
			ctx.Response.SetBodyRaw(orig)
		} else {
			ctx.SetBody(orig)
		}
	}
	var h RequestHandler
	if sh.brotli {
		h = CompressHandlerBrotliLevel(inner, CompressBrotliDefaultCompression, CompressDefaultCompression)
	} else {
		h = CompressHandlerLevel(inner, CompressDefaultCompression)
	}
	var req Request
	req.SetRequestURI("http://a.co/x")
	req.Header.SetBytesV(HeaderAcceptEncoding, ae)
	var ctx RequestCtx
	ctx.Init(&req, nil, nil)
	h(&ctx)
	resp := &ctx.Response
	var body []byte
	if resp.IsBodyStream() {
		body, _ = io.ReadAll(resp.bodyStream)
		resp.closeBodyStream(nil) //nolint:errcheck
	} else {
		body = append([]byte(nil), resp.Body()...)
	}
	ce := string(resp.Header.ContentEncoding())
	vNote("Accept-Encoding: " + string(ae) + " -> Content-Encoding: " + ce)
	if preEncoded {
		vAssert("already-encoded-body-is-left-alone", ce == "gzip" && string(body) == string(orig))
		return
	}
	if ce == "" {
		vAssert("undeclared-means-unchanged", string(body) == string(orig))
		return
	}
	k := -1
	for i, c := range c22Codings {
		if ce == c {
			k = i
		}
	}
	vAssert("declared-encoding-is-a-known-coding", k >= 0)
	if k < 0 {
		return
	}
	vAssert("only-an-encoding-the-request-lists", c22Lists(ae, c22Codings[k]))
	vAssert("encoded-exactly-once-with-the-declared-coding", string(body) == string(c22Tag(c22Tags[k], nil, orig)))
	vAssert("vary-accept-encoding", bytes.Contains(resp.Header.Peek(HeaderVary), []byte("Accept-Encoding")))
	vAssert("only-compressible-and-large-enough-bodies", compressible && (streamed || len(orig) >= minCompressLen))
}

// ---- saturation of the stack-saving work queue ------------------------------

func c22WriteTag(tag string, ctxv any) {
	ctx := ctxv.(*compressCtx)
	ctx.w.Write(c22Tag(tag, nil, ctx.p)) //nolint:errcheck
}

//verif:stub github.com/valyala/fasthttp.nonblockingWriteGzip
func vstubNBGzip(ctxv any) { c22WriteTag("GZ", ctxv) }

//verif:stub github.com/valyala/fasthttp.nonblockingWriteDeflate
func vstubNBDeflate(ctxv any) { c22WriteTag("DF", ctxv) }

//verif:stub github.com/valyala/fasthttp.nonblockingWriteBrotli
func vstubNBBrotli(ctxv any) { c22WriteTag("BR", ctxv) }

//verif:stub github.com/valyala/fasthttp.nonblockingWriteZstd
func vstubNBZstd(ctxv any) { c22WriteTag("ZS", ctxv) }

// vhC22Saturation: stackless.NewFunc's wrapper "returns false if the call
// cannot be processed at the moment due to high load" (its queue holds
// GOMAXPROCS*2048 calls). The environment here is that contract: the wrapper
// either runs the codec or reports saturation. Whatever it does, a Write*Level
// call either produces output that decodes to its input or returns an error.
func vhC22Saturation() {
	p := c05Sym("p", vParam("inputLen", 3))
	codec := vChoose("codec", 4)
	full := func(any) bool { return false } // the queue is full
	if vBool("queueFull") {
		switch codec {
		case 0:
			stacklessWriteGzipOnce.Do(func() {})
			stacklessWriteGzipFunc = full
		case 1:
			stacklessWriteDeflateOnce.Do(func() {})
			stacklessWriteDeflateFunc = full
		case 2:
			stacklessWriteBrotliOnce.Do(func() {})
			stacklessWriteBrotliFunc = full
		case 3:
			stacklessWriteZstdOnce.Do(func() {})
			stacklessWriteZstdFunc = full
		}
	}
	var buf bytes.Buffer
	var err error
	var back []byte
	var derr error
	switch codec {
	case 0:
		_, err = WriteGzipLevel(&buf, p, CompressDefaultCompression)
		if !vSymbolic() {
			back, derr = AppendGunzipBytes(nil, buf.Bytes())
		}
	case 1:
		_, err = WriteDeflateLevel(&buf, p, CompressDefaultCompression)
		if !vSymbolic() {
			back, derr = AppendInflateBytes(nil, buf.Bytes())
		}
	case 2:
		_, err = WriteBrotliLevel(&buf, p, CompressBrotliDefaultCompression)
		if !vSymbolic() {
			back, derr = AppendUnbrotliBytes(nil, buf.Bytes())
		}
	case 3:
		_, err = WriteZstdLevel(&buf, p, CompressZstdDefault)
		if !vSymbolic() {
			back, derr = AppendUnzstdBytes(nil, buf.Bytes())
		}
	}
	if err != nil {
		return // an error is an acceptable outcome under saturation
	}
	if vSymbolic() {
		vAssert("output-decodes-to-the-input-or-an-error-is-returned", buf.String() == string(c22Tag(c22Tags[[4]int{0, 2, 1, 3}[codec]], nil, p)))
	} else {
		vAssert("output-decodes-to-the-input-or-an-error-is-returned", derr == nil && string(back) == string(p))
	}
}
