package fasthttp

import "io/fs"

// C23 — FS never serves a file outside its root.
//
// The real FS request handler (path selection, the built-in rewriters, the
// dot-dot guard, compressed-copy lookup) over the recording fs.FS of
// fsfix.go, which answers "not found" for everything: the subject is which
// names the handler asks the file system for.

var c23Roots = [...]string{"r", "r/s", ""}

func vhC23FSRoot() {
	vf := &vfFS{files: map[string]*vfEntry{}}
	root := c23Roots[vChoose("root", len(c23Roots))]
	fsys := &FS{FS: vf, Root: root, AcceptByteRange: true}
	fsys.Compress = vBool("compress")
	rewriter := vChoose("rewriter", 4)
	n := 0
	if rewriter > 0 {
		n = vChoose("count", 3)
	}
	switch rewriter {
	case 1:
		fsys.PathRewrite = NewVHostPathRewriter(n)
	case 2:
		fsys.PathRewrite = NewPathSlashesStripper(n)
	case 3:
		fsys.PathRewrite = NewPathPrefixStripper(n)
	}
	var target []byte
	if shape := vChoose("shape", 3); shape == 2 {
		// percent-encoded dots only: "/%2?%2?/s" with the two low nibbles free
		target = append([]byte("/%2"), vBytes("a", 1)...)
		target = append(target, "%2"...)
		target = append(target, vBytes("b", 1)...)
		target = append(target, "/s"...)
	} else if shape == 1 {
		// a shape the free tail is too short for: "/x../y" keeps its dots
		// through normalisation and a prefix stripper can expose them
		target = append([]byte("/"), vBytes("a", 1)...)
		target = append(target, "../"...)
		target = append(target, vBytes("b", 1)...)
	} else {
		target = append([]byte("/"), c05Sym("target", vParam("targetLen", 4))...)
	}
	var req Request
	req.Header.SetRequestURIBytes(target)
	host := []byte("h.co")
	if rewriter == 1 {
		host = c05Sym("host", vParam("hostLen", 2))
	}
	req.Header.SetHostBytes(host)
	if fsys.Compress {
		req.Header.Set("Accept-Encoding", "gzip")
	}
	var ctx RequestCtx
	ctx.Init(&req, nil, nil)
	h := fsys.NewRequestHandler()
	h(&ctx)

	// the path the handler worked on (the rewriters are deterministic)
	var p []byte
	if fsys.PathRewrite != nil {
		p = append([]byte(nil), fsys.PathRewrite(&ctx)...)
	} else {
		p = append([]byte(nil), ctx.Path()...)
	}
	hasNUL := false
	for _, c := range p {
		if c == 0 {
			hasNUL = true
		}
	}
	inside := true
	for _, name := range vf.opened {
		vNote("open " + name)
		if fsys.Compress && root != "" && name == root+".fasthttp.gz" && vKnown("C23-compressed-sibling-of-root") {
			// listed finding: a request for the root directory itself with
			// compression on looks for "<root>.fasthttp.gz", a sibling of the root
			continue
		}
		if !vfInside(name, root) {
			inside = false
		}
	}
	vAssert("only-paths-inside-root-are-opened", inside)
	if hasNUL {
		vAssert("path-with-NUL-opens-nothing", len(vf.opened) == 0 && ctx.Response.StatusCode() == StatusBadRequest)
	}
	if fsys.PathRewrite != nil && c23HasDotDot(p) {
		vAssert("dotdot-after-rewriting-opens-nothing", len(vf.opened) == 0)
	}
}

// c23HasDotDot: some '/'-separated segment of p is exactly "..".
func c23HasDotDot(p []byte) bool {
	start := 0
	found := false
	for i := 0; i <= len(p); i++ {
		if i == len(p) || p[i] == '/' {
			if i-start == 2 && p[start] == '.' && p[start+1] == '.' {
				found = true
			}
			start = i + 1
		}
	}
	return found
}

// ---- the default (operating-system) file system branch -------------------
//
// With FS.FS unset the handler joins Root and the request path itself and
// opens the result through osFS. os.Open / os.Stat are not interpretable, so
// under the engine (*osFS).Open and (*osFS).Stat are replaced by harness stubs
// (//verif:stub) that only record the name and report "does not exist": which
// names the real path-joining code asks for is what is checked.

var c23OSNames []string

//verif:stub (*github.com/valyala/fasthttp.osFS).Open
func vstubOSFSOpen(o *osFS, name string) (fs.File, error) {
	c23OSNames = append(c23OSNames, name)
	return nil, &fs.PathError{Op: "open", Path: name, Err: fs.ErrNotExist}
}

//verif:stub (*github.com/valyala/fasthttp.osFS).Stat
func vstubOSFSStat(o *osFS, name string) (fs.FileInfo, error) {
	c23OSNames = append(c23OSNames, name)
	return nil, &fs.PathError{Op: "stat", Path: name, Err: fs.ErrNotExist}
}

func vhC23OSRoot() {
	c23OSNames = nil
	const root = "/srv/r"
	fsys := &FS{Root: root, AcceptByteRange: true}
	rewriter := vChoose("rewriter", 4)
	n := 0
	if rewriter > 0 {
		n = vChoose("count", 3)
	}
	switch rewriter {
	case 1:
		fsys.PathRewrite = NewVHostPathRewriter(n)
	case 2:
		fsys.PathRewrite = NewPathSlashesStripper(n)
	case 3:
		fsys.PathRewrite = NewPathPrefixStripper(n)
	}
	var target []byte
	switch vChoose("shape", 3) {
	case 0:
		target = append([]byte("/"), c05Sym("target", vParam("targetLen", 3))...)
	case 1: // a prefix the stripper removes, then a short remainder, with or without a trailing slash
		target = append([]byte("/s/"), c05Sym("target", 2)...)
	case 2:
		target = append([]byte("/ab"), c05Sym("target", 2)...)
	}
	var req Request
	req.Header.SetRequestURIBytes(target)
	req.Header.SetHost("h.co")
	var ctx RequestCtx
	ctx.Init(&req, nil, nil)
	h := fsys.NewRequestHandler()
	h(&ctx)
	inside := true
	for _, name := range c23OSNames {
		vNote("os " + name)
		if !vfInside(name, root) {
			inside = false
		}
	}
	vAssert("only-names-inside-root-reach-the-operating-system", inside)
}
