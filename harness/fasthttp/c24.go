package fasthttp

// C24 — every range ParseByteRange accepts satisfies 0 <= start <= end < length.

// vhC24ByteRange: "bytes=" + arbitrary bytes (length ≤ N) against an
// arbitrary content length.
func vhC24ByteRange() {
	n := vLen("n", 0, vParam("maxRange", 5))
	spec := vBytes("spec", n)
	cl := vInt("contentLength")
	vAssume(cl >= 0)
	in := append([]byte("bytes="), spec...)
	s, e, err := ParseByteRange(in, cl)
	vAssert("accepted-range-inside-content", err != nil || (0 <= s && s <= e && e < cl))
}

// vhC24ByteRangeForms: the three RFC 9110 forms with symbolic digits:
// first-last, first-, -suffix; value clauses of the statement.
func vhC24ByteRangeForms() {
	form := vChoose("form", 3)
	cl := vIntRange("contentLength", 0, 1<<20)
	na := vLen("na", 1, vParam("rangeDigits", 3))
	a := vBytes("a", na)
	vAssume(vAllDigits(a))
	av := int(refHornerWrap(a))
	switch form {
	case 0: // bytes=a-b
		nb := vLen("nb", 1, vParam("rangeDigits", 3))
		b := vBytes("b", nb)
		vAssume(vAllDigits(b))
		bv := int(refHornerWrap(b))
		in := append(append(append([]byte("bytes="), a...), '-'), b...)
		s, e, err := ParseByteRange(in, cl)
		sat := av < cl && av <= bv
		vAssert("first-last-accept-iff-satisfiable", (err == nil) == sat)
		we := bv
		if we >= cl {
			we = cl - 1
		}
		vAssert("first-last-value", err != nil || (s == av && e == we))
	case 1: // bytes=a-
		in := append(append([]byte("bytes="), a...), '-')
		s, e, err := ParseByteRange(in, cl)
		vAssert("first-open-accept-iff-satisfiable", (err == nil) == (av < cl))
		vAssert("first-open-value", err != nil || (s == av && e == cl-1))
	case 2: // bytes=-a
		in := append([]byte("bytes=-"), a...)
		s, e, err := ParseByteRange(in, cl)
		sat := cl > 0 && av > 0
		vAssert("suffix-accept-iff-satisfiable", (err == nil) == sat)
		ws := cl - av
		if ws < 0 {
			ws = 0
		}
		vAssert("suffix-value", err != nil || (s == ws && e == cl-1))
	}
}
