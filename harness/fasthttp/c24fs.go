package fasthttp

import "time"

// C24 (FS half) — FS responses carry the file's bytes, ranges and validators.
//
// The real FS handler behind the real serve loop, over the in-memory file
// system of fsfix.go: one file of 0..3 arbitrary bytes, a Range spec of
// arbitrary bytes, If-Modified-Since before / at / after the file's second,
// GET and HEAD. The reference for a byte range is RFC 9110 §14.1.2 written out
// below; specs it calls malformed are left to ParseByteRange's own check.

type c24Wire struct {
	status       int
	body         string
	contentLen   string
	contentRange string
	lastModified string
	acceptRanges string
	ok           bool
}

func c24Hdr(line []byte, name string) (string, bool) {
	if len(line) > len(name)+2 && c05FoldEq(line[:len(name)], name) && line[len(name)] == ':' && line[len(name)+1] == ' ' {
		return string(line[len(name)+2:]), true
	}
	return "", false
}

// c24Read splits one response off the wire (Content-Length framing; no body
// for HEAD / 304).
func c24Read(w []byte, isHead bool) (r c24Wire) {
	line, i, lok := c03Line(w, 0)
	if !lok || len(line) < 12 || string(line[:9]) != "HTTP/1.1 " {
		return
	}
	r.status = int(line[9]-'0')*100 + int(line[10]-'0')*10 + int(line[11]-'0')
	for {
		var n int
		line, n, lok = c03Line(w, i)
		if !lok {
			return
		}
		i = n
		if len(line) == 0 {
			break
		}
		if v, ok := c24Hdr(line, "Content-Length"); ok {
			r.contentLen = v
		}
		if v, ok := c24Hdr(line, "Content-Range"); ok {
			r.contentRange = v
		}
		if v, ok := c24Hdr(line, "Last-Modified"); ok {
			r.lastModified = v
		}
		if v, ok := c24Hdr(line, "Accept-Ranges"); ok {
			r.acceptRanges = v
		}
	}
	cl := 0
	for _, d := range []byte(r.contentLen) {
		cl = cl*10 + int(d-'0')
	}
	if isHead || r.status == 304 {
		r.ok = i == len(w)
		return
	}
	if i+cl != len(w) {
		return
	}
	r.body = string(w[i:])
	r.ok = true
	return
}

// c24RefRange: RFC 9110 single byte range against a representation of n bytes.
// kind: 0 malformed, 1 satisfiable [a, b], 2 unsatisfiable.
func c24RefRange(spec []byte, n int) (kind, a, b int) {
	dash := -1
	for i, c := range spec {
		if c == '-' {
			if dash >= 0 {
				return 0, 0, 0
			}
			dash = i
		} else if c < '0' || c > '9' {
			return 0, 0, 0
		}
	}
	if dash < 0 || len(spec) == 1 {
		return 0, 0, 0
	}
	num := func(s []byte) int {
		v := 0
		for _, c := range s {
			v = v*10 + int(c-'0')
		}
		return v
	}
	first, last := spec[:dash], spec[dash+1:]
	if len(first) == 0 { // suffix range
		s := num(last)
		if s == 0 || n == 0 {
			return 2, 0, 0
		}
		if s > n {
			s = n
		}
		return 1, n - s, n - 1
	}
	a = num(first)
	if len(last) == 0 {
		if a >= n {
			return 2, 0, 0
		}
		return 1, a, n - 1
	}
	b = num(last)
	if b < a {
		return 0, 0, 0
	}
	if a >= n {
		return 2, 0, 0
	}
	if b >= n {
		b = n - 1
	}
	return 1, a, b
}

func c24Itoa(n int) string {
	if n == 0 {
		return "0"
	}
	var b []byte
	for n > 0 {
		b = append([]byte{byte('0' + n%10)}, b...)
		n /= 10
	}
	return string(b)
}

func vhC24FSResponses() {
	data := c05Sym("data", vParam("fileLen", 3))
	mod := time.Date(2024, 5, 6, 7, 8, 9, 500_000_000, time.UTC) // half a second into its second
	vf := &vfFS{files: map[string]*vfEntry{"r/f.bin": {data: data, mod: mod}}}
	fsys := &FS{FS: vf, Root: "r", AcceptByteRange: true}
	h := fsys.NewRequestHandler()
	hdrs := ""
	hasRange := vBool("range")
	var spec []byte
	if hasRange {
		spec = c05Sym("spec", vParam("specLen", 3))
		for _, c := range spec {
			vAssume(c > ' ' && c < 0x7f) // a visible field-value byte: the request itself must parse
		}
		hdrs += "Range: bytes=" + string(spec) + "\r\n"
	}
	ims := vChoose("ifModifiedSince", 4) // none, the second before, the file's second, the second after
	if ims > 0 {
		t := mod.Truncate(time.Second).Add(time.Duration(ims-2) * time.Second)
		hdrs += "If-Modified-Since: " + string(AppendHTTPDate(nil, t)) + "\r\n"
	}
	serve := func(method string) c24Wire {
		c := &vsSegConn{segs: [][]byte{[]byte(method + " /f.bin HTTP/1.1\r\nHost: a\r\nConnection: close\r\n" + hdrs + "\r\n")}}
		s := &Server{NoDefaultDate: true, NoDefaultServerHeader: true, Handler: h}
		s.ServeConn(c)
		return c24Read(c.wrote, method == "HEAD")
	}
	g := serve("GET")
	hd := serve("HEAD")
	// afterwards a plain GET (readers are recycled between responses)
	hdrs = ""
	plain := serve("GET")
	n := len(data)
	vAssert("plain-get-after-range-requests-is-the-full-file", plain.ok && plain.status == 200 && plain.body == string(data) && plain.contentLen == c24Itoa(n))
	vAssert("responses-parse", g.ok && hd.ok)
	vAssert("head-same-status-and-headers-as-get", hd.status == g.status && hd.contentLen == g.contentLen && hd.contentRange == g.contentRange && hd.lastModified == g.lastModified && hd.acceptRanges == g.acceptRanges)
	vAssert("head-has-no-body", hd.body == "")
	notNewer := ims >= 2 // If-Modified-Since at or after the file's second
	kind, a, b := 0, 0, 0
	if hasRange {
		kind, a, b = c24RefRange(spec, n)
	}
	switch {
	case notNewer:
		vAssert("not-modified", g.status == 304 && g.body == "")
	case hasRange && kind == 1:
		vAssert("partial-content-slice", g.status == 206 && g.body == string(data[a:b+1]) &&
			g.contentRange == "bytes "+c24Itoa(a)+"-"+c24Itoa(b)+"/"+c24Itoa(n) && g.contentLen == c24Itoa(b-a+1))
	case hasRange && kind == 2:
		vAssert("unsatisfiable-is-416", g.status == 416)
	case hasRange: // malformed per the reference: fasthttp answers 416 or serves the whole file
		vAssert("malformed-range-416-or-full", g.status == 416 || (g.status == 200 && g.body == string(data)))
	default:
		vAssert("full-content", g.status == 200 && g.body == string(data) && g.contentLen == c24Itoa(n))
	}
	// handles: nothing read after close, everything the handler opened is closed
	// once the cache lets go of it (checked in C25); here only reads-after-close
	bad := false
	for _, fh := range vf.handles {
		if fh.afterClose > 0 {
			bad = true
		}
	}
	vAssert("no-read-after-close", !bad)
}
