package fasthttp

import "time"

// C25 — FS file handles are released exactly once and never read after close.
//
// The real FS handler, its in-memory cache manager and the cache cleaner
// goroutine (engine scheduler, virtual time) over the counting file system of
// fsfix.go. Requests are served one after the other; file reads can be slow
// (longer than the cache lifetime, so the cleaner evicts a file while a
// response is reading it) and requests can be spaced so that entries expire
// in between. At the end the cleaner is stopped through CleanStop.

var c25Delays = [...]time.Duration{0, 2500 * time.Millisecond, 700 * time.Millisecond}

func vhC25Handles() {
	mod := time.Date(2024, 5, 6, 7, 8, 9, 0, time.UTC)
	da, db := vBytes("a", 10), vBytes("b", 10) // arbitrary file contents
	vf := &vfFS{files: map[string]*vfEntry{
		"r/a.bin": {data: da, mod: mod},
		"r/b.bin": {data: db, mod: mod},
		"r/d":     {isDir: true, mod: mod},
	}}
	stop := make(chan struct{})
	fsys := &FS{FS: vf, Root: "r", AcceptByteRange: true, CacheDuration: time.Second, CleanStop: stop}
	h := fsys.NewRequestHandler()
	s := &Server{NoDefaultDate: true, NoDefaultServerHeader: true, Handler: h}
	N := vLen("requests", 1, vParam("requests", 2))
	bodiesOK := true
	// the cleaner may also be stopped while a (slow) response is being read —
	// possibly after the cleaner has already evicted the file under it
	stopped := false
	if at := vChoose("stopWhileServing", 3); at > 0 {
		d := [...]time.Duration{0, 1200 * time.Millisecond, 2 * time.Second}[at]
		go func() {
			time.Sleep(d)
			if !stopped {
				stopped = true
				close(stop)
			}
		}()
	}
	for i := 0; i < N; i++ {
		target := [...]string{"/a.bin", "/b.bin", "/missing", "/d"}[vChoose("target", 4)]
		method := "GET"
		if vBool("head") {
			method = "HEAD"
		}
		rng := [...]string{"", "Range: bytes=2-5\r\n", "Range: bytes=50-\r\n", "If-Modified-Since: Mon, 06 May 2024 07:08:09 GMT\r\n"}[vChoose("header", 4)]
		vf.readDelay = c25Delays[vChoose("readDelay", vParam("delayKinds", 3))]
		c := &vsSegConn{segs: [][]byte{[]byte(method + " " + target + " HTTP/1.1\r\nHost: a\r\nConnection: close\r\n" + rng + "\r\n")}}
		s.ServeConn(c)
		vf.readDelay = 0
		if method == "GET" && rng == "" && (target == "/a.bin" || target == "/b.bin") {
			r := c24Read(c.wrote, false)
			want := string(da)
			if target == "/b.bin" {
				want = string(db)
			}
			if !r.ok || r.status != 200 || r.body != want {
				bodiesOK = false
			}
		}
		time.Sleep(c25Delays[vChoose("gap", vParam("delayKinds", 3))])
	}
	if !stopped {
		stopped = true
		close(stop)
	}
	time.Sleep(50 * time.Millisecond) // let the cleaner goroutine take the stop and release what is left
	// the handler stays usable after the cleaner was stopped: two more
	// requests for the same file
	for k := vChoose("requestsAfterStop", 3); k > 0; k-- {
		c := &vsSegConn{segs: [][]byte{[]byte("GET /a.bin HTTP/1.1\r\nHost: a\r\nConnection: close\r\n\r\n")}}
		s.ServeConn(c)
		r := c24Read(c.wrote, false)
		if !r.ok || r.status != 200 || r.body != string(da) {
			bodiesOK = false
		}
	}
	once, never := true, true
	for _, fh := range vf.handles {
		if fh.closed != 1 {
			once = false
		}
		if fh.afterClose > 0 {
			never = false
		}
	}
	vAssert("every-opened-file-is-closed-exactly-once", once)
	vAssert("no-file-is-used-after-close", never)
	vAssert("served-bodies-are-the-file-bytes", bodiesOK)
}
