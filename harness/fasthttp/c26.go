package fasthttp

// C26 — request paths are fully normalised.
//
// Reference: RFC 3986 §5.2.4 remove_dot_segments applied to
// collapse(decode(addLeadingSlash(raw))), written as a segment stack; it
// shares no code or rewriting strategy with normalizePath.

func refHexVal(c byte) int {
	switch {
	case c >= '0' && c <= '9':
		return int(c - '0')
	case c >= 'a' && c <= 'f':
		return int(c-'a') + 10
	case c >= 'A' && c <= 'F':
		return int(c-'A') + 10
	}
	return -1
}

// refPctDecode decodes %XX sequences; malformed escapes stay literal.
func refPctDecode(s []byte) []byte {
	out := make([]byte, 0, len(s))
	for i := 0; i < len(s); i++ {
		if s[i] == '%' && i+2 < len(s) {
			h, l := refHexVal(s[i+1]), refHexVal(s[i+2])
			if h >= 0 && l >= 0 {
				out = append(out, byte(h<<4|l))
				i += 2
				continue
			}
		}
		out = append(out, s[i])
	}
	return out
}

// refNormalizePath implements the property statement.
func refNormalizePath(raw []byte) []byte {
	p := raw
	if len(p) == 0 || p[0] != '/' {
		p = append([]byte{'/'}, p...)
	}
	p = refPctDecode(p)
	// split into segments (p starts with '/'); empty segments are dropped,
	// which is "collapsing runs of slashes"; remember whether the path ends
	// in a slash or a dot segment (⇒ trailing slash in the output).
	type seg struct{ lo, hi int }
	var stack []seg
	trailing := false
	i := 1
	for i <= len(p) {
		j := i
		for j < len(p) && p[j] != '/' {
			j++
		}
		s := p[i:j]
		last := j >= len(p)
		switch {
		case len(s) == 0:
			if last {
				trailing = true
			}
		case len(s) == 1 && s[0] == '.':
			if last {
				trailing = true
			}
		case len(s) == 2 && s[0] == '.' && s[1] == '.':
			if len(stack) > 0 {
				stack = stack[:len(stack)-1]
			}
			if last {
				trailing = true
			}
		default:
			stack = append(stack, seg{i, j})
		}
		i = j + 1
	}
	out := []byte{}
	for _, sg := range stack {
		out = append(out, '/')
		out = append(out, p[sg.lo:sg.hi]...)
	}
	if trailing || len(stack) == 0 {
		out = append(out, '/')
	}
	return out
}

// c26KnownTrailingDot describes exactly the listed known finding: the decoded
// path (after the leading slash is added) ends in the segment "." .
func c26KnownTrailingDot(raw []byte) bool {
	p := raw
	if len(p) == 0 || p[0] != '/' {
		p = append([]byte{'/'}, p...)
	}
	p = refPctDecode(p)
	n := len(p)
	return n >= 2 && p[n-1] == '.' && p[n-2] == '/'
}

func vhC26NormalizePath() {
	n := vLen("n", 0, vParam("maxPath", 5))
	raw := vBytes("p", n)
	if vKnown("C26-trailing-dot") {
		vAssume(!c26KnownTrailingDot(raw))
	}
	var u URI
	u.SetPathBytes(append([]byte(nil), raw...))
	got := u.Path()
	want := refNormalizePath(raw)
	vAssert("path-equals-reference", string(got) == string(want))
	// derived shape facts, stated separately so that a violation names the clause
	vAssert("starts-with-slash", len(got) > 0 && got[0] == '/')
	okShape := true
	for i := 0; i < len(got); i++ {
		if got[i] != '/' {
			continue
		}
		// segment after this slash
		j := i + 1
		for j < len(got) && got[j] != '/' {
			j++
		}
		sl := j - i - 1
		if sl == 0 && j < len(got) {
			okShape = false // empty segment in the middle
		}
		if sl == 1 && got[i+1] == '.' {
			okShape = false
		}
		if sl == 2 && got[i+1] == '.' && got[i+2] == '.' {
			okShape = false
		}
	}
	vAssert("no-empty-or-dot-segments", okShape)
}

// vhC26Segments: longer paths than the byte-level harness reaches, built from
// up to `segments` segments drawn from {a, bc, ., .., empty, %2e%2e, one
// arbitrary byte}, with or without a trailing slash: the normalised path equals
// the independent remove_dot_segments reference.
func vhC26Segments() {
	k := vLen("segments", 1, vParam("segments", 5))
	x := vBytes("x", 1)
	var raw []byte
	for i := 0; i < k; i++ {
		raw = append(raw, '/')
		switch vChoose("seg", 7) {
		case 0:
			raw = append(raw, 'a')
		case 1:
			raw = append(raw, "bc"...)
		case 2:
			raw = append(raw, '.')
		case 3:
			raw = append(raw, ".."...)
		case 4:
		case 5:
			raw = append(raw, "%2e%2e"...)
		case 6:
			raw = append(raw, x[0])
		}
	}
	if vBool("trailingSlash") {
		raw = append(raw, '/')
	}
	if vKnown("C26-trailing-dot") {
		vAssume(!c26KnownTrailingDot(raw))
	}
	var u URI
	u.SetPathBytes(append([]byte(nil), raw...))
	vAssert("path-equals-reference", string(u.Path()) == string(refNormalizePath(raw)))
}
