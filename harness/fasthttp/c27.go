package fasthttp

import "net/url"

// C27 — URIs survive serialisation.
//
// (a) round trip: parse an absolute URI built from a prefix (scheme and
// authority shapes) and a tail of arbitrary bytes; if fasthttp accepts it and
// the decoded host contains no literal '%', FullURI() parses again to the same
// scheme, host, path, query and fragment, and RequestURI() parsed against the
// same host yields the same path and query.

var c27Prefixes = [...]string{
	"http://",
	"https://a",
	"HTTP://A.b",
	"//",
	"http://u:p@h",
	"http://[::1]",
	"http://a:80",
	"x+y://h",
	"http://a/",
	"http://a/?",
	"http://a/p?q#",
	"http://a/%",
	"http://a%",
	"http://a%2",
}

func c27Copy(b []byte) []byte { return append([]byte(nil), b...) }

type c27KV struct {
	k, v    string
	noValue bool
}

func c27Args(a *Args) []c27KV {
	var out []c27KV
	for i := range a.args {
		kv := &a.args[i]
		out = append(out, c27KV{string(kv.key), string(kv.value), kv.noValue})
	}
	return out
}

func c27SameArgs(x, y []c27KV) bool {
	if len(x) != len(y) {
		return false
	}
	for i := range x {
		if x[i].k != y[i].k || x[i].v != y[i].v {
			return false
		}
	}
	return true
}

func vhC27RoundTrip() {
	prefix := c27Prefixes[vChoose("prefix", len(c27Prefixes))]
	tail := c05Sym("tail", vParam("tailLen", 4))
	in := append([]byte(prefix), tail...)
	var u URI
	if err := u.Parse(nil, in); err != nil {
		return
	}
	for _, c := range u.Host() {
		// the property's own exclusion: a host that decodes to a literal '%'
		vAssume(c != '%')
	}
	useArgs := vBool("useQueryArgs")
	var args []c27KV
	if useArgs {
		args = c27Args(u.QueryArgs())
	} else {
		var a Args
		a.ParseBytes(u.QueryString())
		args = c27Args(&a)
	}
	scheme, host, path := c27Copy(u.Scheme()), c27Copy(u.Host()), c27Copy(u.Path())
	qs, hash := c27Copy(u.QueryString()), c27Copy(u.Hash())
	full := c27Copy(u.FullURI())
	req := c27Copy(u.RequestURI())
	vNote("full=" + string(full) + " req=" + string(req))

	var u2 URI
	err := u2.Parse(nil, full)
	vAssert("full-uri-parses-again", err == nil)
	if err == nil {
		vAssert("same-scheme", string(u2.Scheme()) == string(scheme))
		vAssert("same-host", string(u2.Host()) == string(host))
		vAssert("same-path", string(u2.Path()) == string(path))
		vAssert("same-fragment", string(u2.Hash()) == string(hash))
		vAssert("same-query-args", c27SameArgs(c27Args(u2.QueryArgs()), args))
		if !useArgs {
			vAssert("identical-query-string", string(u2.QueryString()) == string(qs))
		}
	}
	var u3 URI
	err = u3.Parse(host, req)
	vAssert("request-uri-parses-against-host", err == nil)
	if err == nil {
		vAssert("request-uri-same-host", string(u3.Host()) == string(host))
		vAssert("request-uri-same-path", string(u3.Path()) == string(path))
		vAssert("request-uri-same-query-args", c27SameArgs(c27Args(u3.QueryArgs()), args))
	}
}

// (b) agreement with net/url: for every http/https URI both accept, the host
// equals net/url's host lower-cased and the raw query strings are equal.
func vhC27NetURL() {
	prefix := c27URLPrefixes[vChoose("prefix", len(c27URLPrefixes))]
	tail := c05Sym("tail", vParam("tailLen", 2))
	in := append([]byte(prefix), tail...)
	var u URI
	if err := u.Parse(nil, in); err != nil {
		return
	}
	pu, err := url.Parse(string(in))
	if err != nil {
		return
	}
	if pu.Scheme != "http" && pu.Scheme != "https" {
		return
	}
	vNote("in=" + string(in) + " host=" + string(u.Host()) + " url.Host=" + pu.Host)
	want := []byte(pu.Host)
	for i, c := range want {
		if c >= 'A' && c <= 'Z' {
			want[i] = c + 32
		}
	}
	vAssert("host-equals-net-url-host-lowercased", string(u.Host()) == string(want))
	vAssert("raw-query-equals-net-url", string(u.QueryString()) == pu.RawQuery)
}

var c27URLPrefixes = [...]string{
	"http://",
	"https://a",
	"HTTP://A.b",
	"http://u:p@h",
	"http://[::1]",
	"http://a:80",
	"http://a/",
	"http://a/?",
	"http://a/p?q#",
}
