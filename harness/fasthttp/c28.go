package fasthttp

// C28 — query arguments behave as an ordered multimap and round-trip.

type c28KV struct {
	k, v    []byte
	noValue bool
}

func c28Eq(a, b []byte) bool { return string(a) == string(b) }

// model operations (ordered multimap as a slice)
func c28Add(m []c28KV, k, v []byte, nv bool) []c28KV {
	if nv {
		v = nil
	}
	return append(m, c28KV{k, v, nv})
}

func c28Set(m []c28KV, k, v []byte, nv bool) []c28KV {
	if nv {
		v = nil
	}
	for i := range m {
		if c28Eq(m[i].k, k) {
			m[i].v, m[i].noValue = v, nv
			return m
		}
	}
	return append(m, c28KV{k, v, nv})
}

func c28Del(m []c28KV, k []byte) []c28KV {
	var out []c28KV
	for _, e := range m {
		if !c28Eq(e.k, k) {
			out = append(out, e)
		}
	}
	return out
}

func c28SymBytes(name string, maxLen int) []byte {
	n := vLen(name+"n", 0, maxLen)
	return vBytes(name, n)
}

// c28Check compares every observer of a with the model m.
func c28Check(a *Args, m []c28KV, probe []byte) {
	vAssert("len", a.Len() == len(m))
	// order and content through the in-package slice and through All()
	same := len(a.args) == len(m)
	if same {
		for i := range m {
			e := &a.args[i]
			if !c28Eq(e.key, m[i].k) || !c28Eq(e.value, m[i].v) || e.noValue != m[i].noValue {
				same = false
			}
		}
	}
	vAssert("ordered-content", same)
	i := 0
	okAll := true
	for k, v := range a.All() {
		if i >= len(m) || !c28Eq(k, m[i].k) || !c28Eq(v, m[i].v) {
			okAll = false
		}
		i++
	}
	vAssert("all-iterator", okAll && i == len(m))
	// Peek / Has / PeekMulti for a probe key
	var first []byte
	found := false
	var multi [][]byte
	for _, e := range m {
		if c28Eq(e.k, probe) {
			if !found {
				first, found = e.v, true
			}
			multi = append(multi, e.v)
		}
	}
	vAssert("has", a.HasBytes(probe) == found)
	p := a.PeekBytes(probe)
	vAssert("peek", c28Eq(p, first) && (found || p == nil))
	pm := a.PeekMultiBytes(probe)
	okM := len(pm) == len(multi)
	if okM {
		for j := range pm {
			if !c28Eq(pm[j], multi[j]) {
				okM = false
			}
		}
	}
	vAssert("peek-multi", okM)
}

// vhC28Ops: K operations from the empty state; after every operation all
// observers agree with the model.
func vhC28Ops() {
	K := vParam("ops", 3)
	kl := vParam("keyLen", 1)
	vl := vParam("valLen", 1)
	var a Args
	var m []c28KV
	for step := 0; step < K; step++ {
		op := vChoose("op", 5)
		k := c28SymBytes("k", kl)
		switch op {
		case 0:
			v := c28SymBytes("v", vl)
			a.AddBytesKV(k, v)
			m = c28Add(m, k, v, false)
		case 1:
			v := c28SymBytes("v", vl)
			a.SetBytesKV(k, v)
			m = c28Set(m, k, v, false)
		case 2:
			a.SetBytesKNoValue(k)
			m = c28Set(m, k, nil, true)
		case 3:
			a.DelBytes(k)
			m = c28Del(m, k)
		case 4:
			a.AddBytesKNoValue(k)
			m = c28Add(m, k, nil, true)
		}
	}
	probe := c28SymBytes("probe", kl)
	c28Check(&a, m, probe)
}

// vhC28RoundTrip: build N entries, serialise, parse, compare
// (key, value, has '=') minus entries whose key and value are both empty.
func vhC28RoundTrip() {
	N := vLen("entries", 0, vParam("entries", 2))
	kl := vParam("keyLen", 2)
	vl := vParam("valLen", 2)
	var a Args
	var m []c28KV
	for i := 0; i < N; i++ {
		k := c28SymBytes("k", kl)
		if vBool("novalue") {
			a.AddBytesKNoValue(k)
			m = c28Add(m, k, nil, true)
		} else {
			v := c28SymBytes("v", vl)
			a.AddBytesKV(k, v)
			m = c28Add(m, k, v, false)
		}
	}
	qs := append([]byte(nil), a.QueryString()...)
	var b Args
	b.ParseBytes(qs)
	var want []c28KV
	for _, e := range m {
		if len(e.k) == 0 && len(e.v) == 0 {
			continue
		}
		want = append(want, e)
	}
	ok := len(b.args) == len(want)
	if ok {
		for i := range want {
			e := &b.args[i]
			if !c28Eq(e.key, want[i].k) || !c28Eq(e.value, want[i].v) || e.noValue != want[i].noValue {
				ok = false
			}
		}
	}
	vAssert("parse-of-querystring", ok)
}

// vhC28Quote: decode(AppendQuotedArg(x)) == x for arbitrary bytes.
func vhC28Quote() {
	x := c28SymBytes("x", vParam("len", 3))
	q := AppendQuotedArg(nil, x)
	d := decodeArgAppend(nil, q)
	vAssert("unquote-of-quote", c28Eq(d, x))
	d2 := AppendUnquotedArg(nil, q)
	vAssert("append-unquoted", c28Eq(d2, x))
}

// vhC28AfterAdds: N Add calls with symbolic keys and values build an arbitrary
// small multimap state; one more operation (Del / Set / SetNoValue / Add) with
// a symbolic key is applied; all observers must agree with the model. This is
// where order preservation under deletion is decided.
func vhC28AfterAdds() {
	N := vLen("entries", 0, vParam("entries", 3))
	var a Args
	var m []c28KV
	for i := 0; i < N; i++ {
		k := vBytes("k", 1)
		v := vBytes("v", 1)
		a.AddBytesKV(k, v)
		m = c28Add(m, k, v, false)
	}
	k := vBytes("opkey", 1)
	switch vChoose("op", 4) {
	case 0:
		a.DelBytes(k)
		m = c28Del(m, k)
	case 1:
		v := vBytes("opval", 1)
		a.SetBytesKV(k, v)
		m = c28Set(m, k, v, false)
	case 2:
		a.SetBytesKNoValue(k)
		m = c28Set(m, k, nil, true)
	case 3:
		v := vBytes("opval", 1)
		a.AddBytesKV(k, v)
		m = c28Add(m, k, v, false)
	}
	probe := vBytes("probe", 1)
	c28Check(&a, m, probe)
}
