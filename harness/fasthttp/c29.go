package fasthttp

// C29 — header API behaves as a case-insensitive ordered multimap.
//
// Model: a slice of (canonical name, value) in insertion order. Add appends;
// Set replaces the first value of the name (or appends); Del removes every
// value of the name and nothing else, keeping the order of the rest.

var c29Keys = [...]string{"X-A", "x-a", "X-B", "x-C"}
var c29Canon = [...]int{0, 0, 1, 2} // index of the canonical name of c29Keys[i]
var c29CanonNames = [...]string{"X-A", "X-B", "X-C"}

type c29KV struct {
	k int
	v []byte
}

func c29Val(name string) []byte {
	v := vBytes(name, 1)
	vAssume(v[0] != '\r' && v[0] != '\n')
	return v
}

func c29Apply(m []c29KV, op, k int, v []byte) []c29KV {
	switch op {
	case 0:
		return append(m, c29KV{k, v})
	case 1:
		for i := range m {
			if m[i].k == k {
				m[i].v = v
				return m
			}
		}
		return append(m, c29KV{k, v})
	default:
		var out []c29KV
		for _, e := range m {
			if e.k != k {
				out = append(out, e)
			}
		}
		return out
	}
}

func c29Check(m []c29KV, peekAll func(string) [][]byte, peek func(string) []byte) {
	okAll, okPeek := true, true
	for ck, name := range c29CanonNames {
		var want [][]byte
		for _, e := range m {
			if e.k == ck {
				want = append(want, e.v)
			}
		}
		got := peekAll(name)
		if len(got) != len(want) {
			okAll = false
		} else {
			for i := range want {
				if string(got[i]) != string(want[i]) {
					okAll = false
				}
			}
		}
		p := peek(name)
		if len(want) == 0 {
			if p != nil {
				okPeek = false
			}
		} else if string(p) != string(want[0]) {
			okPeek = false
		}
	}
	vAssert("peekall-values-and-order", okAll)
	vAssert("peek-first", okPeek)
}

// vhC29ResponseOps: K Add/Set/Del operations over ordinary names in mixed
// letter case on a ResponseHeader.
func vhC29ResponseOps() {
	K := vParam("ops", 4)
	var h ResponseHeader
	var m []c29KV
	for s := 0; s < K; s++ {
		op := vChoose("op", 3)
		ki := vChoose("key", len(c29Keys))
		switch op {
		case 0:
			v := c29Val("v")
			h.Add(c29Keys[ki], string(v))
			m = c29Apply(m, 0, c29Canon[ki], v)
		case 1:
			v := c29Val("v")
			h.Set(c29Keys[ki], string(v))
			m = c29Apply(m, 1, c29Canon[ki], v)
		case 2:
			h.Del(c29Keys[ki])
			m = c29Apply(m, 2, c29Canon[ki], nil)
		}
	}
	c29Check(m, h.PeekAll, h.Peek)
	vAssert("len", h.Len() == len(m)+1) // + Content-Type default
}

// vhC29RequestOps: the same on a RequestHeader.
func vhC29RequestOps() {
	K := vParam("ops", 4)
	var h RequestHeader
	var m []c29KV
	for s := 0; s < K; s++ {
		op := vChoose("op", 3)
		ki := vChoose("key", len(c29Keys))
		switch op {
		case 0:
			v := c29Val("v")
			h.Add(c29Keys[ki], string(v))
			m = c29Apply(m, 0, c29Canon[ki], v)
		case 1:
			v := c29Val("v")
			h.Set(c29Keys[ki], string(v))
			m = c29Apply(m, 1, c29Canon[ki], v)
		case 2:
			h.Del(c29Keys[ki])
			m = c29Apply(m, 2, c29Canon[ki], nil)
		}
	}
	c29Check(m, h.PeekAll, h.Peek)
}
