package fasthttp

import (
	"bufio"
	"bytes"
)

// C29 — header API behaves as a case-insensitive ordered multimap.
//
// Model: a slice of (canonical name, value) in insertion order. Add appends;
// Set replaces the first value of the name (or appends); Del removes every
// value of the name and nothing else, keeping the order of the rest.

var c29Keys = [...]string{"X-A", "x-a", "X-B", "x-C"}
var c29Canon = [...]int{0, 0, 1, 2} // index of the canonical name of c29Keys[i]
var c29CanonNames = [...]string{"X-A", "X-B", "X-C"}

type c29KV struct {
	k int
	v []byte
}

func c29Val(name string) []byte {
	v := vBytes(name, 1)
	vAssume(v[0] != '\r' && v[0] != '\n')
	return v
}

func c29Apply(m []c29KV, op, k int, v []byte) []c29KV {
	switch op {
	case 0:
		return append(m, c29KV{k, v})
	case 1:
		for i := range m {
			if m[i].k == k {
				m[i].v = v
				return m
			}
		}
		return append(m, c29KV{k, v})
	default:
		var out []c29KV
		for _, e := range m {
			if e.k != k {
				out = append(out, e)
			}
		}
		return out
	}
}

func c29Check(m []c29KV, peekAll func(string) [][]byte, peek func(string) []byte) {
	okAll, okPeek := true, true
	for ck, name := range c29CanonNames {
		var want [][]byte
		for _, e := range m {
			if e.k == ck {
				want = append(want, e.v)
			}
		}
		got := peekAll(name)
		if len(got) != len(want) {
			okAll = false
		} else {
			for i := range want {
				if string(got[i]) != string(want[i]) {
					okAll = false
				}
			}
		}
		p := peek(name)
		if len(want) == 0 {
			if p != nil {
				okPeek = false
			}
		} else if string(p) != string(want[0]) {
			okPeek = false
		}
	}
	vAssert("peekall-values-and-order", okAll)
	vAssert("peek-first", okPeek)
}

// vhC29ResponseOps: K Add/Set/Del operations over ordinary names in mixed
// letter case on a ResponseHeader.
func vhC29ResponseOps() {
	K := vParam("ops", 4)
	var h ResponseHeader
	var m []c29KV
	for s := 0; s < K; s++ {
		op := vChoose("op", 3)
		ki := vChoose("key", len(c29Keys))
		switch op {
		case 0:
			v := c29Val("v")
			h.Add(c29Keys[ki], string(v))
			m = c29Apply(m, 0, c29Canon[ki], v)
		case 1:
			v := c29Val("v")
			h.Set(c29Keys[ki], string(v))
			m = c29Apply(m, 1, c29Canon[ki], v)
		case 2:
			h.Del(c29Keys[ki])
			m = c29Apply(m, 2, c29Canon[ki], nil)
		}
	}
	c29Check(m, h.PeekAll, h.Peek)
	vAssert("len", h.Len() == len(m)+1) // + Content-Type default
}

// vhC29RequestOps: the same on a RequestHeader.
func vhC29RequestOps() {
	K := vParam("ops", 4)
	var h RequestHeader
	var m []c29KV
	for s := 0; s < K; s++ {
		op := vChoose("op", 3)
		ki := vChoose("key", len(c29Keys))
		switch op {
		case 0:
			v := c29Val("v")
			h.Add(c29Keys[ki], string(v))
			m = c29Apply(m, 0, c29Canon[ki], v)
		case 1:
			v := c29Val("v")
			h.Set(c29Keys[ki], string(v))
			m = c29Apply(m, 1, c29Canon[ki], v)
		case 2:
			h.Del(c29Keys[ki])
			m = c29Apply(m, 2, c29Canon[ki], nil)
		}
	}
	c29Check(m, h.PeekAll, h.Peek)
}

// ---- specially handled names, CopyTo and write → read back ---------------

type c29Spec struct {
	name    string // spelling used in the call
	canon   int    // index into the canonical-name table of the harness
	special bool
}

// c29State: ordinary names as an ordered multimap, special names single-valued.
type c29State struct {
	multi   []c29KV
	single  map[int][]byte
	present map[int]bool
}

func (st *c29State) apply(op int, k c29Spec, v []byte) {
	if k.special {
		switch op {
		case 0, 1:
			st.single[k.canon] = v
			st.present[k.canon] = true
		default:
			delete(st.single, k.canon)
			st.present[k.canon] = false
		}
		return
	}
	st.multi = c29Apply(st.multi, op, k.canon, v)
}

func (st *c29State) check(tag string, canonNames []string, special []bool, peekAll func(string) [][]byte, peek func(string) []byte) {
	ok := true
	for ck, name := range canonNames {
		var want [][]byte
		if special[ck] {
			if st.present[ck] {
				want = [][]byte{st.single[ck]}
			}
		} else {
			for _, e := range st.multi {
				if e.k == ck {
					want = append(want, e.v)
				}
			}
		}
		got := peekAll(name)
		// an absent special name may be reported as one empty value or none
		if special[ck] && len(want) == 0 {
			for _, g := range got {
				if len(g) != 0 {
					ok = false
				}
			}
			if len(peek(name)) != 0 {
				ok = false
			}
			continue
		}
		if len(got) != len(want) {
			ok = false
			continue
		}
		for i := range want {
			if string(got[i]) != string(want[i]) {
				ok = false
			}
		}
		if len(want) > 0 && string(peek(name)) != string(want[0]) {
			ok = false
		}
		if len(want) == 0 && len(peek(name)) != 0 {
			ok = false
		}
	}
	vAssert(tag, ok)
}

func c29SpecVal(special bool, name string) []byte {
	if special && name == "Connection" && vBool("close") {
		return []byte("close")
	}
	v := vBytes("v", 1)
	// visible token byte: survives sanitising and a write → read round trip
	vAssume(v[0] > ' ' && v[0] < 0x7f && v[0] != ',' && v[0] != ';')
	return v
}

var c29RespKeys = [...]c29Spec{
	{"Content-Type", 0, true}, {"content-type", 0, true}, {"Server", 1, true}, {"Connection", 2, true},
	{"Content-Encoding", 3, true}, {"X-A", 4, false}, {"x-a", 4, false}, {"X-B", 5, false},
}
var c29RespCanon = []string{"Content-Type", "Server", "Connection", "Content-Encoding", "X-A", "X-B"}
var c29RespSpecial = []bool{true, true, true, true, false, false}

func vhC29SpecialResponse() {
	K := vParam("ops", 3)
	var h ResponseHeader
	h.noDefaultContentType = true
	h.noDefaultDate = true
	st := &c29State{single: map[int][]byte{}, present: map[int]bool{}}
	for s := 0; s < K; s++ {
		op := vChoose("op", 3)
		k := c29RespKeys[vChoose("key", len(c29RespKeys))]
		var v []byte
		if op != 2 {
			v = c29SpecVal(k.special, k.name)
		}
		switch op {
		case 0:
			h.Add(k.name, string(v))
		case 1:
			h.Set(k.name, string(v))
		case 2:
			h.Del(k.name)
		}
		st.apply(op, k, v)
	}
	st.check("observers-agree-with-the-model", c29RespCanon, c29RespSpecial, h.PeekAll, h.Peek)
	var h2 ResponseHeader
	h2.noDefaultContentType = true
	h2.noDefaultDate = true
	h.CopyTo(&h2)
	st.check("copy-agrees-with-the-model", c29RespCanon, c29RespSpecial, h2.PeekAll, h2.Peek)
	// write, then read back: same fields (an explicit length keeps the reader
	// from inferring "read until close", which is framing, not a field)
	h.SetContentLength(0)
	wire := append([]byte(nil), h.Header()...)
	vNote(string(wire))
	var h3 ResponseHeader
	h3.noDefaultContentType = true
	err := h3.Read(bufio.NewReader(bytes.NewReader(wire)))
	vAssert("serialised-header-reads-back", err == nil)
	if err == nil {
		st.check("read-back-agrees-with-the-model", c29RespCanon, c29RespSpecial, h3.PeekAll, h3.Peek)
	}
}

var c29ReqKeys = [...]c29Spec{
	{"Host", 0, true}, {"host", 0, true}, {"User-Agent", 1, true}, {"Connection", 2, true},
	{"Content-Type", 3, true}, {"X-A", 4, false}, {"x-a", 4, false}, {"X-B", 5, false},
}
var c29ReqCanon = []string{"Host", "User-Agent", "Connection", "Content-Type", "X-A", "X-B"}
var c29ReqSpecial = []bool{true, true, true, true, false, false}

func vhC29SpecialRequest() {
	K := vParam("ops", 3)
	var h RequestHeader
	st := &c29State{single: map[int][]byte{}, present: map[int]bool{}}
	for s := 0; s < K; s++ {
		op := vChoose("op", 3)
		k := c29ReqKeys[vChoose("key", len(c29ReqKeys))]
		var v []byte
		if op != 2 {
			v = c29SpecVal(k.special, k.name)
		}
		switch op {
		case 0:
			h.Add(k.name, string(v))
		case 1:
			h.Set(k.name, string(v))
		case 2:
			h.Del(k.name)
		}
		st.apply(op, k, v)
	}
	st.check("observers-agree-with-the-model", c29ReqCanon, c29ReqSpecial, h.PeekAll, h.Peek)
	var h2 RequestHeader
	h.CopyTo(&h2)
	st.check("copy-agrees-with-the-model", c29ReqCanon, c29ReqSpecial, h2.PeekAll, h2.Peek)
	if st.present[0] { // a request without Host does not read back
		h.SetRequestURI("/")
		wire := append([]byte(nil), h.Header()...)
		vNote(string(wire))
		var h3 RequestHeader
		err := h3.Read(bufio.NewReader(bytes.NewReader(wire)))
		vAssert("serialised-header-reads-back", err == nil)
		if err == nil {
			st.check("read-back-agrees-with-the-model", c29ReqCanon, c29ReqSpecial, h3.PeekAll, h3.Peek)
		}
	}
}

// vhC29ParsedRequest: a request header that was *read from the wire* (three to
// five field lines drawn from Cookie / X-A / X-B lines in any order), then one
// call that touches another name (reading or setting a cookie, PeekKeys,
// deleting X-B, adding X-B): the values under X-A, and their order, are what
// the wire carried — directly and after writing the header and reading it back.
var c29WireLines = [...]string{"Cookie: c=1", "X-A: 1", "X-A: 2", "X-A: 3", "X-B: 9", "Cookie: d=2", "X-A: 4"}

func vhC29ParsedRequest() {
	k := vLen("lines", 3, vParam("lines", 5))
	head := "GET / HTTP/1.1\r\nHost: a\r\n"
	var wantA []string
	for i := 0; i < k; i++ {
		l := c29WireLines[vChoose("line", len(c29WireLines))]
		head += l + "\r\n"
		if l[:4] == "X-A:" {
			wantA = append(wantA, l[5:])
		}
	}
	head += "\r\n"
	var h RequestHeader
	err0 := h.Read(bufio.NewReader(bytes.NewReader([]byte(head))))
	vAssert("head-parses", err0 == nil)
	if err0 != nil {
		return
	}
	switch vChoose("touch", 7) {
	case 0:
	case 1:
		h.Cookie("c")
	case 2:
		h.PeekKeys()
	case 3:
		h.Set("Cookie", "z=9")
	case 4:
		h.Del("X-B")
	case 5:
		h.Add("X-B", "8")
	case 6:
		h.SetCookie("n", "v")
	}
	same := func(h *RequestHeader) bool {
		got := h.PeekAll("X-A")
		if len(got) != len(wantA) {
			return false
		}
		for i := range got {
			if string(got[i]) != wantA[i] {
				return false
			}
		}
		return true
	}
	vAssert("other-names-keep-their-values-and-order", same(&h))
	var buf bytes.Buffer
	bw := bufio.NewWriter(&buf)
	h.Write(bw) //nolint:errcheck
	bw.Flush()  //nolint:errcheck
	var back RequestHeader
	err := back.Read(bufio.NewReader(bytes.NewReader(buf.Bytes())))
	vAssert("read-back-keeps-values-and-order", err == nil && same(&back))
}
