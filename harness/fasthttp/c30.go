package fasthttp

// C30 — integer codecs are exact.

const vMaxInt = int(^uint(0) >> 1)

// refDecFits reports whether the decimal digit string b (digits only,
// non-empty) denotes a value ≤ max, where maxDec is max written in decimal.
// It is a pure string comparison (strip leading zeros, compare lengths, then
// lexicographically) and shares nothing with the implementation's
// accumulate-and-guard loop.
func refDecFits(b []byte, maxDec string) bool {
	i := 0
	for i < len(b)-1 && b[i] == '0' {
		i++
	}
	s := b[i:]
	if len(s) != len(maxDec) {
		return len(s) < len(maxDec)
	}
	for k := 0; k < len(s); k++ {
		if s[k] != maxDec[k] {
			return s[k] < maxDec[k]
		}
	}
	return true
}

// refHornerWrap is the value of the digit string modulo 2^64.
func refHornerWrap(b []byte) uint64 {
	var v uint64
	for _, c := range b {
		v = v*10 + uint64(c-'0')
	}
	return v
}

func vMaxIntDec() string {
	if vMaxInt == 1<<31-1 {
		return "2147483647"
	}
	return "9223372036854775807"
}

// vhC30ParseUintDigits: for every all-digit string of length 1..N, ParseUint
// accepts iff the denoted number fits in int, and then returns exactly it.
func vhC30ParseUintDigits() {
	n := vLen("n", 1, vParam("maxDigits", 21))
	b := vBytes("b", n)
	for i := range b {
		vAssume(b[i] >= '0' && b[i] <= '9')
	}
	got, err := ParseUint(b)
	fits := refDecFits(b, vMaxIntDec())
	vAssert("accept-iff-fits", (err == nil) == fits)
	vAssert("value", err != nil || uint64(got) == refHornerWrap(b))
	vAssert("non-negative", err != nil || got >= 0)
}

func vhTrivial() {
	b := vByte("b")
	vAssert("t", b == b)
}
