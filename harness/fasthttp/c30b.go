package fasthttp

import (
	"bufio"
	"bytes"
)

func vAllDigits(b []byte) bool {
	for _, c := range b {
		if c < '0' || c > '9' {
			return false
		}
	}
	return true
}

// vhC30ParseUintAny: arbitrary bytes of length 0..N (N below the overflow
// region): accepted iff non-empty and all digits; a rejected input never
// yields a value ≥ 0 together with a nil error.
func vhC30ParseUintAny() {
	n := vLen("n", 0, vParam("maxAny", 4))
	b := vBytes("b", n)
	got, err := ParseUint(b)
	valid := n > 0 && vAllDigits(b)
	vAssert("any-accept-iff-digits", (err == nil) == valid)
	vAssert("any-value", err != nil || uint64(got) == refHornerWrap(b))
	cl, cerr := parseContentLength(b)
	vAssert("content-length-agrees", (cerr == nil) == valid && (cerr != nil || cl == got))
}

// vhC30AppendParse: ParseUint(AppendUint(n)) == n for every n in [0, 2^bits).
func vhC30AppendParse() {
	n := vInt("n")
	bits := uint(vParam("appendBits", 20))
	vAssume(n >= 0 && (n>>bits) == 0)
	s := AppendUint(nil, n)
	got, err := ParseUint(s)
	vAssert("append-parse-inverse", err == nil && got == n)
	vAssert("append-digits-only", len(s) > 0 && vAllDigits(s) && (len(s) == 1 || s[0] != '0'))
}

// vhC30HexRoundTrip: every non-negative int written by writeHexInt reads back
// through readHexInt to the same value, and the reader stops exactly after it.
func vhC30HexRoundTrip() {
	n := vInt("n")
	// chunk sizes are slice lengths; a value that needs more than
	// maxHexIntChars digits (≥ 2^60 on 64-bit) cannot be one.
	vAssume(n >= 0 && (n>>(4*maxHexIntChars)) == 0)
	var buf bytes.Buffer
	w := bufio.NewWriterSize(&buf, 64)
	err := writeHexInt(w, n)
	w.WriteByte(';')
	w.Flush()
	r := bufio.NewReaderSize(bytes.NewReader(buf.Bytes()), 64)
	got, rerr := readHexInt(r)
	vAssert("hex-roundtrip", err == nil && rerr == nil && got == n)
	c, cerr := r.ReadByte()
	vAssert("hex-reader-position", cerr == nil && c == ';')
}

func vHexDigit(nib, upper byte) byte {
	c := nib + '0'
	if nib > 9 {
		c = nib - 10 + 'a'
		if upper != 0 {
			c = nib - 10 + 'A'
		}
	}
	return c
}

// vhC30HexLen: hex-digit strings longer than maxHexIntChars are rejected;
// strings of at most maxHexIntChars digits are accepted with the exact value.
func vhC30HexLen() {
	n := vLen("n", 1, maxHexIntChars+2)
	nib := vBytes("nibbles", n)
	up := vBytes("upper", n)
	b := make([]byte, n)
	var want uint64
	for i := range nib {
		vAssume(nib[i] < 16 && up[i] < 2)
		b[i] = vHexDigit(nib[i], up[i])
		want = want<<4 | uint64(nib[i])
	}
	r := bufio.NewReaderSize(bytes.NewReader(append(b, '\r')), 64)
	got, err := readHexInt(r)
	if n > maxHexIntChars {
		vAssert("hex-too-long-rejected", err != nil)
	} else {
		vAssert("hex-value", err == nil && got >= 0 && uint64(got) == want)
	}
}
