package fasthttp

import "net"

// C31 — IPv4 codec.

// refIPv4 is the specification: four dot-separated non-empty decimal fields,
// each with a value at most 255 (any number of digits).
func refIPv4(s []byte) (ok bool, ip [4]byte) {
	field := 0
	val := 0
	digits := 0
	for i := 0; i <= len(s); i++ {
		if i == len(s) || s[i] == '.' {
			if digits == 0 || field > 3 {
				return false, ip
			}
			ip[field] = byte(val)
			field++
			val, digits = 0, 0
			continue
		}
		c := s[i]
		if c < '0' || c > '9' {
			return false, ip
		}
		val = val*10 + int(c-'0')
		if val > 255 {
			return false, ip
		}
		digits++
	}
	return field == 4, ip
}

func vhC31ParseIPv4() {
	n := vLen("n", 0, vParam("maxIP", 8))
	s := vBytes("s", n)
	got, err := ParseIPv4(nil, s)
	ok, want := refIPv4(s)
	vAssert("ipv4-accept-iff-spec", (err == nil) == ok)
	vAssert("ipv4-value", err != nil || (len(got) == 4 && got[0] == want[0] && got[1] == want[1] && got[2] == want[2] && got[3] == want[3]))
}

// vhC31IPv4RoundTrip: ParseIPv4(AppendIPv4(ip)) == ip. With allOctets=1 all
// four octets are symbolic; otherwise each position is symbolic in turn
// and the other three octets range over {0, 37, 255} (strconv's digit-pair
// table makes every octet value its own path, so this is the affordable bound).
func vhC31IPv4RoundTrip() {
	a := vBytes("ip", 4)
	if vParam("allOctets", 0) == 0 {
		pos := vChoose("pos", 4)
		fixed := [3]byte{0, 37, 255}
		for i := 0; i < 4; i++ {
			if i != pos {
				a[i] = fixed[vChoose("fixed", 3)]
			}
		}
	}
	s := AppendIPv4(nil, net.IP(a))
	got, err := ParseIPv4(nil, s)
	vAssert("ipv4-roundtrip", err == nil && len(got) == 4 && got[0] == a[0] && got[1] == a[1] && got[2] == a[2] && got[3] == a[3])
}

// vhC31Octet: parseIPv4Octet on every byte string of length 0..4: accepted iff
// non-empty, all digits, value ≤ 255 — with exactly that value.
func vhC31Octet() {
	n := vLen("n", 0, 4)
	b := vBytes("b", n)
	got, _, err := parseIPv4Octet(b)
	ok := n > 0
	val := 0
	for _, c := range b {
		if c < '0' || c > '9' {
			ok = false
		}
		val = val*10 + int(c-'0')
	}
	if val > 255 {
		ok = false
	}
	vAssert("octet-accept-iff-spec", (err == nil) == ok)
	vAssert("octet-value", err != nil || int(got) == val)
}
