package fasthttp

import (
	"net"
	"net/http"
	"net/netip"
	"time"
)

// C31 — IPv4 codec.

// refIPv4 is the specification: four dot-separated non-empty decimal fields,
// each with a value at most 255 (any number of digits).
func refIPv4(s []byte) (ok bool, ip [4]byte) {
	field := 0
	val := 0
	digits := 0
	for i := 0; i <= len(s); i++ {
		if i == len(s) || s[i] == '.' {
			if digits == 0 || field > 3 {
				return false, ip
			}
			ip[field] = byte(val)
			field++
			val, digits = 0, 0
			continue
		}
		c := s[i]
		if c < '0' || c > '9' {
			return false, ip
		}
		val = val*10 + int(c-'0')
		if val > 255 {
			return false, ip
		}
		digits++
	}
	return field == 4, ip
}

func vhC31ParseIPv4() {
	n := vLen("n", 0, vParam("maxIP", 8))
	s := vBytes("s", n)
	got, err := ParseIPv4(nil, s)
	ok, want := refIPv4(s)
	vAssert("ipv4-accept-iff-spec", (err == nil) == ok)
	vAssert("ipv4-value", err != nil || (len(got) == 4 && got[0] == want[0] && got[1] == want[1] && got[2] == want[2] && got[3] == want[3]))
}

// vhC31IPv4RoundTrip: ParseIPv4(AppendIPv4(ip)) == ip. With allOctets=1 all
// four octets are symbolic; otherwise each position is symbolic in turn
// and the other three octets range over {0, 37, 255} (strconv's digit-pair
// table makes every octet value its own path, so this is the affordable bound).
func vhC31IPv4RoundTrip() {
	a := vBytes("ip", 4)
	if vParam("allOctets", 0) == 0 {
		pos := vChoose("pos", 4)
		fixed := [3]byte{0, 37, 255}
		for i := 0; i < 4; i++ {
			if i != pos {
				a[i] = fixed[vChoose("fixed", 3)]
			}
		}
	}
	s := AppendIPv4(nil, net.IP(a))
	got, err := ParseIPv4(nil, s)
	vAssert("ipv4-roundtrip", err == nil && len(got) == 4 && got[0] == a[0] && got[1] == a[1] && got[2] == a[2] && got[3] == a[3])
}

// vhC31Octet: parseIPv4Octet on every byte string of length 0..4: accepted iff
// non-empty, all digits, value ≤ 255 — with exactly that value.
func vhC31Octet() {
	n := vLen("n", 0, 4)
	b := vBytes("b", n)
	got, _, err := parseIPv4Octet(b)
	ok := n > 0
	val := 0
	for _, c := range b {
		if c < '0' || c > '9' {
			ok = false
		}
		val = val*10 + int(c-'0')
	}
	if val > 255 {
		ok = false
	}
	vAssert("octet-accept-iff-spec", (err == nil) == ok)
	vAssert("octet-value", err != nil || int(got) == val)
}

// ---- HTTP dates --------------------------------------------------------

// c31DateGroups: byte ranges of "Mon, 02 Jan 2006 15:04:05 GMT" that are made
// symbolic one at a time (the rest stays a valid date).
var c31DateGroups = [...][2]int{
	{0, 3}, {3, 5}, {5, 7}, {7, 8}, {8, 11}, {11, 12}, {14, 16}, {16, 17}, {17, 19}, {19, 20}, {20, 22}, {22, 23}, {23, 25}, {25, 26}, {26, 29},
}

// vhC31HTTPDateFastPath: whenever the fast RFC 1123 parser accepts a 29-byte
// input, time.Parse(http.TimeFormat) (the standard library's own code,
// interpreted) accepts it too and yields the same instant.
func vhC31HTTPDateFastPath() {
	b := []byte("Mon, 02 Jan 2006 15:04:05 GMT")
	g := c31DateGroups[vChoose("group", len(c31DateGroups))]
	hole := vBytes("hole", g[1]-g[0])
	copy(b[g[0]:g[1]], hole)
	fast, ok := parseRFC1123DateGMT(b)
	if !ok {
		return
	}
	std, err := time.Parse(http.TimeFormat, string(b))
	vAssert("fast-path-accepts-only-what-time-parse-accepts", err == nil)
	if err == nil {
		vAssert("fast-path-returns-the-same-instant", fast.Unix() == std.Unix() && fast.Nanosecond() == std.Nanosecond())
	}
}

// vhC31HTTPDateCalendar: the calendar rules of the fast parser against the
// interpreted time.Parse, on "29 Feb", "30 Feb", "31 Apr" and "31 Dec" of
// century years CC00 and of years 20YY, for every value of the two free digits: the
// fast path accepts exactly the dates that exist, with the same instant.
func vhC31HTTPDateCalendar() {
	day := [...]string{"29 Feb", "30 Feb", "31 Apr", "31 Dec", "28 Feb"}[vChoose("day", 5)]
	// (digits as choices: calendar arithmetic on symbolic years is division by
	// constants, which the solvers do not decide in useful time)
	d := []byte{byte('0' + vChoose("tens", 10)), byte('0' + vChoose("units", 10))}
	year := string(d) + "00"
	if vBool("ordinaryYear") {
		year = "20" + string(d)
	}
	b := []byte("Mon, " + day + " " + year + " 12:00:00 GMT")
	fast, ok := parseRFC1123DateGMT(b)
	std, err := time.Parse(http.TimeFormat, string(b))
	vAssert("fast-path-accepts-only-what-time-parse-accepts", !ok || err == nil)
	if ok && err == nil {
		vAssert("fast-path-returns-the-same-instant", fast.Unix() == std.Unix())
	}
	// and the public parser agrees with time.Parse on acceptance
	_, perr := ParseHTTPDate(b)
	vAssert("ParseHTTPDate-accepts-exactly-the-dates-that-exist", (perr == nil) == (err == nil))
}

var c31Times = [...]time.Time{
	time.Date(1, 1, 1, 0, 0, 0, 0, time.UTC),
	time.Date(1970, 1, 1, 0, 0, 0, 999, time.UTC),
	time.Date(2000, 2, 29, 23, 59, 59, 500_000_000, time.UTC),
	time.Date(2023, 12, 31, 23, 59, 60, 0, time.UTC),
	time.Date(2024, 2, 29, 12, 0, 1, 1, time.FixedZone("x", 3600)),
	time.Date(9999, 12, 31, 23, 59, 59, 999_999_999, time.UTC),
	time.Date(2038, 1, 19, 3, 14, 8, 0, time.UTC),
}

// vhC31HTTPDateRoundTrip: ParseHTTPDate(AppendHTTPDate(t)) is t truncated to
// the second, on a table of boundary instants (formatting a symbolic instant
// needs 64-bit division by calendar constants, which no back end decides).
func vhC31HTTPDateRoundTrip() {
	t := c31Times[vChoose("time", len(c31Times))]
	s := AppendHTTPDate(nil, t)
	back, err := ParseHTTPDate(s)
	vAssert("round-trip", err == nil && back.Equal(t.Truncate(time.Second)))
	vAssert("29-bytes-ending-in-GMT", len(s) == 29 && string(s[26:]) == "GMT")
}

// ---- bracketed IPv6 literals vs net/netip --------------------------------

var c31V6Templates = [...]string{
	"::", "::1", "1::", "1:2:3:4:5:6:7:8", "1:2:3::8", "::ffff:1.2.3.4", "::1.2.3.4", "1:2:3:4:5:6:1.2.3.4", "1::1.2.3.4", "fe80::1%25e",
}

// vhC31IPv6Literal: "[" + address + "]" where the address is a template with
// a window of arbitrary bytes overwritten (or inserted) at any position:
// accepted ⇒ the address part (zone removed) is an IPv6 address for
// net/netip.ParseAddr (the standard library's code, interpreted), and every
// zone-less IPv6 address netip accepts is accepted.
func vhC31IPv6Literal() {
	t := []byte(c31V6Templates[vChoose("template", len(c31V6Templates))])
	w := vParam("window", 2)
	pos := vLen("pos", 0, len(t))
	hole := vBytes("hole", w)
	for _, c := range hole {
		vAssume(c != ']' && c != '[') // stay inside the brackets
	}
	var addr []byte
	if vBool("insert") || pos+w > len(t) {
		addr = append(append(append([]byte(nil), t[:pos]...), hole...), t[pos:]...)
	} else {
		addr = append([]byte(nil), t...)
		copy(addr[pos:], hole)
	}
	host := append(append([]byte("["), addr...), ']')
	accepted := validateIPv6Literal(host) == nil
	// the address part without a zone
	part := addr
	hasZone := false
	for i, c := range addr {
		if c == '%' {
			part, hasZone = addr[:i], true
			break
		}
	}
	a, err := netip.ParseAddr(string(part))
	is6 := err == nil && a.Is6() && a.Zone() == ""
	vNote(string(host))
	if accepted {
		vAssert("accepted-literal-is-an-ipv6-address-for-netip", is6)
	}
	if is6 && !hasZone {
		vAssert("every-zoneless-ipv6-address-is-accepted", accepted)
	}
}
