package fasthttp

import (
	"net/textproto"
)

// C32 — byte-class tables and canonicalisation match their definitions.
// The predicates below are written from the RFCs, not from
// bytesconv_table_gen.go (which is `//go:build ignore` and is not the oracle).

func c32IsAlpha(c byte) bool { return (c >= 'a' && c <= 'z') || (c >= 'A' && c <= 'Z') }
func c32IsDigit(c byte) bool { return c >= '0' && c <= '9' }

// RFC 3986 §2.3 unreserved = ALPHA / DIGIT / "-" / "." / "_" / "~"
func c32Unreserved(c byte) bool {
	return c32IsAlpha(c) || c32IsDigit(c) || c == '-' || c == '.' || c == '_' || c == '~'
}

// RFC 9110 §5.6.2 tchar
func c32TChar(c byte) bool {
	return c32IsAlpha(c) || c32IsDigit(c) ||
		c == '!' || c == '#' || c == '$' || c == '%' || c == '&' || c == '\'' || c == '*' ||
		c == '+' || c == '-' || c == '.' || c == '^' || c == '_' || c == '`' || c == '|' || c == '~'
}

// RFC 9110 §5.5 field-vchar / SP / HTAB / obs-text
func c32FieldValueByte(c byte) bool {
	return (c >= 0x21 && c <= 0x7e) || c == ' ' || c == '\t' || c >= 0x80
}

func c32HexVal(c byte) byte {
	switch {
	case c >= '0' && c <= '9':
		return c - '0'
	case c >= 'a' && c <= 'f':
		return c - 'a' + 10
	case c >= 'A' && c <= 'F':
		return c - 'A' + 10
	}
	return 16
}

// vhC32Tables: one symbolic byte; every table entry equals its predicate.
func vhC32Tables() {
	c := vByte("c")
	hv := c32HexVal(c)
	vAssert("hex2int-table", hex2intTable[c] == hv)
	vAssert("ishex", ishex(c) == (hv < 16))
	vAssert("unhex", hv >= 16 || unhex(c) == hv)

	lo, up := c, c
	if c >= 'A' && c <= 'Z' {
		lo = c + 32
	}
	if c >= 'a' && c <= 'z' {
		up = c - 32
	}
	vAssert("tolower-table", toLowerTable[c] == lo)
	vAssert("toupper-table", toUpperTable[c] == up)

	// query escaping: everything but unreserved is escaped
	vAssert("quoted-arg-table", (quotedArgShouldEscapeTable[int(c)] != 0) == !c32Unreserved(c))
	// path escaping: unreserved plus the sub-delims/pchar set "$&+,/:;=@" stay literal
	pathLiteral := c32Unreserved(c) || c == '$' || c == '&' || c == '+' || c == ',' || c == '/' ||
		c == ':' || c == ';' || c == '=' || c == '@'
	vAssert("quoted-path-table", (quotedPathShouldEscapeTable[int(c)] != 0) == !pathLiteral)

	vAssert("header-field-byte", validHeaderFieldByte(c) == c32TChar(c))
	vAssert("header-value-byte", validHeaderValueByte(c) == c32FieldValueByte(c))
	vAssert("method-byte", (validMethodValueByteTable[c] != 0) == c32TChar(c))
	vAssert("is-valid-method", isValidMethod([]byte{c}) == c32TChar(c))
}

// vhC32QuoteBytes: the escapers emit %XX with upper-case hex of exactly the
// byte, '+' for space (query only), or the byte itself.
func vhC32QuoteBytes() {
	c := vByte("c")
	const hexd = "0123456789ABCDEF"
	q := AppendQuotedArg(nil, []byte{c})
	switch {
	case c == ' ':
		vAssert("arg-space", len(q) == 1 && q[0] == '+')
	case c32Unreserved(c):
		vAssert("arg-literal", len(q) == 1 && q[0] == c)
	default:
		vAssert("arg-escaped", len(q) == 3 && q[0] == '%' && q[1] == hexd[c>>4] && q[2] == hexd[c&15])
	}
	// a second byte so that the single-'*' special case is not taken
	p := appendQuotedPath(nil, []byte{c, 'x'})
	lit := c32Unreserved(c) || c == '$' || c == '&' || c == '+' || c == ',' || c == '/' ||
		c == ':' || c == ';' || c == '=' || c == '@'
	if lit {
		vAssert("path-literal", len(p) == 2 && p[0] == c)
	} else {
		vAssert("path-escaped", len(p) == 4 && p[0] == '%' && p[1] == hexd[c>>4] && p[2] == hexd[c&15])
	}
}

// vhC32Canonical: for every token of tchar bytes, normalizeHeaderKey equals
// net/textproto.CanonicalMIMEHeaderKey (interpreted from the stdlib's SSA).
func vhC32Canonical() {
	n := vLen("n", 1, vParam("maxToken", 4))
	b := vBytes("k", n)
	for i := range b {
		vAssume(c32TChar(b[i]))
	}
	want := textproto.CanonicalMIMEHeaderKey(string(b))
	got := append([]byte(nil), b...)
	normalizeHeaderKey(got, false)
	vAssert("canonical-equals-textproto", string(got) == want)
	// with normalisation disabled the key is left alone
	raw := append([]byte(nil), b...)
	normalizeHeaderKey(raw, true)
	vAssert("disabled-is-identity", string(raw) == string(b))
}

// refHTMLEscape: the five substitutions documented for html.EscapeString.
func refHTMLEscape(s []byte) []byte {
	var out []byte
	for _, c := range s {
		switch c {
		case '&':
			out = append(out, "&amp;"...)
		case '\'':
			out = append(out, "&#39;"...)
		case '<':
			out = append(out, "&lt;"...)
		case '>':
			out = append(out, "&gt;"...)
		case '"':
			out = append(out, "&#34;"...)
		default:
			out = append(out, c)
		}
	}
	return out
}

func vhC32HTMLEscape() {
	n := vLen("n", 0, vParam("maxHTML", 4))
	s := vBytes("s", n)
	got := AppendHTMLEscapeBytes(nil, s)
	want := refHTMLEscape(s)
	vAssert("html-escape", string(got) == string(want))
	got2 := AppendHTMLEscape([]byte("x"), string(s))
	vAssert("html-escape-appends", len(got2) == 1+len(want) && got2[0] == 'x' && string(got2[1:]) == string(want))
}
