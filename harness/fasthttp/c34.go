package fasthttp

import (
	"bufio"
	"errors"
	"io"
	"runtime"
	"time"
)

// C34 — body streams deliver exact bytes and are closed exactly once.

type c34Stream struct {
	data    []byte
	pos     int
	chunk   int // bytes per Read (0: as many as fit)
	panicAt int // Read call number that panics (0: never)
	reads   int
	closed  int
	eofWithData bool // the Read that hands over the last bytes also returns io.EOF
}

func (s *c34Stream) Read(p []byte) (int, error) {
	s.reads++
	if s.panicAt > 0 && s.reads == s.panicAt {
		panic("c34: stream read panic")
	}
	if s.pos >= len(s.data) {
		return 0, io.EOF
	}
	n := len(s.data) - s.pos
	if s.chunk > 0 && n > s.chunk {
		n = s.chunk
	}
	if n > len(p) {
		n = len(p)
	}
	copy(p, s.data[s.pos:s.pos+n])
	s.pos += n
	if s.eofWithData && s.pos >= len(s.data) {
		return n, io.EOF
	}
	return n, nil
}

func (s *c34Stream) Close() error { s.closed++; return nil }

// c34Conn fails every Write from the failAt-th on (0: never).
type c34Conn struct {
	vsSegConn
	failAt int
	writes int
}

var errC34Write = errors.New("c34: write failed")

func (c *c34Conn) Write(b []byte) (int, error) {
	c.writes++
	if c.failAt > 0 && c.writes >= c.failAt {
		return 0, errC34Write
	}
	return c.vsSegConn.Write(b)
}

// vhC34ResponseStream: a response body stream (io.ReadCloser) with symbolic
// content, read chunking, declared size exact or unknown, optional panic in
// Read and optional write failure: Close is called exactly once; without a
// fault the peer's bytes decode to exactly what the stream produced.
func vhC34ResponseStream() {
	data := c05Sym("data", vParam("dataLen", 4))
	st := &c34Stream{data: data}
	if vBool("byteAtATime") {
		st.chunk = 1
	}
	st.panicAt = vChoose("panicAt", 3)
	st.eofWithData = vBool("lastBytesComeWithEOF")
	size := len(data)
	if vBool("unknownSize") {
		size = -1
	}
	c := &c34Conn{}
	c.segs = [][]byte{[]byte("GET /s HTTP/1.1\r\nHost: a\r\nConnection: close\r\n\r\n")}
	c.failAt = vChoose("failWriteAt", 2)
	s := &Server{NoDefaultDate: true, NoDefaultServerHeader: true}
	s.Handler = func(ctx *RequestCtx) {
		ctx.SetBodyStream(st, size)
	}
	s.ServeConn(c)
	vAssert("stream-closed-exactly-once", st.closed == 1)
	faulty := c.failAt > 0 || (st.panicAt > 0 && st.reads >= st.panicAt)
	if !faulty {
		rs, ok := c03Parse(c.wrote, nil)
		vAssert("peer-receives-exactly-the-stream", ok && len(rs) == 1 && rs[0].status == 200 && string(rs[0].body) == string(data))
	}
	vAssert("connection-closed", c.closed == 1)
}

// vhC34CompressedStream: the stream wrapper used for on-the-fly compression
// (newCompressedBodyStream: a goroutine copies the original stream through a
// codec into a pipe) with an identity codec: whether the consumer reads
// everything, a part, or nothing before closing — and closes once or twice,
// before or after the copying goroutine is done — the original stream is
// closed exactly once, and a consumer that reads to the end gets its bytes.
func vhC34CompressedStream() {
	data := c05Sym("data", vParam("dataLen", 4))
	orig := &c34Stream{data: data}
	if vBool("byteAtATime") {
		orig.chunk = 1
	}
	codec := func(sw *bufio.Writer, r io.Reader, level int) error {
		var buf [2]byte
		for {
			n, err := r.Read(buf[:])
			if n > 0 {
				if _, werr := sw.Write(buf[:n]); werr != nil {
					return werr
				}
				if werr := sw.Flush(); werr != nil {
					return werr
				}
			}
			vYield() // the consumer may act between two pieces
			if err != nil {
				return nil
			}
		}
	}
	s := newCompressedBodyStream(orig, 1, codec)
	var got []byte
	switch vChoose("consumer", 3) {
	case 0: // discard at once
	case 1: // read one byte, then discard
		var b [1]byte
		n, _ := s.Read(b[:])
		got = append(got, b[:n]...)
	case 2: // read to the end
		got, _ = io.ReadAll(s)
		vAssert("consumer-gets-the-stream-bytes", string(got) == string(data))
	}
	s.Close()
	if vBool("closeTwice") {
		s.Close()
	}
	for i := 0; i < 16; i++ {
		runtime.Gosched() // let the copying goroutine finish
	}
	time.Sleep(10 * time.Millisecond)
	vAssert("original-stream-closed-exactly-once", orig.closed == 1)
	vAssert("prefix-read-is-a-prefix", len(got) <= len(data) && string(got) == string(data[:len(got)]))
}

// vhC34RequestStream: the client side of the same clause — a request body
// stream of unknown or exact size, written by the real Request.Write (chunked
// or fixed length): what goes on the wire decodes to exactly the stream's
// bytes, and the stream is closed exactly once.
func vhC34RequestStream() {
	data := c05Sym("data", vParam("dataLen", 4))
	st := &c34Stream{data: data}
	if vBool("byteAtATime") {
		st.chunk = 1
	}
	st.eofWithData = vBool("lastBytesComeWithEOF")
	size := len(data)
	if vBool("unknownSize") {
		size = -1
	}
	var req Request
	req.Header.SetMethod(MethodPost)
	req.SetRequestURI("http://a.co/up")
	req.SetBodyStream(st, size)
	var wire []byte
	w := &c34Sink{out: &wire}
	bw := bufio.NewWriter(w)
	err := req.Write(bw)
	bw.Flush() //nolint:errcheck
	vAssert("request-written", err == nil)
	vAssert("stream-closed-exactly-once", st.closed == 1)
	// read it back with the server-side reader
	var back Request
	rerr := back.Read(bufio.NewReader(&c34Src{b: wire}))
	vAssert("peer-receives-exactly-the-stream", rerr == nil && string(back.Body()) == string(data))
}

type c34Sink struct{ out *[]byte }

func (s *c34Sink) Write(b []byte) (int, error) { *s.out = append(*s.out, b...); return len(b), nil }

type c34Src struct {
	b []byte
	i int
}

func (s *c34Src) Read(p []byte) (int, error) {
	if s.i >= len(s.b) {
		return 0, io.EOF
	}
	n := copy(p, s.b[s.i:])
	s.i += n
	return n, nil
}
