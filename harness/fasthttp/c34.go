package fasthttp

import (
	"errors"
	"io"
)

// C34 — body streams deliver exact bytes and are closed exactly once.

type c34Stream struct {
	data    []byte
	pos     int
	chunk   int // bytes per Read (0: as many as fit)
	panicAt int // Read call number that panics (0: never)
	reads   int
	closed  int
}

func (s *c34Stream) Read(p []byte) (int, error) {
	s.reads++
	if s.panicAt > 0 && s.reads == s.panicAt {
		panic("c34: stream read panic")
	}
	if s.pos >= len(s.data) {
		return 0, io.EOF
	}
	n := len(s.data) - s.pos
	if s.chunk > 0 && n > s.chunk {
		n = s.chunk
	}
	if n > len(p) {
		n = len(p)
	}
	copy(p, s.data[s.pos:s.pos+n])
	s.pos += n
	return n, nil
}

func (s *c34Stream) Close() error { s.closed++; return nil }

// c34Conn fails every Write from the failAt-th on (0: never).
type c34Conn struct {
	vsSegConn
	failAt int
	writes int
}

var errC34Write = errors.New("c34: write failed")

func (c *c34Conn) Write(b []byte) (int, error) {
	c.writes++
	if c.failAt > 0 && c.writes >= c.failAt {
		return 0, errC34Write
	}
	return c.vsSegConn.Write(b)
}

// vhC34ResponseStream: a response body stream (io.ReadCloser) with symbolic
// content, read chunking, declared size exact or unknown, optional panic in
// Read and optional write failure: Close is called exactly once; without a
// fault the peer's bytes decode to exactly what the stream produced.
func vhC34ResponseStream() {
	data := c05Sym("data", vParam("dataLen", 4))
	st := &c34Stream{data: data}
	if vBool("byteAtATime") {
		st.chunk = 1
	}
	st.panicAt = vChoose("panicAt", 3)
	size := len(data)
	if vBool("unknownSize") {
		size = -1
	}
	c := &c34Conn{}
	c.segs = [][]byte{[]byte("GET /s HTTP/1.1\r\nHost: a\r\nConnection: close\r\n\r\n")}
	c.failAt = vChoose("failWriteAt", 2)
	s := &Server{NoDefaultDate: true, NoDefaultServerHeader: true}
	s.Handler = func(ctx *RequestCtx) {
		ctx.SetBodyStream(st, size)
	}
	s.ServeConn(c)
	vAssert("stream-closed-exactly-once", st.closed == 1)
	faulty := c.failAt > 0 || (st.panicAt > 0 && st.reads >= st.panicAt)
	if !faulty {
		rs, ok := c03Parse(c.wrote, nil)
		vAssert("peer-receives-exactly-the-stream", ok && len(rs) == 1 && rs[0].status == 200 && string(rs[0].body) == string(data))
	}
	vAssert("connection-closed", c.closed == 1)
}
