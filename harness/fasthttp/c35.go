package fasthttp

import (
	"errors"
	"io"
	"mime/multipart"
)

// C35 (temporary-file half) — upload temp files do not outlive the request.
//
// mime/multipart only creates temporary files for parts beyond 16 MiB, far
// outside what can be executed symbolically, so the two calls into it are
// replaced under the engine (//verif:stub; natively the real ones run and this
// harness is not replayed): reading a form consumes the framed body and
// yields a Form that stands for "one temporary file exists", and
// Form.RemoveAll marks that file removed. Everything in between — when
// fasthttp parses, keeps, hands out and drops the form — is the real code.

var c35Created, c35Removed int
var c35Forms map[*multipart.Form]int // form -> times removed

var errC35Malformed = errors.New("c35: malformed multipart body")

//verif:stub github.com/valyala/fasthttp.readMultipartForm
func vstubReadMultipartForm(r io.Reader, boundary string, size, maxInMemoryFileSize int) (*multipart.Form, error) {
	if size <= 0 {
		return nil, errC35Malformed
	}
	body := make([]byte, size)
	n, _ := io.ReadFull(r, body)
	if n >= 3 && string(body[:3]) == "BAD" {
		return nil, errC35Malformed
	}
	f := &multipart.Form{Value: map[string][]string{"k": {"v"}}, File: map[string][]*multipart.FileHeader{"f": {{Filename: "upload.bin", Size: int64(n)}}}}
	c35Created++
	c35Forms[f] = 0
	return f, nil
}

//verif:stub (*mime/multipart.Form).RemoveAll
func vstubFormRemoveAll(f *multipart.Form) error {
	if _, ok := c35Forms[f]; ok {
		c35Forms[f]++
		if c35Forms[f] == 1 {
			c35Removed++
		}
	}
	return nil
}

func vhC35TempFiles() {
	c35Created, c35Removed = 0, 0
	c35Forms = map[*multipart.Form]int{}
	body := "GOODxxxx"
	if vBool("malformedForm") {
		body = "BADxxxxx"
	}
	first := "POST /upload HTTP/1.1\r\nHost: a\r\nContent-Type: multipart/form-data; boundary=b\r\nContent-Length: 8\r\n\r\n" + body
	second := "GET /next HTTP/1.1\r\nHost: a\r\nConnection: close\r\n\r\n"
	c := &vsSegConn{}
	if vBool("oneSegment") {
		c.segs = [][]byte{[]byte(first + second)}
	} else {
		c.segs = [][]byte{[]byte(first), []byte(second)}
	}
	s := &Server{NoDefaultDate: true, NoDefaultServerHeader: true}
	s.DisablePreParseMultipartForm = vBool("disablePreParse")
	s.ReduceMemoryUsage = vBool("reduceMemory")
	handlerMode := vChoose("handler", 4) // 0 ignore, 1 MultipartForm(), 2 MultipartForm() twice + FormFile-style access, 3 explicit RemoveMultipartFormFiles
	leftAtNext := -1
	var got *multipart.Form
	s.Handler = func(ctx *RequestCtx) {
		if string(ctx.Path()) == "/next" {
			leftAtNext = c35Created - c35Removed
			ctx.SetBodyString("ok")
			return
		}
		switch handlerMode {
		case 1:
			got, _ = ctx.MultipartForm()
		case 2:
			got, _ = ctx.MultipartForm()
			again, _ := ctx.MultipartForm()
			vAssert("same-form-on-second-access", again == got)
		case 3:
			got, _ = ctx.MultipartForm()
			ctx.Request.RemoveMultipartFormFiles()
		}
		ctx.SetBodyString("uploaded")
	}
	s.ServeConn(c)
	vAssert("no-temp-file-left-when-the-next-request-is-dispatched", leftAtNext <= 0)
	vAssert("no-temp-file-left-when-the-connection-is-done", c35Created == c35Removed)
	once := true
	for _, n := range c35Forms {
		if n < 1 {
			once = false
		}
	}
	vAssert("every-form-was-removed", once)
	vAssert("at-most-one-parse-per-request", c35Created <= 1)
	malformed := body[0] == 'B'
	if !malformed && (!s.DisablePreParseMultipartForm || handlerMode >= 1) {
		vAssert("form-was-parsed-when-asked-for", c35Created == 1 && (handlerMode == 0 || got != nil))
	}
}
