package fasthttp

import (
	"io"
	"mime/multipart"
)

// C35 (temporary-file half) — upload temp files do not outlive the request.
//
// mime/multipart only creates temporary files for parts beyond 16 MiB, far
// outside what can be executed symbolically, so the two calls into it are
// replaced under the engine (//verif:stub; natively the real ones run and this
// harness is not replayed): reading a form consumes the framed body and
// yields a Form that stands for "one temporary file exists", and
// Form.RemoveAll marks that file removed. Everything in between — when
// fasthttp parses, keeps, hands out and drops the form — is the real code.

var c35Created, c35Removed int
var c35Forms map[*multipart.Form]int // form -> times removed

// The form is read with the real mime/multipart part reader (NextPart over
// the real framed body), so the stream is consumed exactly as far as the real
// ReadForm would consume it; only the storing of parts is replaced: a file
// part stands for one temporary file.
//
//verif:stub (*mime/multipart.Reader).ReadForm
func vstubReadForm(r *multipart.Reader, maxMemory int64) (*multipart.Form, error) {
	f := &multipart.Form{Value: map[string][]string{}, File: map[string][]*multipart.FileHeader{}}
	files := 0
	for {
		p, err := r.NextPart()
		if err == io.EOF {
			break
		}
		if err != nil {
			return nil, err
		}
		data, err := io.ReadAll(p)
		if err != nil {
			return nil, err
		}
		if p.FileName() != "" {
			f.File[p.FormName()] = append(f.File[p.FormName()], &multipart.FileHeader{Filename: p.FileName(), Size: int64(len(data))})
			files++
		} else {
			f.Value[p.FormName()] = append(f.Value[p.FormName()], string(data))
		}
	}
	if files > 0 {
		c35Created++
		c35Forms[f] = 0
	}
	return f, nil
}

//verif:stub (*mime/multipart.Form).RemoveAll
func vstubFormRemoveAll(f *multipart.Form) error {
	if _, ok := c35Forms[f]; ok {
		c35Forms[f]++
		if c35Forms[f] == 1 {
			c35Removed++
		}
	}
	return nil
}

func vhC35TempFiles() {
	c35Created, c35Removed = 0, 0
	c35Forms = map[*multipart.Form]int{}
	body := "--b\r\nContent-Disposition: form-data; name=\"f\"; filename=\"u.bin\"\r\n\r\nDATA\r\n--b--\r\n"
	malformed := vBool("malformedForm")
	if malformed {
		body = "--b\r\nContent-Disposition: form-data; name=\"f\"; filename=\"u.bin\"\r\n\r\nDATA\r\n--b" // no closing delimiter
	}
	if vBool("bodyPoolLimit") {
		SetBodySizePoolLimit(4, 4) // buffers larger than this are dropped instead of pooled
	}
	first := "POST /upload HTTP/1.1\r\nHost: a\r\nContent-Type: multipart/form-data; boundary=b\r\nContent-Length: " + c07Digits(len(body)) + "\r\n\r\n" + body
	second := "GET /next HTTP/1.1\r\nHost: a\r\nConnection: close\r\n\r\n"
	c := &vsSegConn{}
	if vBool("oneSegment") {
		c.segs = [][]byte{[]byte(first + second)}
	} else {
		c.segs = [][]byte{[]byte(first), []byte(second)}
	}
	s := &Server{NoDefaultDate: true, NoDefaultServerHeader: true}
	s.DisablePreParseMultipartForm = vBool("disablePreParse")
	s.ReduceMemoryUsage = vBool("reduceMemory")
	s.StreamRequestBody = vBool("stream")
	// 0 ignore, 1 MultipartForm(), 2 MultipartForm() twice, 3 explicit RemoveMultipartFormFiles,
	// 4 MultipartFormWithLimit one byte below the body size, 5 ... exactly the body size
	handlerMode := vChoose("handler", 6)
	leftAtNext := -1
	var got *multipart.Form
	s.Handler = func(ctx *RequestCtx) {
		if string(ctx.Path()) == "/next" {
			leftAtNext = c35Created - c35Removed
			ctx.SetBodyString("ok")
			return
		}
		switch handlerMode {
		case 1:
			got, _ = ctx.MultipartForm()
		case 2:
			got, _ = ctx.MultipartForm()
			again, _ := ctx.MultipartForm()
			vAssert("same-form-on-second-access", again == got)
		case 3:
			got, _ = ctx.MultipartForm()
			ctx.Request.RemoveMultipartFormFiles()
		case 4:
			got, _ = ctx.Request.MultipartFormWithLimit(len(body) - 1)
		case 5:
			got, _ = ctx.Request.MultipartFormWithLimit(len(body))
		}
		ctx.SetBodyString("uploaded")
	}
	s.ServeConn(c)
	vAssert("no-temp-file-left-when-the-next-request-is-dispatched", leftAtNext <= 0)
	vAssert("no-temp-file-left-when-the-connection-is-done", c35Created == c35Removed)
	once := true
	for _, n := range c35Forms {
		if n < 1 {
			once = false
		}
	}
	vAssert("every-form-was-removed", once)
	vAssert("at-most-one-parse-per-request", c35Created <= 1)
	if !malformed && (handlerMode == 1 || handlerMode == 2 || handlerMode == 5) {
		vAssert("form-was-parsed-when-asked-for", c35Created == 1 && got != nil)
	}
	SetBodySizePoolLimit(-1, -1)
}
