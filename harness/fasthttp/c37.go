package fasthttp

import (
	"io/fs"
	"net"
	"sync"
	"sync/atomic"
	"time"
)

// C37 — documented-concurrent APIs are free of data races.
//
// The engine keeps a vector clock per goroutine and a shadow cell per memory
// slot and per map (engine/interp/race.go); every synchronisation operation it
// models (mutexes, channels, WaitGroup, Cond, Pool, sync/atomic, sync.Map,
// timers, go statements) is an acquire and/or release. Two accesses to one
// slot race when at least one writes, they come from different goroutines and
// neither happens before the other — whatever order the scheduler happened to
// run them in. These harnesses only *use* fasthttp the way its documentation
// allows from several goroutines; everything they share among their own
// goroutines goes through a mutex or an atomic.

// vhC37Server: one Server, two or three connections served by the worker pool
// at the same time, counters read from outside, then Shutdown while a
// connection is still open.
func vhC37Server() {
	ln := &vlListener{conns: make(chan net.Conn, 4), done: make(chan struct{})}
	var handled atomic.Int32
	s := &Server{NoDefaultServerHeader: true}
	s.NoDefaultDate = !vBool("dateHeader") // the Date value is refreshed by a background goroutine
	s.ReduceMemoryUsage = vBool("reduceMemory")
	slow := [...]time.Duration{0, 30 * time.Millisecond}[vChoose("handlerTakes", 2)]
	s.Handler = func(ctx *RequestCtx) {
		handled.Add(1)
		ctx.SetUserValue("k", string(ctx.Path()))
		if slow > 0 {
			time.Sleep(slow)
		}
		ctx.Response.Header.Set("X-Conn", string(ctx.Path()))
		ctx.SetBodyString("ok-" + string(ctx.Path()) + string(ctx.PostBody()))
		_ = ctx.ConnID()
		_ = ctx.RemoteAddr()
		_ = ctx.Time()
	}
	served := make(chan error, 1)
	go func() { served <- s.Serve(ln) }()
	n := 2 + vChoose("extraConn", 2)
	conns := make([]*vlConn, n)
	for i := range conns {
		conns[i] = newVlConn()
		ln.conns <- conns[i]
		req := "GET /c" + string(rune('0'+i)) + " HTTP/1.1\r\nHost: a\r\n\r\n"
		if i == 1 && vBool("post") {
			req = "POST /c1 HTTP/1.1\r\nHost: a\r\nContent-Length: 2\r\n\r\nhi"
		}
		conns[i].in <- []byte(req)
	}
	// documented as safe from any goroutine
	_ = s.GetOpenConnectionsCount()
	_ = s.GetCurrentConcurrency()
	time.Sleep([...]time.Duration{5, 100}[vChoose("then", 2)] * time.Millisecond)
	if vBool("secondRequestOnFirstConn") {
		conns[0].in <- []byte("GET /again HTTP/1.1\r\nHost: a\r\n\r\n")
	}
	_ = s.GetOpenConnectionsCount()
	err := s.Shutdown()
	<-served
	vAssert("shutdown-returns", err == nil && handled.Load() >= 1)
}

// vhC37HostClient: one HostClient used by two or three goroutines at once
// (each with its own Request / Response), over a scripted network whose
// connections answer after a delay, with MaxConns 1 (callers queue) or 2,
// while another goroutine reads the counters and closes idle connections.
func vhC37HostClient() {
	nw := &vcNet{}
	var nmu sync.Mutex
	delay := [...]time.Duration{0, 20 * time.Millisecond}[vChoose("serverDelay", 2)]
	closeAfter := vBool("serverCloses")
	slowClose := vBool("slowClose")
	gap := [...]time.Duration{0, 15 * time.Millisecond}[vChoose("pauseBetweenCalls", 2)]
	nw.onDial = func(k int, addr string) *vcConn {
		c := &vcConn{afterEOF: 1}
		if slowClose {
			c.onClose = func() { time.Sleep(30 * time.Millisecond) } // closing takes a while
		}
		resp := "HTTP/1.1 200 OK\r\nContent-Length: 2\r\n\r\nhi"
		if closeAfter {
			resp = "HTTP/1.1 200 OK\r\nContent-Length: 2\r\nConnection: close\r\n\r\nhi"
		}
		c.more = func(c *vcConn) {
			if delay > 0 {
				time.Sleep(delay) // every response takes the server this long
			}
			c.segs = append(c.segs, []byte(resp))
		}
		return c
	}
	dial := func(addr string) (net.Conn, error) {
		nmu.Lock() // the scripted network is the harness's own shared state
		defer nmu.Unlock()
		return nw.Dial(addr)
	}
	hc := &HostClient{Addr: "a.co:80", Dial: dial, MaxConns: 1 + vChoose("maxConns", 3), MaxConnWaitTimeout: 200 * time.Millisecond}
	hc.MaxIdleConnDuration = 50 * time.Millisecond
	K := 2 + vChoose("extraCaller", 2)
	staggered := vBool("callersStartStaggered")
	var wg sync.WaitGroup
	var okCalls atomic.Int32
	for i := 0; i < K; i++ {
		i := i
		wg.Add(1)
		go func() {
			defer wg.Done()
			var req Request
			var resp Response
			req.SetRequestURI("http://a.co/q" + string(rune('0'+i)))
			if staggered {
				time.Sleep(time.Duration(i) * 8 * time.Millisecond)
			}
			for r := 0; r < 2; r++ {
				if err := hc.Do(&req, &resp); err == nil && resp.StatusCode() == 200 {
					okCalls.Add(1)
				}
				time.Sleep(gap)
			}
		}()
	}
	wg.Add(1)
	go func() {
		defer wg.Done()
		_ = hc.ConnsCount()
		_ = hc.PendingRequests()
		_ = hc.LastUseTime()
		time.Sleep([...]time.Duration{2, 10, 25}[vChoose("closeIdleAt", 3)] * time.Millisecond)
		hc.CloseIdleConnections()
		_ = hc.ConnsCount()
	}()
	wg.Wait()
	time.Sleep(200 * time.Millisecond) // the idle-connection cleaner runs
	vAssert("calls-complete", okCalls.Load() >= 1)
}

// vhC37Client: one Client, calls to two hosts and to the same host from
// several goroutines (the host map and its cleaner), then CloseIdleConnections.
func vhC37Client() {
	var nmu sync.Mutex
	dials := 0
	c := &Client{MaxIdleConnDuration: 50 * time.Millisecond}
	c.Dial = func(addr string) (net.Conn, error) {
		nmu.Lock()
		dials++
		nmu.Unlock()
		vc := &vcConn{afterEOF: 1, delay: 5 * time.Millisecond}
		vc.more = func(c *vcConn) { c.segs = append(c.segs, []byte("HTTP/1.1 200 OK\r\nContent-Length: 2\r\n\r\nhi")) }
		return vc, nil
	}
	hosts := [...]string{"http://a.co/x", "http://b.co/y", "http://a.co/z"}
	var wg sync.WaitGroup
	var okCalls atomic.Int32
	K := 2 + vChoose("extraCaller", 2)
	for i := 0; i < K; i++ {
		i := i
		wg.Add(1)
		go func() {
			defer wg.Done()
			var req Request
			var resp Response
			req.SetRequestURI(hosts[i])
			if vBool("viaGet") {
				if code, _, err := c.Get(nil, hosts[i]); err == nil && code == 200 {
					okCalls.Add(1)
				}
				return
			}
			if err := c.DoTimeout(&req, &resp, time.Second); err == nil {
				okCalls.Add(1)
			}
		}()
	}
	wg.Wait()
	c.CloseIdleConnections()
	time.Sleep(200 * time.Millisecond) // the host-map cleaner runs
	vAssert("calls-complete", int(okCalls.Load()) == K)
}

// vhC37FS: one FS request handler called from two goroutines at once (each
// with its own RequestCtx, as the server does), for the same file and for
// different ones, with the cache cleaner running in between.
func vhC37FS() {
	mod := time.Date(2024, 5, 6, 7, 8, 9, 0, time.UTC)
	vf := &vfFS{files: map[string]*vfEntry{
		"r/a.bin": {data: []byte("0123456789"), mod: mod},
		"r/b.bin": {data: []byte("abcdefghij"), mod: mod},
	}}
	// the fake file system is shared by the handler's goroutines: serialise it
	locked := &c37LockedFS{inner: vf}
	locked.openDelay = [...]time.Duration{0, 5 * time.Millisecond}[vChoose("openTakes", 2)]
	stop := make(chan struct{})
	fsys := &FS{FS: locked, Root: "r", AcceptByteRange: true, CacheDuration: 50 * time.Millisecond, CleanStop: stop}
	fsys.SkipCache = vBool("skipCache")
	h := fsys.NewRequestHandler()
	targets := [...]string{"/a.bin", "/b.bin", "/missing"}
	var wg sync.WaitGroup
	var served atomic.Int32
	hold := [...]time.Duration{0, 10 * time.Millisecond, 80 * time.Millisecond}[vChoose("hold", 3)]
	for i := 0; i < 2; i++ {
		t1 := targets[vChoose("target", 3)]
		t2 := targets[vChoose("secondTarget", 3)]
		wg.Add(1)
		go func() {
			defer wg.Done()
			for _, t := range [...]string{t1, t2} {
				var ctx RequestCtx
				var req Request
				req.SetRequestURI(t)
				ctx.Init(&req, nil, nil)
				h(&ctx)
				time.Sleep(hold) // the response is "being sent": the file stays in use
				if ctx.Response.StatusCode() == 200 {
					var sink c37Sink
					ctx.Response.BodyWriteTo(&sink) //nolint:errcheck
					served.Add(1)
				}
				ctx.Response.Reset() // closes the body stream, releasing the file handle
				time.Sleep(30 * time.Millisecond)
			}
		}()
	}
	wg.Wait()
	time.Sleep(200 * time.Millisecond) // cache cleaner
	close(stop)
	vAssert("ran", served.Load() >= 0)
}

type c37Sink struct{ n int }

func (s *c37Sink) Write(b []byte) (int, error) { s.n += len(b); return len(b), nil }

// vhC37LBClient: concurrent calls through one LBClient while clients are
// added and removed.
func vhC37LBClient() {
	var cc LBClient
	var calls atomic.Int32
	for i := 0; i < 2; i++ {
		cc.Clients = append(cc.Clients, &c37Backend{calls: &calls, fail: i == 1 && vBool("secondFails")})
	}
	cc.HealthCheck = func(req *Request, resp *Response, err error) bool { return err == nil }
	var wg sync.WaitGroup
	K := 2 + vChoose("extraCaller", 2)
	for i := 0; i < K; i++ {
		wg.Add(1)
		go func() {
			defer wg.Done()
			var req Request
			var resp Response
			_ = cc.DoTimeout(&req, &resp, time.Second)
			_ = cc.Do(&req, &resp)
		}()
	}
	wg.Add(1)
	go func() {
		defer wg.Done()
		time.Sleep(time.Millisecond)
		cc.AddClient(&c37Backend{calls: &calls})
		cc.RemoveClients(func(b BalancingClient) bool { return b.(*c37Backend).fail })
	}()
	wg.Wait()
	vAssert("calls-made", calls.Load() >= 1)
}

type c37Backend struct {
	calls   *atomic.Int32
	pending atomic.Int32
	fail    bool
}

func (b *c37Backend) DoDeadline(req *Request, resp *Response, deadline time.Time) error {
	b.pending.Add(1)
	defer b.pending.Add(-1)
	b.calls.Add(1)
	time.Sleep(2 * time.Millisecond)
	if b.fail {
		return ErrTimeout
	}
	return nil
}
func (b *c37Backend) PendingRequests() int { return int(b.pending.Load()) }

// c37LockedFS serialises the recording file system (harness state shared by
// the goroutines that call the handler).
type c37LockedFS struct {
	mu        sync.Mutex
	inner     *vfFS
	openDelay time.Duration
}

type c37LockedFile struct {
	fs *c37LockedFS
	f  *vfFile
}

func (l *c37LockedFS) Open(name string) (fs.File, error) {
	if l.openDelay > 0 {
		time.Sleep(l.openDelay) // two requests for one uncached file can both miss the cache
	}
	l.mu.Lock()
	defer l.mu.Unlock()
	f, err := l.inner.Open(name)
	if err != nil {
		return nil, err
	}
	return &c37LockedFile{fs: l, f: f.(*vfFile)}, nil
}

func (f *c37LockedFile) Stat() (fs.FileInfo, error) {
	f.fs.mu.Lock()
	defer f.fs.mu.Unlock()
	return f.f.Stat()
}
func (f *c37LockedFile) Read(p []byte) (int, error) {
	f.fs.mu.Lock()
	defer f.fs.mu.Unlock()
	return f.f.Read(p)
}
func (f *c37LockedFile) ReadAt(p []byte, off int64) (int, error) {
	f.fs.mu.Lock()
	defer f.fs.mu.Unlock()
	return f.f.ReadAt(p, off)
}
func (f *c37LockedFile) Seek(offset int64, whence int) (int64, error) {
	f.fs.mu.Lock()
	defer f.fs.mu.Unlock()
	return f.f.Seek(offset, whence)
}
func (f *c37LockedFile) Close() error {
	f.fs.mu.Lock()
	defer f.fs.mu.Unlock()
	return f.f.Close()
}

// vhC37TimeoutStream: StreamRequestBody with TimeoutHandler; the wrapped
// handler is still reading the request body stream (the rest of the body
// arrives late) when the timeout fires and the serve loop answers in its place.
func vhC37TimeoutStream() {
	var got atomic.Int32
	s := &Server{NoDefaultDate: true, NoDefaultServerHeader: true, StreamRequestBody: true}
	s.ReduceMemoryUsage = vBool("reduceMemory")
	pause := [...]time.Duration{0, 80 * time.Millisecond}[vChoose("handlerPausesBetweenReads", 2)]
	oneSegment := vBool("bodyArrivesAtOnce")
	inner := func(ctx *RequestCtx) {
		buf := make([]byte, 64)
		rs := ctx.RequestBodyStream()
		for {
			n, err := rs.Read(buf[:4])
			got.Add(int32(n))
			if err != nil {
				break
			}
			time.Sleep(pause) // a handler that works on each piece for a while
		}
		ctx.SetBodyString("done")
	}
	s.Handler = TimeoutHandler(inner, 50*time.Millisecond, "timed out")
	c := newVlConn()
	chunked := vBool("chunked")
	done := make(chan error, 1)
	go func() { done <- s.ServeConn(c) }()
	if chunked && oneSegment {
		c.in <- []byte("POST /up HTTP/1.1\r\nHost: a\r\nTransfer-Encoding: chunked\r\n\r\n4\r\nabcd\r\n4\r\nefgh\r\n0\r\n\r\n")
		time.Sleep(300 * time.Millisecond)
		close(c.in)
		<-done
		vAssert("served", len(c.wrote) > 0 && got.Load() >= 4)
		return
	}
	if chunked {
		c.in <- []byte("POST /up HTTP/1.1\r\nHost: a\r\nTransfer-Encoding: chunked\r\n\r\n4\r\nabcd\r\n")
	} else {
		c.in <- []byte("POST /up HTTP/1.1\r\nHost: a\r\nContent-Length: 8\r\n\r\nabcd")
	}
	time.Sleep([...]time.Duration{100, 20}[vChoose("restArrivesAfter", 2)] * time.Millisecond)
	if chunked {
		c.in <- []byte("4\r\nefgh\r\n0\r\n\r\n")
	} else {
		c.in <- []byte("efgh")
	}
	time.Sleep(100 * time.Millisecond)
	close(c.in)
	<-done
	vAssert("served", len(c.wrote) > 0 && got.Load() >= 4)
}

// vhC37Pipeline: one PipelineClient with a short MaxIdleConnDuration used by
// two goroutines, each making a call, pausing longer than the idle duration
// (the writer's idle check runs meanwhile) and calling again.
func vhC37Pipeline() {
	var nmu sync.Mutex
	dials := 0
	pc := &PipelineClient{Addr: "a.co:80", MaxConns: 1 + vChoose("maxConns", 2), MaxPendingRequests: 4, MaxBatchDelay: time.Millisecond}
	pc.MaxIdleConnDuration = 20 * time.Millisecond
	srvDelay := [...]time.Duration{0, 150 * time.Millisecond}[vChoose("serverDelay", 2)]
	pc.Dial = func(addr string) (net.Conn, error) {
		nmu.Lock()
		c := newVpConn(dials)
		c.delay = srvDelay // a slow answer keeps a call in flight across several idle checks
		dials++
		nmu.Unlock()
		return c, nil
	}
	var wg sync.WaitGroup
	var okCalls atomic.Int32
	pause := [...]time.Duration{5, 50}[vChoose("pause", 2)] * time.Millisecond
	for i := 0; i < 2; i++ {
		i := i
		wg.Add(1)
		go func() {
			defer wg.Done()
			if i == 1 {
				time.Sleep(7 * time.Millisecond)
			}
			for r := 0; r < 2; r++ {
				var req Request
				var resp Response
				req.SetRequestURI("http://a.co/p" + string(rune('0'+i)))
				if err := pc.DoTimeout(&req, &resp, time.Second); err == nil {
					okCalls.Add(1)
				}
				_ = pc.PendingRequests()
				time.Sleep(pause)
			}
		}()
	}
	wg.Wait()
	time.Sleep(100 * time.Millisecond)
	vAssert("calls-complete", okCalls.Load() >= 2)
}

// vhC37DialerRefresh: one TCPDialer with a short DNS cache: a first dial fills
// the cache, the entry expires, and two or three dials of the same host start
// together while the refresh lookup is slow and succeeds or fails.
func vhC37DialerRefresh() {
	c41InProgress, c41MaxInProgress = 0, 0
	c41Behaviour = map[string]int{}
	r := &c41Resolver{addrs: []net.IPAddr{{IP: net.IPv4(10, 0, 0, 1)}, {IP: net.IPv4(10, 0, 0, 2)}}}
	r.takes = 20 * time.Millisecond
	if vBool("refreshFails") {
		r.failFrom = 2
	}
	d := &TCPDialer{Concurrency: 4, Resolver: r, DNSCacheDuration: 50 * time.Millisecond}
	if c, err := d.DialTimeout("h.test:80", time.Second); err == nil {
		c.Close()
	}
	time.Sleep(100 * time.Millisecond) // the cache entry has expired
	K := 2 + vChoose("thirdDial", 2)
	var wg sync.WaitGroup
	var okDials atomic.Int32
	for i := 0; i < K; i++ {
		i := i
		wg.Add(1)
		go func() {
			defer wg.Done()
			time.Sleep(time.Duration(i) * 5 * time.Millisecond)
			if c, err := d.DialTimeout("h.test:80", time.Second); err == nil {
				okDials.Add(1)
				c.Close()
			}
		}()
	}
	wg.Wait()
	if c, err := d.DialTimeout("h.test:80", time.Second); err == nil {
		okDials.Add(1)
		c.Close()
	}
	vAssert("dials-return", okDials.Load() >= 0)
}
