package fasthttp

import (
	"errors"
	"time"
)

// C40 — LBClient routes to the least-loaded client; penalties stay bounded.
// One call from an arbitrary state that satisfies the invariant
// penalty ≤ maxPenalty (inductive step: the invariant is re-established).

type c40Fake struct {
	id      int
	pending int
	fail    bool
	calls   *[]int
}

var errC40 = errors.New("c40: backend failure")

func (f *c40Fake) DoDeadline(req *Request, resp *Response, deadline time.Time) error {
	*f.calls = append(*f.calls, f.id)
	if f.fail {
		return errC40
	}
	return nil
}

func (f *c40Fake) PendingRequests() int { return f.pending }

func vhC40Route() {
	n := vLen("clients", 1, vParam("clients", 3))
	var calls []int
	var cc LBClient
	fakes := make([]*c40Fake, n)
	for i := range fakes {
		fakes[i] = &c40Fake{id: i, pending: vIntRange("pending", 0, 1<<20), fail: vBool("fail"), calls: &calls}
		cc.Clients = append(cc.Clients, fakes[i])
	}
	cc.once.Do(cc.init)
	load := make([]int, n)
	tot := make([]uint64, n)
	pen := make([]uint32, n)
	for i, c := range cc.cs {
		p := vUint32("penalty")
		vAssume(p <= maxPenalty)
		t := vUint64("total")
		vAssume(t < 1<<62)
		c.penalty, c.total = p, t
		load[i], tot[i], pen[i] = fakes[i].pending+int(p), t, p
	}
	var req Request
	var resp Response
	err := cc.DoDeadline(&req, &resp, time.Time{})
	vAssert("exactly-one-backend-called", len(calls) == 1)
	if len(calls) != 1 {
		return
	}
	k := calls[0]
	minimal := true
	for i := 0; i < n; i++ {
		if load[i] < load[k] || (load[i] == load[k] && tot[i] < tot[k]) {
			minimal = false
		}
	}
	vAssert("routed-to-minimal-load", minimal)
	vAssert("error-passed-through", (err != nil) == fakes[k].fail)
	c := cc.cs[k]
	if fakes[k].fail {
		wantPen := pen[k]
		if pen[k] < maxPenalty {
			wantPen = pen[k] + 1
		}
		// at the cap the failure is not penalised further (and is counted in total)
		vAssert("penalty-bounded-step", c.penalty == wantPen && c.penalty <= maxPenalty && (c.total == tot[k] || (pen[k] == maxPenalty && c.total == tot[k]+1)))
		time.Sleep(penaltyDuration + 100*time.Millisecond)
		vAssert("penalty-expires-after-3s", c.penalty == pen[k])
	} else {
		vAssert("success-counts-total", c.total == tot[k]+1 && c.penalty == pen[k])
	}
	for i := 0; i < n; i++ {
		if i != k {
			vAssert("others-untouched", cc.cs[i].penalty == pen[i] && cc.cs[i].total == tot[i])
		}
	}
}

// vhC40NoClients: with every client removed a call returns
// ErrNoAvailableClients instead of panicking.
func vhC40NoClients() {
	var calls []int
	var cc LBClient
	n := vLen("clients", 1, 2)
	for i := 0; i < n; i++ {
		cc.Clients = append(cc.Clients, &c40Fake{id: i, pending: vIntRange("pending", 0, 10), calls: &calls})
	}
	cc.once.Do(cc.init)
	keep := vBool("keepfirst")
	left := cc.RemoveClients(func(c BalancingClient) bool { return !(keep && c.(*c40Fake).id == 0) })
	var req Request
	var resp Response
	err := cc.Do(&req, &resp)
	if keep {
		vAssert("remaining-client-served", left == 1 && err == nil && len(calls) == 1 && calls[0] == 0)
	} else {
		vAssert("no-clients-error", left == 0 && err == ErrNoAvailableClients && len(calls) == 0)
	}
}

// c40YieldFake lets other goroutines run while the balancer is reading loads.
type c40YieldFake struct {
	c40Fake
}

func (f *c40YieldFake) PendingRequests() int {
	vYield()
	return f.pending
}

// vhC40RemoveDuringCall: one call selecting among 2..3 clients (the selection
// yields at every load it reads) while another goroutine removes clients:
// no panic, and the call either goes to a client or reports that none is left.
func vhC40RemoveDuringCall() {
	n := 2 + vChoose("clients", 2)
	var calls []int
	var cc LBClient
	for i := 0; i < n; i++ {
		f := &c40YieldFake{c40Fake{id: i, pending: vChoose("pending", 3), calls: &calls}}
		cc.Clients = append(cc.Clients, f)
	}
	cc.once.Do(cc.init) // the balancer has been used before (RemoveClients acts on the initialised list)
	removeFrom := vChoose("removeFrom", n) // clients with id ≥ removeFrom go away
	done := make(chan struct{}, 2)
	var err error
	go func() {
		vYield() // the removal may also come first
		var req Request
		var resp Response
		err = cc.DoDeadline(&req, &resp, time.Time{})
		done <- struct{}{}
	}()
	left := -1
	go func() {
		vYield()
		left = cc.RemoveClients(func(b BalancingClient) bool { return b.(*c40YieldFake).id >= removeFrom })
		done <- struct{}{}
	}()
	<-done
	<-done
	vAssert("removal-result", left == removeFrom)
	if err == nil {
		vAssert("call-went-to-exactly-one-client", len(calls) == 1)
	} else {
		vAssert("only-no-available-clients-is-reported", err == ErrNoAvailableClients && len(calls) == 0)
	}
	var req Request
	var resp Response
	err2 := cc.DoDeadline(&req, &resp, time.Time{})
	if removeFrom == 0 {
		vAssert("no-clients-left-is-an-error-not-a-panic", err2 == ErrNoAvailableClients)
	} else {
		vAssert("remaining-clients-still-serve", err2 == nil && calls[len(calls)-1] < removeFrom)
	}
}
