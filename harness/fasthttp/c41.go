package fasthttp

import (
	"context"
	"errors"
	"net"
	"os"
	"time"
)

// C41 — TCPDialer bounds concurrent dials and honours its timeout.
//
// The real TCPDialer.dial / tryDial (slot channel, timers, context deadline)
// on the engine's scheduler with virtual time; the operating system's dialer
// is replaced by the stub below (natively the real net.Dialer runs, so sampled
// paths are not replayed natively for this harness).

var c41InProgress, c41MaxInProgress int
var c41Behaviour map[string]int // per address: 0 connect, 1 refuse, 2 hang until the deadline, 3/4 hang and net reports the expiry before the context's timer has fired

//verif:stub (*net.Dialer).DialContext
func vstubDialContext(d *net.Dialer, ctx context.Context, network, addr string) (net.Conn, error) {
	c41InProgress++
	if c41InProgress > c41MaxInProgress {
		c41MaxInProgress = c41InProgress
	}
	defer func() { c41InProgress-- }()
	vYield() // other dials may start while this one is on its way
	switch c41Behaviour[addr] {
	case 1:
		return nil, errVcDial
	case 2:
		<-ctx.Done()
		return nil, ctx.Err()
	case 3, 4:
		// net.(*netFD).connect arms the socket's write deadline from the
		// context's deadline and returns the poller's error when WaitWrite
		// fails while ctx.Done() is not closed yet: the poller's deadline and
		// the context's own timer are two independent runtime timers set to
		// the same instant, so the dial can come back with "i/o timeout"
		// (os.ErrDeadlineExceeded inside a *net.OpError) a moment before
		// ctx.Err() turns non-nil (behaviour 3). net.(*sysDialer).dialSerial
		// compares the deadline with the clock itself and returns net's
		// unexported timeout error, which matches context.DeadlineExceeded
		// (behaviour 4). The moment is 1 µs of virtual time here.
		if dl, ok := ctx.Deadline(); ok {
			if w := time.Until(dl) - time.Microsecond; w > 0 {
				time.Sleep(w)
			}
			if c41Behaviour[addr] == 4 {
				return nil, &net.OpError{Op: "dial", Net: network, Err: c41NetTimeout{}}
			}
			return nil, &net.OpError{Op: "dial", Net: network, Err: os.ErrDeadlineExceeded}
		}
		<-ctx.Done()
		return nil, ctx.Err()
	}
	time.Sleep(10 * time.Millisecond)
	return &vcConn{addr: addr}, nil
}

// c41NetTimeout has the shape of net's unexported timeoutError.
type c41NetTimeout struct{}

func (c41NetTimeout) Error() string     { return "i/o timeout" }
func (c41NetTimeout) Timeout() bool     { return true }
func (c41NetTimeout) Temporary() bool   { return true }
func (c41NetTimeout) Is(err error) bool { return err == context.DeadlineExceeded }

func vhC41Dialer() {
	c41InProgress, c41MaxInProgress = 0, 0
	c41Behaviour = map[string]int{}
	N := vIntRange("concurrency", 1, 2)
	K := vParam("dials", 3)
	d := &TCPDialer{Concurrency: N, DisableDNSResolution: true}
	const T = time.Second
	type result struct {
		conn    net.Conn
		err     error
		elapsed time.Duration
	}
	res := make([]result, K)
	done := make(chan int, K)
	start := time.Now()
	addrs := [...]string{"10.0.0.1:80", "10.0.0.2:80", "10.0.0.3:80", "10.0.0.4:80"}
	for i := 0; i < K; i++ {
		c41Behaviour[addrs[i]] = vChoose("endpoint", 3)
	}
	for i := 0; i < K; i++ {
		i := i
		go func() {
			c, err := d.DialTimeout(addrs[i], T)
			res[i] = result{c, err, time.Since(start)}
			done <- i
		}()
	}
	for i := 0; i < K; i++ {
		<-done
	}
	vAssert("at-most-Concurrency-dials-in-progress", c41MaxInProgress <= N)
	ok := true
	for i := 0; i < K; i++ {
		r := res[i]
		var up *ErrDialWithUpstream
		switch {
		case r.err == nil:
			if r.conn == nil || c41Behaviour[addrs[i]] != 0 {
				ok = false
			}
		case errors.Is(r.err, ErrDialTimeout):
			// a timeout is reported with the upstream address and no later than the timeout
			if !errors.As(r.err, &up) || up.Upstream != addrs[i] || r.elapsed > T+50*time.Millisecond {
				ok = false
			}
		default:
			if !errors.As(r.err, &up) || up.Upstream != addrs[i] || c41Behaviour[addrs[i]] != 1 {
				ok = false
			}
		}
		if r.elapsed > T+50*time.Millisecond {
			ok = false
		}
	}
	vAssert("every-dial-returns-by-its-timeout-with-the-right-outcome", ok)
	vAssert("slots-returned", len(d.concurrencyCh) == 0)
}

type c41Resolver struct {
	addrs    []net.IPAddr
	calls    int
	takes    time.Duration // the lookup takes this long
	failFrom int           // lookups from this call number on fail (0: never)
}

var errC41Lookup = errors.New("c41: lookup failed")

func (r *c41Resolver) LookupIPAddr(ctx context.Context, host string) ([]net.IPAddr, error) {
	r.calls++
	n := r.calls
	if r.takes > 0 {
		time.Sleep(r.takes)
	}
	if r.failFrom > 0 && n >= r.failFrom {
		return nil, errC41Lookup
	}
	return r.addrs, nil
}

// vhC41Rotation: a host resolving to 2..3 addresses; each resolved address is
// tried once, in rotation, before the dial fails; a hanging endpoint ends the
// attempt with ErrDialTimeout.
func vhC41Rotation() {
	c41InProgress, c41MaxInProgress = 0, 0
	c41Behaviour = map[string]int{}
	n := 2 + vChoose("addresses", 2)
	r := &c41Resolver{}
	var tried []string
	for i := 0; i < n; i++ {
		ip := net.IPv4(10, 0, 0, byte(i+1))
		r.addrs = append(r.addrs, net.IPAddr{IP: ip})
		c41Behaviour[ip.String()+":80"] = vChoose("endpoint", 5)
	}
	_ = tried
	// a name lookup that takes 400 ms is part of the call's time budget
	r.takes = [...]time.Duration{0, 400 * time.Millisecond}[vChoose("lookupTakes", 2)]
	d := &TCPDialer{Concurrency: 1, Resolver: r}
	start := time.Now()
	c, err := d.DialTimeout("h.test:80", time.Second)
	elapsed := time.Since(start)
	// expected outcome: walk the addresses in rotation from the dialer's index
	idx := 1 // the first dial of a fresh entry starts at index 1
	var want int = -1
	timedOut := false
	for k := 0; k < n; k++ {
		a := r.addrs[(idx+k)%n].IP.String() + ":80"
		b := c41Behaviour[a]
		if b == 0 {
			want = (idx + k) % n
			break
		}
		if b >= 2 { // hangs; the expiry is reported in one of the three ways
			timedOut = true
			break
		}
	}
	switch {
	case want >= 0:
		vc, _ := c.(*vcConn)
		vAssert("connects-to-the-first-reachable-address-in-rotation", err == nil && vc != nil && vc.addr == r.addrs[want].IP.String()+":80")
	case timedOut:
		vAssert("hanging-endpoint-ends-with-dial-timeout", errors.Is(err, ErrDialTimeout) && elapsed <= time.Second+50*time.Millisecond)
	default:
		vAssert("all-refused-fails-after-trying-each-address", err != nil && !errors.Is(err, ErrDialTimeout))
	}
	vAssert("resolved-once", r.calls == 1)
}

// vhC41ConcurrentRotation: two dials of the same multi-address host at the
// same time, exactly one address accepting and the others refusing: each dial
// walks the addresses in rotation, so both must connect.
func vhC41ConcurrentRotation() {
	c41InProgress, c41MaxInProgress = 0, 0
	c41Behaviour = map[string]int{}
	n := 2 + vChoose("addresses", 2)
	live := vChoose("liveAddress", n)
	r := &c41Resolver{}
	for i := 0; i < n; i++ {
		ip := net.IPv4(10, 0, 0, byte(i+1))
		r.addrs = append(r.addrs, net.IPAddr{IP: ip})
		if i != live {
			c41Behaviour[ip.String()+":80"] = 1
		}
	}
	d := &TCPDialer{Concurrency: 1 + vChoose("concurrency", 2), Resolver: r}
	errs := make([]error, 2)
	done := make(chan int, 2)
	for i := 0; i < 2; i++ {
		i := i
		go func() {
			vYield()
			_, errs[i] = d.DialTimeout("h.test:80", time.Second)
			done <- i
		}()
	}
	<-done
	<-done
	vAssert("every-dial-reaches-the-one-live-address", errs[0] == nil && errs[1] == nil)
}

// vhC41SocketDeadlineFirst: the endpoint hangs and the operating system's
// dialer reports the expiry the way net.(*netFD).connect can: as the poller's
// "i/o timeout" returned a moment before the context's own timer has fired
// (behaviour 3 of the stub). For the caller this is the requested timeout
// running out, so the outcome has to be ErrDialTimeout with the upstream
// address, like for an expiry seen through ctx.Done().
func vhC41SocketDeadlineFirst() {
	c41InProgress, c41MaxInProgress = 0, 0
	c41Behaviour = map[string]int{"10.0.0.1:80": 2 + vChoose("expirySeenThrough", 3)}
	d := &TCPDialer{Concurrency: vChoose("concurrency", 2), DisableDNSResolution: true}
	T := [...]time.Duration{time.Millisecond, time.Second}[vChoose("timeout", 2)]
	start := time.Now()
	var c net.Conn
	var err error
	if vChoose("dualStack", 2) == 1 {
		c, err = d.DialDualStackTimeout("10.0.0.1:80", T)
	} else {
		c, err = d.DialTimeout("10.0.0.1:80", T)
	}
	elapsed := time.Since(start)
	var up *ErrDialWithUpstream
	vAssert("expired-dial-is-ErrDialTimeout-with-the-upstream-address",
		c == nil && errors.Is(err, ErrDialTimeout) && errors.As(err, &up) && up.Upstream == "10.0.0.1:80")
	vAssert("returns-by-the-timeout", elapsed <= T+50*time.Millisecond)
	vAssert("slots-returned", len(d.concurrencyCh) == 0)
}
