package fasthttp

import (
	"errors"
	"io"
	"net"
	"time"
)

// Client-side fixture: a scripted server behind a recording dialer.
//
// vcConn is what HostClient.Dial returns: Write records the request bytes
// (or fails), Read serves a scripted response byte stream segment by segment
// (or fails in a scripted way), Close is counted. Nothing here interprets
// HTTP: the real transport.RoundTrip / Response.Read do.

type vcTimeoutErr struct{}

func (vcTimeoutErr) Error() string   { return "vc: i/o timeout" }
func (vcTimeoutErr) Timeout() bool   { return true }
func (vcTimeoutErr) Temporary() bool { return true }

var errVcWrite = errors.New("vc: write failed")
var errVcDial = errors.New("vc: dial refused")
var errVcReset = errors.New("vc: connection reset")

const (
	vcOK          = iota // answer with the scripted response
	vcWriteErr           // every Write fails
	vcEOF                // Read returns io.EOF before any response byte
	vcReadTimeout        // Read returns a timeout error before any response byte
	vcReadReset          // Read returns a non-timeout error before any response byte
	vcNumFaults
)

type vcConn struct {
	id      int
	addr    string
	fault   int
	delay   time.Duration // consumed (time.Sleep) by the first Read or failing Write
	segs    [][]byte      // response stream, one segment per Read
	next    int
	off     int
	wrote   []byte
	writes  int
	closed  int
	readPos int // total response bytes handed to the client
	afterEOF int // what Read returns once the script is exhausted: 0 EOF, 1 timeout
	ioAfterClose int
	slept   bool
	more    func(c *vcConn) // called when the script is exhausted and the client reads on: may append segments
	// TLS markers (engine's transparent crypto/tls model): bytes written inside
	// TLS are kept apart from bytes written to the raw connection
	onClose    func() // called at the first Close
	tls        bool
	serverName string
	tlsWrote   []byte
}

// VTLSHandshake, VTLSWrite and VTLSRead are called by the engine's model of
// *tls.Conn instead of Write / Read (the real crypto/tls never calls them).
func (c *vcConn) VTLSHandshake(serverName string) { c.tls = true; c.serverName = serverName }
func (c *vcConn) VTLSWrite(b []byte) (int, error) {
	c.writes++
	c.tlsWrote = append(c.tlsWrote, b...)
	return len(b), nil
}
func (c *vcConn) VTLSRead(b []byte) (int, error) { return c.Read(b) }

func vcContains(hay []byte, needle string) bool {
	for i := 0; i+len(needle) <= len(hay); i++ {
		if string(hay[i:i+len(needle)]) == needle {
			return true
		}
	}
	return false
}

func (c *vcConn) sleepOnce() {
	if !c.slept {
		c.slept = true
		if c.delay > 0 {
			time.Sleep(c.delay)
		}
	}
}

func (c *vcConn) Read(b []byte) (int, error) {
	if c.closed > 0 {
		c.ioAfterClose++
	}
	c.sleepOnce()
	switch c.fault {
	case vcEOF:
		return 0, io.EOF
	case vcReadTimeout:
		return 0, vcTimeoutErr{}
	case vcReadReset:
		return 0, errVcReset
	}
	if c.next >= len(c.segs) && c.more != nil {
		c.more(c)
	}
	if c.next >= len(c.segs) {
		if c.afterEOF == 1 {
			return 0, vcTimeoutErr{}
		}
		return 0, io.EOF
	}
	seg := c.segs[c.next][c.off:]
	n := copy(b, seg)
	c.off += n
	c.readPos += n
	if c.off >= len(c.segs[c.next]) {
		c.next++
		c.off = 0
	}
	return n, nil
}

func (c *vcConn) Write(b []byte) (int, error) {
	if c.closed > 0 {
		c.ioAfterClose++
	}
	c.writes++
	if c.fault == vcWriteErr {
		c.sleepOnce()
		return 0, errVcWrite
	}
	c.wrote = append(c.wrote, b...)
	return len(b), nil
}
func (c *vcConn) Close() error {
	c.closed++
	if c.closed == 1 && c.onClose != nil {
		c.onClose()
	}
	return nil
}
func (c *vcConn) LocalAddr() net.Addr                { return &net.TCPAddr{IP: net.IPv4(10, 0, 0, 2), Port: 4321} }
func (c *vcConn) RemoteAddr() net.Addr               { return &net.TCPAddr{IP: net.IPv4(10, 0, 0, 1), Port: 80} }
func (c *vcConn) SetDeadline(t time.Time) error      { return nil }
func (c *vcConn) SetReadDeadline(t time.Time) error  { return nil }
func (c *vcConn) SetWriteDeadline(t time.Time) error { return nil }

// vcNet is the scripted network: every Dial produces the next connection
// through the onDial callback (nil conn ⇒ dial error).
type vcNet struct {
	conns  []*vcConn
	dials  int
	onDial func(k int, addr string) *vcConn
}

func (n *vcNet) Dial(addr string) (net.Conn, error) {
	k := n.dials
	n.dials++
	c := n.onDial(k, addr)
	if c == nil {
		return nil, errVcDial
	}
	c.id = k
	c.addr = addr
	n.conns = append(n.conns, c)
	return c, nil
}

// transmissions: connections on which the client attempted to write a request.
func (n *vcNet) transmissions() int {
	t := 0
	for _, c := range n.conns {
		if c.writes > 0 {
			t++
		}
	}
	return t
}

func vhClientSmoke() {
	nw := &vcNet{}
	nw.onDial = func(k int, addr string) *vcConn {
		return &vcConn{segs: [][]byte{[]byte("HTTP/1.1 200 OK\r\nContent-Length: 2\r\n\r\nhi")}}
	}
	hc := &HostClient{Addr: "a.co:80", Dial: nw.Dial}
	var req Request
	var resp Response
	req.SetRequestURI("http://a.co/x")
	err := hc.Do(&req, &resp)
	vNote(string(nw.conns[0].wrote))
	vAssert("ok", err == nil && resp.StatusCode() == 200 && string(resp.Body()) == "hi")
	vAssert("pooled", hc.ConnsCount() == 1 && len(hc.conns) == 1 && nw.conns[0].closed == 0)
	b := vByte("b")
	vAssert("t", b == b)
}
