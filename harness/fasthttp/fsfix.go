package fasthttp

import (
	"io"
	"io/fs"
	"time"
)

// File-system fixture for the FS handler (C23, C24, C25): an in-memory fs.FS
// that records every Open, and whose files count Close calls and flag any
// Read / Seek / ReadAt / Stat made after Close.

type vfEntry struct {
	data  []byte
	mod   time.Time
	isDir bool
}

type vfFS struct {
	files  map[string]*vfEntry
	opened []string // every name passed to Open, in order
	stats  []string
	handles []*vfFile
	readDelay time.Duration // every Read / ReadAt takes this long
}

type vfInfo struct {
	name string
	e    *vfEntry
}

func (i vfInfo) Name() string { return i.name }
func (i vfInfo) Size() int64  { return int64(len(i.e.data)) }
func (i vfInfo) Mode() fs.FileMode {
	if i.e.isDir {
		return fs.ModeDir | 0o755
	}
	return 0o644
}
func (i vfInfo) ModTime() time.Time { return i.e.mod }
func (i vfInfo) IsDir() bool        { return i.e.isDir }
func (i vfInfo) Sys() any           { return nil }

type vfFile struct {
	fsys       *vfFS
	name       string
	e          *vfEntry
	pos        int
	closed     int
	afterClose int // operations attempted after Close
	reads      int
}

func vfBase(name string) string {
	for i := len(name) - 1; i >= 0; i-- {
		if name[i] == '/' {
			return name[i+1:]
		}
	}
	return name
}

func (f *vfFS) Open(name string) (fs.File, error) {
	f.opened = append(f.opened, name)
	e, ok := f.files[name]
	if !ok {
		return nil, &fs.PathError{Op: "open", Path: name, Err: fs.ErrNotExist}
	}
	h := &vfFile{fsys: f, name: name, e: e}
	f.handles = append(f.handles, h)
	return h, nil
}

func (h *vfFile) Stat() (fs.FileInfo, error) {
	if h.closed > 0 {
		h.afterClose++
		return nil, fs.ErrClosed
	}
	return vfInfo{vfBase(h.name), h.e}, nil
}

func (h *vfFile) Read(p []byte) (int, error) {
	if h.closed > 0 {
		h.afterClose++
		return 0, fs.ErrClosed
	}
	h.reads++
	if d := h.fsys.readDelay; d > 0 {
		time.Sleep(d)
		if h.closed > 0 {
			h.afterClose++ // closed while this read was in progress
		}
	}
	if h.pos >= len(h.e.data) {
		return 0, io.EOF
	}
	n := copy(p, h.e.data[h.pos:])
	h.pos += n
	return n, nil
}

func (h *vfFile) ReadAt(p []byte, off int64) (int, error) {
	if h.closed > 0 {
		h.afterClose++
		return 0, fs.ErrClosed
	}
	h.reads++
	if int(off) >= len(h.e.data) {
		return 0, io.EOF
	}
	n := copy(p, h.e.data[off:])
	if n < len(p) {
		return n, io.EOF
	}
	return n, nil
}

func (h *vfFile) Seek(offset int64, whence int) (int64, error) {
	if h.closed > 0 {
		h.afterClose++
		return 0, fs.ErrClosed
	}
	switch whence {
	case io.SeekStart:
		h.pos = int(offset)
	case io.SeekCurrent:
		h.pos += int(offset)
	case io.SeekEnd:
		h.pos = len(h.e.data) + int(offset)
	}
	return int64(h.pos), nil
}

func (h *vfFile) Close() error {
	h.closed++
	return nil
}

// vfInside reports whether name is root itself or lexically below it, and has
// no "." / ".." / empty segment after the root.
func vfInside(name, root string) bool {
	rest := name
	if root != "" && root != "." {
		if len(name) < len(root) || name[:len(root)] != root {
			return false
		}
		rest = name[len(root):]
		if rest == "" {
			return true
		}
		if rest[0] != '/' {
			return false
		}
		rest = rest[1:]
	}
	// every segment of rest is a plain name
	start := 0
	ok := true
	for i := 0; i <= len(rest); i++ {
		if i == len(rest) || rest[i] == '/' {
			seg := rest[start:i]
			if seg == ".." {
				ok = false
			}
			start = i + 1
		}
	}
	return ok
}
