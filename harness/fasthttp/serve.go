package fasthttp

import (
	"io"
	"net"
	"time"
)

// vsConn is a scripted in-memory connection for the serve loop.
type vsConn struct {
	in     []byte
	pos    int
	chunk  int // max bytes per Read (0: all)
	wrote  []byte
	closed int
	reads  int
}

func (c *vsConn) Read(b []byte) (int, error) {
	c.reads++
	if c.pos >= len(c.in) {
		return 0, io.EOF
	}
	n := len(c.in) - c.pos
	if c.chunk > 0 && n > c.chunk {
		n = c.chunk
	}
	if n > len(b) {
		n = len(b)
	}
	copy(b, c.in[c.pos:c.pos+n])
	c.pos += n
	return n, nil
}
func (c *vsConn) Write(b []byte) (int, error)        { c.wrote = append(c.wrote, b...); return len(b), nil }
func (c *vsConn) Close() error                       { c.closed++; return nil }
func (c *vsConn) LocalAddr() net.Addr                { return &net.TCPAddr{IP: net.IPv4(10, 0, 0, 1), Port: 80} }
func (c *vsConn) RemoteAddr() net.Addr               { return &net.TCPAddr{IP: net.IPv4(10, 0, 0, 2), Port: 1234} }
func (c *vsConn) SetDeadline(t time.Time) error      { return nil }
func (c *vsConn) SetReadDeadline(t time.Time) error  { return nil }
func (c *vsConn) SetWriteDeadline(t time.Time) error { return nil }

// vsSegConn delivers one scripted segment per Read call.
type vsSegConn struct {
	segs   [][]byte
	next   int
	off    int
	wrote  []byte
	closed int
	ioAfterEnd int // Read/Write calls made after the server gave the connection up
	ended  bool
}

func (c *vsSegConn) Read(b []byte) (int, error) {
	if c.ended {
		c.ioAfterEnd++
	}
	if c.next >= len(c.segs) {
		return 0, io.EOF
	}
	seg := c.segs[c.next][c.off:]
	n := copy(b, seg)
	c.off += n
	if c.off >= len(c.segs[c.next]) {
		c.next++
		c.off = 0
	}
	return n, nil
}
func (c *vsSegConn) Write(b []byte) (int, error) {
	if c.ended {
		c.ioAfterEnd++
	}
	c.wrote = append(c.wrote, b...)
	return len(b), nil
}
func (c *vsSegConn) Close() error                       { c.closed++; return nil }
func (c *vsSegConn) LocalAddr() net.Addr                { return &net.TCPAddr{IP: net.IPv4(10, 0, 0, 1), Port: 80} }
func (c *vsSegConn) RemoteAddr() net.Addr               { return &net.TCPAddr{IP: net.IPv4(10, 0, 0, 2), Port: 1234} }
func (c *vsSegConn) SetDeadline(t time.Time) error      { return nil }
func (c *vsSegConn) SetReadDeadline(t time.Time) error  { return nil }
func (c *vsSegConn) SetWriteDeadline(t time.Time) error { return nil }

var vsRequests = [...]string{
	"GET /a HTTP/1.1\r\nHost: a\r\n\r\n",
	"GET /b HTTP/1.1\r\nHost: a\r\nConnection: close\r\n\r\n",
	"GET /c HTTP/1.0\r\nHost: a\r\n\r\n",
	"GET /d HTTP/1.0\r\nHost: a\r\nConnection: keep-alive\r\n\r\n",
	"POST /e HTTP/1.1\r\nHost: a\r\nContent-Length: 3\r\n\r\nabc",
	"BAD\r\n\r\n",
}

// vsCountResponses splits the bytes the server wrote into responses with a
// minimal independent reader (status line, header lines, Content-Length body)
// and reports, per response, whether it carried "Connection: close" /
// "Connection: keep-alive". ok=false if the stream does not parse.
type vsResp struct {
	status    int
	close     bool
	keepAlive bool
	tag       string // value of the X-Tag header, if any
	body      string
}

func vsParseResponses(w []byte) (rs []vsResp, ok bool) {
	i := 0
	for i < len(w) {
		var r vsResp
		// status line
		if len(w)-i < 12 || string(w[i:i+9]) != "HTTP/1.1 " {
			return rs, false
		}
		r.status = int(w[i+9]-'0')*100 + int(w[i+10]-'0')*10 + int(w[i+11]-'0')
		cl := 0
		first := true
		for {
			j := i
			for j+1 < len(w) && !(w[j] == '\r' && w[j+1] == '\n') {
				j++
			}
			if j+1 >= len(w) {
				return rs, false
			}
			line := w[i:j]
			i = j + 2
			if len(line) == 0 {
				break
			}
			if first {
				first = false
				continue
			}
			if c05FoldEq(line, "Connection: close") {
				r.close = true
			}
			if c05FoldEq(line, "Connection: keep-alive") {
				r.keepAlive = true
			}
			const tagp = "X-Tag: "
			if len(line) > len(tagp) && c05FoldEq(line[:len(tagp)], tagp) {
				r.tag = string(line[len(tagp):])
			}
			const clp = "Content-Length: "
			if len(line) > len(clp) && c05FoldEq(line[:len(clp)], clp) {
				for _, d := range line[len(clp):] {
					cl = cl*10 + int(d-'0')
				}
			}
		}
		if i+cl > len(w) {
			return rs, false
		}
		r.body = string(w[i : i+cl])
		i += cl
		rs = append(rs, r)
	}
	return rs, true
}

// vhC14ConnState: connection histories (0..N requests one per Read, valid,
// closing, HTTP/1.0, with body, malformed; optional hijack by the last
// handler; ReduceMemoryUsage on/off) — the recorded ConnState sequence.
func vhC14ConnState() {
	nreq := vLen("requests", 0, vParam("requests", 2))
	c := &vsSegConn{}
	oneRead := nreq > 1 && vBool("pipelinedInOneRead")
	var all []byte
	for i := 0; i < nreq; i++ {
		// the last request may be malformed or break off inside its head
		kinds := len(vsRequests) - 1
		if i == nreq-1 {
			kinds = len(vsRequests) + 1
		}
		k := vChoose("req", kinds)
		r := "GET /trunc HTTP/1.1\r\nHo"
		if k < len(vsRequests) {
			r = vsRequests[k]
		}
		if oneRead {
			all = append(all, r...)
		} else {
			c.segs = append(c.segs, []byte(r))
		}
	}
	if oneRead {
		c.segs = [][]byte{all}
	}
	hijackAt := -1
	if nreq > 0 && vBool("hijack") {
		hijackAt = vChoose("hijackAt", nreq)
	}
	var states []ConnState
	activeBeforeByte := false
	handled := 0
	s := &Server{NoDefaultDate: true, NoDefaultServerHeader: true, ReduceMemoryUsage: vBool("reduceMemory")}
	s.ConnState = func(nc net.Conn, st ConnState) {
		states = append(states, st)
		if st == StateActive {
			// requests arrive one per Read: the k-th Active needs the k-th segment
			na := 0
			for _, x := range states {
				if x == StateActive {
					na++
				}
			}
			delivered := c.next
			if c.off > 0 {
				delivered++
			}
			if oneRead && delivered > 0 {
				delivered = nreq // everything arrived with the first read
			}
			if delivered < na {
				// listed finding: the first StateActive of a connection is
				// reported before any byte has been read.
				if !(na == 1 && vKnown("C14-first-active-before-byte")) {
					activeBeforeByte = true
				}
			}
		}
	}
	s.Handler = func(ctx *RequestCtx) {
		if handled == hijackAt {
			ctx.Hijack(func(net.Conn) {})
		}
		handled++
		ctx.SetBodyString("ok")
	}
	s.ServeConn(c)
	// New (Active Idle)* [Active] (Closed|Hijacked)
	seq := states
	if vKnown("C14-serveconn-no-statenew") {
		// listed finding: Server.ServeConn never reports StateNew (only the
		// listener path Server.Serve does); the rest of the machine is checked.
		seq = append([]ConnState{StateNew}, states...)
	}
	ok := len(seq) >= 2 && seq[0] == StateNew
	last := StateNew
	if len(seq) > 0 {
		last = seq[len(seq)-1]
	}
	if last != StateClosed && last != StateHijacked {
		ok = false
	}
	for i := 1; i+1 < len(seq); i++ {
		want := StateActive
		if i%2 == 0 {
			want = StateIdle
		}
		if seq[i] != want {
			ok = false
		}
	}
	str := ""
	for _, x := range states {
		str += x.String() + " "
	}
	vNote("states: " + str)
	vAssert("state-machine", ok)
	vAssert("active-only-after-a-byte", !activeBeforeByte)
	vAssert("hijacked-only-if-a-handler-hijacked", last != StateHijacked || (hijackAt >= 0 && handled > hijackAt))
}

// vhC10Persistence: per response, the connection stays open exactly when the
// response does not carry "Connection: close".
func vhC10Persistence() {
	nreq := vLen("requests", 1, vParam("requests", 2))
	c := &vsSegConn{}
	for i := 0; i < nreq; i++ {
		c.segs = append(c.segs, []byte(vsRequests[vChoose("req", len(vsRequests)-1)]))
	}
	// a sentinel request that is only served if the connection is still open
	c.segs = append(c.segs, []byte("GET /sentinel HTTP/1.1\r\nHost: a\r\nConnection: close\r\n\r\n"))
	s := &Server{NoDefaultDate: true, NoDefaultServerHeader: true}
	s.DisableKeepalive = vBool("disableKeepalive")
	s.MaxRequestsPerConn = vChoose("maxRequestsPerConn", 3) // 0: unlimited
	s.ReduceMemoryUsage = vBool("reduceMemory")
	handlerClose := vChoose("handlerCloseAt", nreq+1) // == nreq: never
	timeoutAt := vChoose("handlerTimeoutErrorAt", nreq+1) // == nreq: never
	timeoutWithClose := timeoutAt < nreq && vBool("timeoutResponseSaysClose")
	type seen struct {
		http10, reqClose, reqKeepAlive bool
	}
	var reqs []seen
	s.Handler = func(ctx *RequestCtx) {
		if len(reqs) == handlerClose {
			ctx.SetConnectionClose()
		}
		reqs = append(reqs, seen{
			http10:       !ctx.Request.Header.IsHTTP11(),
			reqClose:     string(ctx.Request.Header.Peek("Connection")) == "close" || ctx.Request.Header.ConnectionClose(),
			reqKeepAlive: string(ctx.Request.Header.Peek("Connection")) == "keep-alive",
		})
		ctx.SetBodyString("ok")
		if len(reqs)-1 == timeoutAt {
			// the handler gives up on this request: the server answers with
			// the timeout response and goes on with a fresh context
			if timeoutWithClose {
				var tr Response
				tr.SetStatusCode(StatusGatewayTimeout)
				tr.SetBodyString("late")
				tr.SetConnectionClose()
				ctx.TimeoutErrorWithResponse(&tr)
			} else {
				ctx.TimeoutError("late")
			}
		}
	}
	s.ServeConn(c)
	rs, ok := vsParseResponses(c.wrote)
	vAssert("responses-parse", ok && len(rs) == len(reqs) && len(rs) >= 1)
	if !ok || len(rs) != len(reqs) {
		return
	}
	good, mustClose, ka10 := true, true, true
	for i, r := range rs {
		isLast := i == len(rs)-1
		// kept open exactly when the response does not say close
		if r.close != isLast {
			good = false
		}
		q := reqs[i]
		must := q.reqClose || (q.http10 && !q.reqKeepAlive) || s.DisableKeepalive || (s.MaxRequestsPerConn > 0 && i+1 >= s.MaxRequestsPerConn) || (i == handlerClose && i != timeoutAt) || (i == timeoutAt && timeoutWithClose)
		if must && !r.close {
			mustClose = false
		}
		if q.http10 && q.reqKeepAlive && !r.close && !r.keepAlive {
			ka10 = false
		}
	}
	vAssert("open-exactly-when-no-connection-close", good)
	vAssert("close-sent-whenever-required", mustClose)
	vAssert("http10-keepalive-echoed", ka10)
	vAssert("closed-at-end", c.closed == 1)
}

func vhServeSmoke() {
	c := &vsConn{in: []byte("GET /x HTTP/1.1\r\nHost: a\r\n\r\n")}
	n := 0
	s := &Server{NoDefaultDate: true, NoDefaultServerHeader: true, Handler: func(ctx *RequestCtx) {
		n++
		ctx.SetBodyString("hi")
	}}
	err := s.ServeConn(c)
	vNote(string(c.wrote))
	vAssert("served", err == nil && n == 1 && len(c.wrote) > 12 && string(c.wrote[:12]) == "HTTP/1.1 200")
	b := vByte("b")
	vAssert("t", b == b)
}
