package fasthttpadaptor

import (
	"bufio"
	"bytes"
	"crypto/tls"
	"errors"
	"io"
	"net"
	"net/http"
	"runtime"
	"time"

	"github.com/valyala/fasthttp"
)

// C36 — fasthttpadaptor handlers behave like the same handler under net/http.
//
// The oracle is net/http itself, interpreted by the engine: the same handler
// program is served once by net/http's own Server (accept loop, conn.serve,
// response / chunkWriter) and once by fasthttp's Server through
// NewFastHTTPHandler, both over scripted in-memory connections, and the two
// final responses are compared as a client would see them. For the request
// half, net/http's own parse of the request bytes (http.ReadRequest) is
// compared with what ConvertRequest builds inside the real fasthttp serve loop.

// scripted connection: hands out the request, then EOF; records what is written
type vaConn struct {
	in      []byte
	wrote   []byte
	closed  int
	closeCh chan struct{}
}

func newVaConn(raw string) *vaConn { return &vaConn{in: []byte(raw), closeCh: make(chan struct{})} }

func (c *vaConn) Read(b []byte) (int, error) {
	if len(c.in) == 0 {
		return 0, io.EOF
	}
	n := copy(b, c.in)
	c.in = c.in[n:]
	return n, nil
}
func (c *vaConn) Write(b []byte) (int, error) {
	if c.closed > 0 {
		return 0, errVaClosed
	}
	c.wrote = append(c.wrote, b...)
	return len(b), nil
}
func (c *vaConn) Close() error {
	c.closed++
	if c.closed == 1 {
		close(c.closeCh)
	}
	return nil
}
func (c *vaConn) LocalAddr() net.Addr                { return &net.TCPAddr{IP: net.IPv4(10, 0, 0, 1), Port: 80} }
func (c *vaConn) RemoteAddr() net.Addr               { return &net.TCPAddr{IP: net.IPv4(10, 0, 0, 2), Port: 1234} }
func (c *vaConn) SetDeadline(t time.Time) error      { return nil }
func (c *vaConn) SetReadDeadline(t time.Time) error  { return nil }
func (c *vaConn) SetWriteDeadline(t time.Time) error { return nil }

type vaListener struct {
	conns chan net.Conn
	done  chan struct{}
}

var errVaClosed = errors.New("va: closed")

func (l *vaListener) Accept() (net.Conn, error) {
	select {
	case c := <-l.conns:
		return c, nil
	case <-l.done:
		return nil, errVaClosed
	}
}
func (l *vaListener) Close() error   { return nil }
func (l *vaListener) Addr() net.Addr { return &net.TCPAddr{IP: net.IPv4(10, 0, 0, 1), Port: 80} }

// net/http names the caller of a superfluous WriteHeader in its log line
// (runtime.Callers): not part of any response.
//
//verif:stub net/http.relevantCaller
func vstubRelevantCaller() runtime.Frame { return runtime.Frame{} }

type vaLog struct{}

func (vaLog) Printf(string, ...any) {}

// vaNetHTTP serves one request with net/http's own server and returns the bytes it sent.
func vaNetHTTP(h http.Handler, raw string) []byte {
	ln := &vaListener{conns: make(chan net.Conn, 1), done: make(chan struct{})}
	c := newVaConn(raw)
	srv := &http.Server{Handler: h, TLSNextProto: map[string]func(*http.Server, *tls.Conn, http.Handler){}}
	go srv.Serve(ln)
	ln.conns <- c
	<-c.closeCh
	return c.wrote
}

// vaFastHTTP serves the same request with fasthttp's server and the adapted handler.
func vaFastHTTP(h http.Handler, raw string) []byte {
	c := newVaConn(raw)
	s := &fasthttp.Server{Handler: NewFastHTTPHandler(h), Logger: vaLog{}}
	s.ServeConn(c)
	return c.wrote
}

type vaHeader struct{ k, v string }

type vaResp struct {
	status int
	hdr    []vaHeader
	body   string
}

func vaLower(s string) string {
	b := []byte(s)
	for i, c := range b {
		if c >= 'A' && c <= 'Z' {
			b[i] = c + 32
		}
	}
	return string(b)
}

func (r *vaResp) values(name string) string {
	out := ""
	for _, h := range r.hdr {
		if h.k == name {
			out += "[" + h.v + "]"
		}
	}
	return out
}

func vaHexVal(c byte) int {
	switch {
	case c >= '0' && c <= '9':
		return int(c - '0')
	case c >= 'a' && c <= 'f':
		return int(c-'a') + 10
	case c >= 'A' && c <= 'F':
		return int(c-'A') + 10
	}
	return -1
}

// vaFinalResponse reads responses off w as a client would (head == true: the
// request was HEAD) and returns the first one that is not informational.
func vaFinalResponse(w []byte, head bool) (r vaResp, interim int, ok bool) {
	i := 0
	for {
		r = vaResp{}
		if len(w)-i < 12 || string(w[i:i+7]) != "HTTP/1." || w[i+8] != ' ' {
			return r, interim, false
		}
		r.status = int(w[i+9]-'0')*100 + int(w[i+10]-'0')*10 + int(w[i+11]-'0')
		first := true
		for {
			j := i
			for j+1 < len(w) && !(w[j] == '\r' && w[j+1] == '\n') {
				j++
			}
			if j+1 >= len(w) {
				return r, interim, false
			}
			line := w[i:j]
			i = j + 2
			if len(line) == 0 {
				break
			}
			if first {
				first = false
				continue
			}
			c := bytes.IndexByte(line, ':')
			if c < 0 {
				return r, interim, false
			}
			v := line[c+1:]
			for len(v) > 0 && v[0] == ' ' {
				v = v[1:]
			}
			r.hdr = append(r.hdr, vaHeader{vaLower(string(line[:c])), string(v)})
		}
		if r.status >= 100 && r.status < 200 {
			interim++
			continue
		}
		break
	}
	if head || r.status == 204 || r.status == 304 {
		return r, interim, i == len(w)
	}
	if vaLower(r.values("transfer-encoding")) == "[chunked]" {
		for {
			n, digits := 0, 0
			for i < len(w) && vaHexVal(w[i]) >= 0 {
				n = n*16 + vaHexVal(w[i])
				i++
				digits++
			}
			if digits == 0 || i+1 >= len(w) || w[i] != '\r' || w[i+1] != '\n' {
				return r, interim, false
			}
			i += 2
			if n == 0 {
				if i+2 != len(w) || w[i] != '\r' || w[i+1] != '\n' {
					return r, interim, false
				}
				return r, interim, true
			}
			if i+n+2 > len(w) || w[i+n] != '\r' || w[i+n+1] != '\n' {
				return r, interim, false
			}
			r.body += string(w[i : i+n])
			i += n + 2
		}
	}
	if cl := r.values("content-length"); cl != "" {
		n := 0
		for _, d := range []byte(cl[1 : len(cl)-1]) {
			if d < '0' || d > '9' {
				return r, interim, false
			}
			n = n*10 + int(d-'0')
		}
		if i+n != len(w) {
			return r, interim, false
		}
		r.body = string(w[i:])
		return r, interim, true
	}
	// delimited by the close
	r.body = string(w[i:])
	return r, interim, true
}

var vaCodes = [...]int{103, 201, 204, 304, 404}

const vaNumOps = 11

// vaProgram is a handler made of a list of operations on the ResponseWriter.
type vaProgram struct {
	ops   []int
	codes []int
	x     byte
}

func (p *vaProgram) ServeHTTP(w http.ResponseWriter, r *http.Request) {
	for i, op := range p.ops {
		d := string(rune('0' + i))
		switch op {
		case 0:
			w.WriteHeader(p.codes[i])
		case 1:
			w.Header().Add("X-A", "a"+d)
		case 2:
			w.Header().Set("X-A", "s"+d)
		case 3:
			w.Header().Add("X-B", "b"+d)
		case 4:
			w.Header().Set("Content-Type", "text/x"+d)
		case 5:
			w.Write([]byte{'w', d[0], p.x})
		case 6:
			if f, ok := w.(http.Flusher); ok {
				f.Flush()
			}
		case 7:
			w.Header().Del("X-A")
		case 8:
			w.Write(nil) // writes the header like any other Write
		case 9: // the request body, as the handler reads it
			b, _ := io.ReadAll(r.Body)
			w.Write(append([]byte("body="), b...))
		case 10: // what the handler sees of the request
			w.Write([]byte(r.Method + " " + r.URL.Path + " " + r.Host + " " + r.Proto + " " + r.Header.Get("X-Q") + ";"))
		}
	}
}

var vaRequests = [...]string{
	"GET /p HTTP/1.1\r\nHost: a\r\nX-Q: 1\r\nx-q: 2\r\nConnection: close\r\n\r\n",
	"HEAD /p HTTP/1.1\r\nHost: a\r\nConnection: close\r\n\r\n",
	"POST /p HTTP/1.1\r\nHost: a\r\nContent-Length: 2\r\nConnection: close\r\n\r\nhi",
	"GET /p HTTP/1.0\r\nHost: a\r\n\r\n",
}

// vhC36Handler: every handler program of up to `ops` operations, against four
// request kinds: same final status, handler-set fields and body.
func vhC36Handler() {
	n := vLen("ops", 0, vParam("ops", 3))
	p := &vaProgram{x: vBytes("x", 1)[0]}
	vAssume(p.x >= 'a' && p.x <= 'z')
	for i := 0; i < n; i++ {
		op := vChoose("op", vaNumOps)
		code := 0
		if op == 0 {
			code = vaCodes[vChoose("code", len(vaCodes))]
		}
		p.ops = append(p.ops, op)
		p.codes = append(p.codes, code)
	}
	k := vChoose("request", len(vaRequests))
	raw := vaRequests[k]
	head := k == 1

	outN := vaNetHTTP(p, raw)
	outF := vaFastHTTP(p, raw)
	vNote("net/http: " + string(outN))
	vNote("adaptor:  " + string(outF))
	rn, _, okN := vaFinalResponse(outN, head)
	rf, _, okF := vaFinalResponse(outF, head)
	vAssert("net/http-final-response-reads", okN)
	if !okN {
		return
	}
	vAssert("adaptor-final-response-reads", okF)
	if !okF {
		return
	}
	vAssert("same-status", rn.status == rf.status)
	vAssert("same-handler-set-fields", rn.values("x-a") == rf.values("x-a") && rn.values("x-b") == rf.values("x-b"))
	setsCT := false
	for _, op := range p.ops {
		if op == 4 {
			setsCT = true
		}
	}
	if rn.status == 304 && rf.status == 304 && vKnown("C36-304-keeps-content-type") {
		// known finding: net/http drops a handler-set Content-Type from a
		// 304 response; the adaptor sends it
		setsCT = false
	}
	if setsCT {
		// only a Content-Type the handler set counts: defaults and sniffed
		// types are each server's own business
		ctN, ctF := rn.values("content-type"), rf.values("content-type")
		if len(ctN) < 7 || ctN[:7] != "[text/x" {
			ctN = ""
		}
		if len(ctF) < 7 || ctF[:7] != "[text/x" {
			ctF = ""
		}
		vAssert("same-content-type", ctN == ctF)
	}
	vAssert("same-body", rn.body == rf.body)
}

// ---- request half

type vaReqSnap struct {
	method, url, proto, host, uri string
	major, minor                  int
	hdr, body                     string
}

func vaSnapshot(r *http.Request) vaReqSnap {
	s := vaReqSnap{method: r.Method, proto: r.Proto, host: r.Host, uri: r.RequestURI, major: r.ProtoMajor, minor: r.ProtoMinor}
	if r.URL != nil {
		s.url = "scheme=" + r.URL.Scheme + " host=" + r.URL.Host + " path=" + r.URL.Path + " rawpath=" + r.URL.RawPath + " q=" + r.URL.RawQuery + " opaque=" + r.URL.Opaque
	}
	for _, k := range vaHeaderNames {
		if k == "Cookie" && vKnown("C36-cookie-fields-joined") {
			// known finding: several Cookie fields arrive as one, joined with "; "
			j := ""
			for i, v := range r.Header[k] {
				if i > 0 {
					j += "; "
				}
				j += v
			}
			if len(r.Header[k]) > 0 {
				s.hdr += k + "=[" + j + "];"
			}
			continue
		}
		for _, v := range r.Header[k] {
			s.hdr += k + "=[" + v + "];"
		}
	}
	s.hdr += "#" + string(rune('0'+len(r.Header)))
	if r.Body != nil {
		b, _ := io.ReadAll(r.Body)
		s.body = string(b)
	}
	return s
}

var vaHeaderNames = [...]string{"Host", "X-A", "X-B", "Cookie", "Content-Type", "Content-Length", "User-Agent", "Accept", "Connection", "Cache-Control", "Pragma", "Transfer-Encoding"}

var vaTargets = [...]string{"/p", "/p?q=1&r", "http://b.co/p?x", "/a%2Fb", "/", "//p"}
var vaExtra = [...]string{
	"",
	"X-A: 1\r\nX-A: 2\r\n",
	"x-a: 1\r\nX-B:  2 \r\n",
	"Cookie: a=1\r\nCookie: b=2\r\n",
	"User-Agent: u\r\nAccept: */*\r\nContent-Type: t/x\r\n",
	"Pragma: no-cache\r\n",
	"Connection: close\r\n",
	"Connection: keep-alive\r\n",
}

// vhC36ConvertRequest: requests over methods, targets, versions, repeated and
// special header fields, bodies (fixed length or chunked), with symbolic bytes
// in the path, a header value and the Host.
func vhC36ConvertRequest() {
	x := vBytes("x", 2)
	for _, c := range x {
		vAssume(c > ' ' && c < 0x7f)
	}
	// focus 0: every combination of the fixed shapes; focus 1 / 2: a symbolic
	// byte in the path / in the Host on a plain GET
	focus := vChoose("focus", 3)
	method, target, version, host, extra, bodyKind := "GET", "/p", "HTTP/1.1", "a.co", 0, 0
	switch focus {
	case 0:
		method = [...]string{"GET", "POST", "PUT", "OPTIONS", "DELETE"}[vChoose("method", 5)]
		target = vaTargets[vChoose("target", len(vaTargets))]
		version = [...]string{"HTTP/1.1", "HTTP/1.0"}[vChoose("version", 2)]
		extra = vChoose("extra", len(vaExtra))
		bodyKind = vChoose("body", 3)
	case 1:
		target = "/s" + string(x[0:1]) + "z"
		if vBool("inQuery") {
			target = "/s?k=" + string(x[0:1]) + "z"
		}
	case 2:
		vAssume(x[1] >= 'A' && x[1] <= 'z' && (x[1] <= 'Z' || x[1] >= 'a'))
		host = string(x[1:2]) + ".co"
		if vBool("absoluteTarget") {
			target = "http://" + host + "/p"
			host = "other.co"
		}
	}
	raw := method + " " + target + " " + version + "\r\nHost: " + host + "\r\n" + vaExtra[extra]
	switch bodyKind {
	case 0:
		raw += "\r\n"
	case 1:
		raw += "Content-Length: 3\r\n\r\nb" + string(x[0:1]) + "c"
	case 2:
		raw += "Transfer-Encoding: chunked\r\n\r\n2\r\nb" + string(x[0:1]) + "\r\n1\r\nc\r\n0\r\n\r\n"
	}

	// net/http's parse of the same bytes
	rn, errN := http.ReadRequest(bufio.NewReader(bytes.NewReader([]byte(raw))))
	var sn vaReqSnap
	if errN == nil {
		if extra == 5 && vKnown("C36-pragma-cache-control") {
			// known finding: net/http adds "Cache-Control: no-cache" to a request
			// that has "Pragma: no-cache" and no Cache-Control; the adaptor does not
			rn.Header.Del("Cache-Control")
		}
		sn = vaSnapshot(rn)
	}
	// what ConvertRequest builds inside the fasthttp serve loop
	var sf vaReqSnap
	var errF error
	called := 0
	c := newVaConn(raw)
	s := &fasthttp.Server{Logger: vaLog{}, Handler: func(ctx *fasthttp.RequestCtx) {
		called++
		var r http.Request
		errF = ConvertRequest(ctx, &r, true)
		if errF == nil && version == "HTTP/1.0" && extra != 6 && extra != 7 && vKnown("C36-http10-synthetic-connection-close") {
			// known finding: an HTTP/1.0 request without a Connection field is
			// handed over with "Connection: close" in its header map
			r.Header.Del("Connection")
		}
		if errF == nil && bodyKind == 0 && vKnown("C36-synthetic-content-length-0") {
			// known finding: a request without a body and without Content-Length
			// (other than GET / HEAD) is handed over with "Content-Length: 0"
			r.Header.Del("Content-Length")
		}
		if errF == nil {
			sf = vaSnapshot(&r)
		}
	}}
	s.ServeConn(c)
	if errN != nil || called == 0 {
		// one of the two servers refuses the request: nothing to compare
		return
	}
	vNote("net/http: " + sn.method + " " + sn.url + " " + sn.proto + " host=" + sn.host + " uri=" + sn.uri + " hdr=" + sn.hdr + " body=" + sn.body)
	vNote("adaptor:  " + sf.method + " " + sf.url + " " + sf.proto + " host=" + sf.host + " uri=" + sf.uri + " hdr=" + sf.hdr + " body=" + sf.body)
	vAssert("converts-what-net/http-parses", errF == nil)
	if errF != nil {
		return
	}
	vAssert("same-method", sn.method == sf.method)
	vAssert("same-url", sn.url == sf.url && sn.uri == sf.uri)
	vAssert("same-protocol", sn.proto == sf.proto && sn.major == sf.major && sn.minor == sf.minor)
	vAssert("same-host", sn.host == sf.host)
	vAssert("same-headers", sn.hdr == sf.hdr)
	vAssert("same-body", sn.body == sf.body)
}
