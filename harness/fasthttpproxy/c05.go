package fasthttpproxy

import (
	"io"
	"net"
	"time"
)

// C05 (proxy half) — the CONNECT request the HTTP-proxy dialer writes for an
// arbitrary target address contains CR / LF only as the CRLF pairs that end
// its own lines: a target with a CR or LF in it is refused before anything is
// written.

var vxClass = func() (t [256]uint8) {
	t['\r'], t['\n'] = 1, 2
	return
}()

type vxConn struct {
	wrote  []byte
	in     []byte
	closed int
}

func (c *vxConn) Read(b []byte) (int, error) {
	if len(c.in) == 0 {
		return 0, io.EOF
	}
	n := copy(b, c.in)
	c.in = c.in[n:]
	return n, nil
}
func (c *vxConn) Write(b []byte) (int, error)        { c.wrote = append(c.wrote, b...); return len(b), nil }
func (c *vxConn) Close() error                       { c.closed++; return nil }
func (c *vxConn) LocalAddr() net.Addr                { return &net.TCPAddr{IP: net.IPv4(10, 0, 0, 2), Port: 1} }
func (c *vxConn) RemoteAddr() net.Addr               { return &net.TCPAddr{IP: net.IPv4(10, 0, 0, 1), Port: 3128} }
func (c *vxConn) SetDeadline(t time.Time) error      { return nil }
func (c *vxConn) SetReadDeadline(t time.Time) error  { return nil }
func (c *vxConn) SetWriteDeadline(t time.Time) error { return nil }

type vxDialer struct{ conn *vxConn }

func (d *vxDialer) Dial(network, addr string) (net.Conn, error) { return d.conn, nil }

func vhC05ProxyConnect() {
	n := vLen("addrLen", 0, vParam("addrLen", 3))
	a := vBytes("addr", n)
	addr := "h" + string(a) + ":80"
	auth := ""
	if vBool("withAuth") {
		auth = "dTpw"
	}
	c := &vxConn{in: []byte("HTTP/1.1 200 Connection established\r\n\r\n")}
	conn, err := httpProxyDial(&vxDialer{conn: c}, "tcp", addr, "proxy:3128", auth)
	// CR and LF only as CRLF, and exactly the lines the dialer means to write
	// (branch-free: a table lookup per byte and bit arithmetic, so that the
	// symbolic bytes do not fork the path)
	var bad, prevCR, lines uint8
	for i := 0; i < len(c.wrote); i++ {
		cls := vxClass[c.wrote[i]] // 1: CR, 2: LF
		isCR, isLF := cls&1, cls>>1
		bad |= isLF &^ prevCR // LF not preceded by CR
		bad |= prevCR &^ isLF // CR not followed by LF
		lines += isLF
		prevCR = isCR
	}
	bad |= prevCR
	vAssert("cr-lf-only-as-crlf", bad == 0)
	want := uint8(3)
	if auth != "" {
		want = 4
	}
	vAssert("exactly-the-connect-lines", len(c.wrote) == 0 || lines == want)
	var any uint8
	for _, b := range a {
		cls := vxClass[b]
		any |= cls | cls>>1
	}
	hasCRLF := any&1 != 0
	if hasCRLF {
		vAssert("target-with-cr-or-lf-is-refused-unwritten", err != nil && conn == nil && len(c.wrote) == 0)
	} else {
		vAssert("clean-target-connects", err == nil && conn != nil)
	}
}
