package fasthttputil

import (
	"io"
	"net"
	"runtime"
	"time"
)

// C33 — in-memory pipes behave like a reliable byte stream.

func vSym(name string, maxLen int) []byte {
	n := vLen(name+"n", 0, maxLen)
	return vBytes(name, n)
}

// vhC33PipeStream: K writes of symbolic byte strings on one end (optionally
// interleaved with reads), reads of chosen buffer sizes on the other end,
// then Close: the reader gets exactly the concatenation, in order, then EOF;
// a write after Close fails. Both directions.
func vhC33PipeStream() {
	pc := NewPipeConns()
	w, r := pc.Conn1(), pc.Conn2()
	if vBool("reverse") {
		w, r = r, w
	}
	K := vParam("writes", 2)
	var want, got []byte
	readSome := func() {
		// only read when data is pending (a Read on an empty open pipe blocks)
		for len(got) < len(want) {
			buf := make([]byte, 1+vChoose("bufsize", 2)*7)
			n, err := r.Read(buf)
			vAssert("read-no-error-while-data-pending", err == nil && n > 0)
			if err != nil || n == 0 {
				return
			}
			got = append(got, buf[:n]...)
		}
	}
	for i := 0; i < K; i++ {
		p := vSym("w", vParam("writeLen", 3))
		n, err := w.Write(p)
		vAssert("write-accepts-all", err == nil && n == len(p))
		want = append(want, p...)
		if vBool("readNow") {
			if len(got) < len(want) && vBool("oneReadOnly") {
				// a single Read, possibly leaving part of a chunk unread when the
				// next Write comes
				buf := make([]byte, 1+vChoose("bufsize", 2)*7)
				n, err := r.Read(buf)
				vAssert("read-no-error-while-data-pending", err == nil && n > 0)
				got = append(got, buf[:n]...)
			} else {
				readSome()
			}
		}
	}
	w.Close()
	// bytes already written remain readable after Close, then EOF
	for {
		buf := make([]byte, 4)
		n, err := r.Read(buf)
		got = append(got, buf[:n]...)
		if err != nil {
			vAssert("eof-after-drain", err == io.EOF)
			break
		}
		if len(got) > len(want)+8 {
			break
		}
	}
	vAssert("reader-gets-exactly-the-bytes-in-order", string(got) == string(want))
	_, werr := w.Write([]byte("x"))
	vAssert("write-after-close-fails", werr != nil)
}

// vhC33Listener: InmemoryListener with one or two dialers, one accepter loop
// and a Close issued at a chosen moment, all as goroutines on the engine's
// scheduler (switch points: blocking channel operations and explicit yields;
// a select with several ready cases explores each of them). Successful Dials
// and successful Accepts pair up one to one, each pair is a working pipe, and
// after Close has returned neither Dial nor Accept succeeds.
func vhC33Listener() {
	ln := NewInmemoryListener()
	nd := 1 + vChoose("dialers", 2)
	type dialRes struct {
		c   net.Conn
		err error
	}
	dials := make([]dialRes, nd)
	done := make(chan int, 8)
	for i := 0; i < nd; i++ {
		i := i
		go func() {
			vYield()
			c, err := ln.Dial()
			dials[i] = dialRes{c, err}
			done <- i
		}()
	}
	var accepted []net.Conn
	accDone := make(chan struct{})
	go func() {
		for {
			vYield()
			c, err := ln.Accept()
			if err != nil {
				close(accDone)
				return
			}
			accepted = append(accepted, c)
		}
	}()
	// Close at a chosen point of the schedule
	for k := vChoose("closeAfterYields", 4); k > 0; k-- {
		runtime.Gosched()
	}
	ln.Close()
	for i := 0; i < nd; i++ {
		<-done
	}
	<-accDone
	ok := 0
	for _, d := range dials {
		if d.err == nil {
			ok++
		}
	}
	vAssert("successful-dials-and-accepts-pair-up", ok == len(accepted))
	// each successful dial is connected to exactly one accepted peer
	paired := true
	for i, d := range dials {
		if d.err != nil {
			continue
		}
		if _, err := d.c.Write([]byte{byte('a' + i)}); err != nil {
			paired = false
		}
	}
	seen := map[byte]int{}
	for _, s := range accepted {
		var b [1]byte
		n, err := s.Read(b[:])
		if n != 1 || err != nil {
			paired = false
		} else {
			seen[b[0]]++
		}
	}
	for i, d := range dials {
		if d.err == nil && seen[byte('a'+i)] != 1 {
			paired = false
		}
	}
	vAssert("each-pair-is-a-working-pipe", paired)
	_, err := ln.Dial()
	vAssert("no-dial-after-close", err != nil)
	_, err = ln.Accept()
	vAssert("no-accept-after-close", err != nil)
}

// vhC33ReadTimeout: a Read that times out on an idle pipe (deadline in the
// past, or a short one that expires while the Read waits) is not part of the
// stream: afterwards the reader keeps receiving exactly what the writer
// sends, also when it takes the chunks in pieces while further chunks are
// written (the released chunk buffers go through the pool, which hands the
// most recently released one out again).
func vhC33ReadTimeout() {
	pc := NewPipeConns()
	w, r := pc.Conn1(), pc.Conn2()
	if vBool("reverse") {
		w, r = r, w
	}
	var want, got []byte
	first := vSym("first", 2)
	if len(first) > 0 {
		n, err := w.Write(first)
		vAssert("write-accepts-all", err == nil && n == len(first))
		want = append(want, first...)
		// a buffer of exactly the chunk's size ends the Read without the
		// non-blocking look for a further chunk
		buf := make([]byte, len(first)+2*vChoose("firstReadSlack", 2))
		n, err = r.Read(buf)
		vAssert("read-no-error-while-data-pending", err == nil && n == len(first))
		got = append(got, buf[:n]...)
	}
	timeouts := 1 + vChoose("timeouts", 2)
	for i := 0; i < timeouts; i++ {
		if vBool("deadlineInThePast") {
			r.SetReadDeadline(time.Now().Add(-time.Second))
		} else {
			r.SetReadDeadline(time.Now().Add(10 * time.Millisecond))
		}
		buf := make([]byte, 4)
		n, err := r.Read(buf)
		vAssert("idle-read-times-out", n == 0 && err == ErrTimeout)
	}
	r.SetReadDeadline(time.Time{})
	K := vParam("writes", 3)
	for i := 0; i < K; i++ {
		p := vSym("w", vParam("writeLen", 3))
		n, err := w.Write(p)
		vAssert("write-accepts-all", err == nil && n == len(p))
		want = append(want, p...)
		if len(got) < len(want) && vBool("readNow") {
			buf := make([]byte, 1+vChoose("bufsize", 2))
			n, err := r.Read(buf)
			vAssert("read-no-error-while-data-pending", err == nil && n > 0)
			got = append(got, buf[:n]...)
		}
	}
	w.Close()
	for {
		buf := make([]byte, 2)
		n, err := r.Read(buf)
		got = append(got, buf[:n]...)
		if err != nil {
			vAssert("eof-after-drain", err == io.EOF)
			break
		}
		if len(got) > len(want)+8 {
			break
		}
	}
	vAssert("reader-gets-exactly-the-bytes-in-order", string(got) == string(want))
}
