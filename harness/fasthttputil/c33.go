package fasthttputil

import "io"

// C33 — in-memory pipes behave like a reliable byte stream.

func vSym(name string, maxLen int) []byte {
	n := vLen(name+"n", 0, maxLen)
	return vBytes(name, n)
}

// vhC33PipeStream: K writes of symbolic byte strings on one end (optionally
// interleaved with reads), reads of chosen buffer sizes on the other end,
// then Close: the reader gets exactly the concatenation, in order, then EOF;
// a write after Close fails. Both directions.
func vhC33PipeStream() {
	pc := NewPipeConns()
	w, r := pc.Conn1(), pc.Conn2()
	if vBool("reverse") {
		w, r = r, w
	}
	K := vParam("writes", 2)
	var want, got []byte
	readSome := func() {
		// only read when data is pending (a Read on an empty open pipe blocks)
		for len(got) < len(want) {
			buf := make([]byte, 1+vChoose("bufsize", 2)*7)
			n, err := r.Read(buf)
			vAssert("read-no-error-while-data-pending", err == nil && n > 0)
			if err != nil || n == 0 {
				return
			}
			got = append(got, buf[:n]...)
		}
	}
	for i := 0; i < K; i++ {
		p := vSym("w", vParam("writeLen", 3))
		n, err := w.Write(p)
		vAssert("write-accepts-all", err == nil && n == len(p))
		want = append(want, p...)
		if vBool("readNow") {
			readSome()
		}
	}
	w.Close()
	// bytes already written remain readable after Close, then EOF
	for {
		buf := make([]byte, 4)
		n, err := r.Read(buf)
		got = append(got, buf[:n]...)
		if err != nil {
			vAssert("eof-after-drain", err == io.EOF)
			break
		}
		if len(got) > len(want)+8 {
			break
		}
	}
	vAssert("reader-gets-exactly-the-bytes-in-order", string(got) == string(want))
	_, werr := w.Write([]byte("x"))
	vAssert("write-after-close-fails", werr != nil)
}
