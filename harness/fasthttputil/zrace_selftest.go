package fasthttputil

import (
	"sync"
	"sync/atomic"
)

// Self-test of the engine's race detector (run with GOSYM_RACE_ALL=1, which
// lifts the "both sites in harness code" filter): each case is either racy or
// properly synchronised; `gosym run -race` must report exactly the racy ones.

type vrBox struct{ n int }

func vhRaceSelfRacy() {
	which := vChoose("case", 5)
	b := &vrBox{}
	done := make(chan struct{})
	switch which {
	case 4: // atomic in one goroutine, plain in the other
		var w int32
		go func() { atomic.StoreInt32(&w, 1); close(done) }()
		w = 2
		<-done
	case 0: // plain write/write
		go func() { b.n = 1; close(done) }()
		b.n = 2
		<-done
	case 1: // read vs write, synchronised only afterwards
		go func() { _ = b.n; close(done) }()
		b.n = 2
		<-done
	case 2: // map written by two goroutines
		m := map[int]int{}
		go func() { m[1] = 1; close(done) }()
		m[2] = 2
		<-done
	case 3: // different mutexes
		var m1, m2 sync.Mutex
		go func() { m1.Lock(); b.n++; m1.Unlock(); close(done) }()
		m2.Lock()
		b.n++
		m2.Unlock()
		<-done
	}
	vAssert("ran", true)
}

func vhRaceSelfClean() {
	which := vChoose("case", 7)
	b := &vrBox{}
	done := make(chan struct{})
	switch which {
	case 6: // atomic on both sides
		var w int32
		go func() { atomic.StoreInt32(&w, 1); close(done) }()
		atomic.AddInt32(&w, 2)
		<-done
		_ = atomic.LoadInt32(&w)
	case 0: // channel hand-over
		go func() { b.n = 1; close(done) }()
		<-done
		b.n = 2
	case 1: // same mutex
		var mu sync.Mutex
		go func() { mu.Lock(); b.n++; mu.Unlock(); close(done) }()
		mu.Lock()
		b.n++
		mu.Unlock()
		<-done
	case 2: // WaitGroup
		var wg sync.WaitGroup
		wg.Add(1)
		go func() { b.n = 1; wg.Done() }()
		wg.Wait()
		b.n = 2
	case 3: // unbuffered send: the receive happens before the send completes
		c := make(chan int)
		go func() { b.n = 1; <-c }()
		c <- 1
		b.n = 2
	case 4: // buffered channel as a semaphore of capacity 1
		sem := make(chan struct{}, 1)
		go func() { sem <- struct{}{}; b.n++; <-sem; close(done) }()
		sem <- struct{}{}
		b.n++
		<-sem
		<-done
	case 5: // written before the goroutine starts
		b.n = 1
		go func() { _ = b.n; close(done) }()
		<-done
	}
	vAssert("ran", true)
}
