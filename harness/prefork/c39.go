package prefork

import (
	"errors"
	"os"
	"os/exec"
	"time"
)

// C39 — prefork keeps its children supervised and never orphans them.
//
// The real Prefork.prefork (spawn loop, per-child Wait goroutines, supervision
// loop, shutdownChildren / killChild) runs on the engine's scheduler with
// virtual time against simulated children: CommandProducer (the repository's
// own substitution point) hands out commands whose process is a harness
// record, and (*exec.Cmd).Wait, (*os.Process).Signal and (*os.Process).Kill
// are replaced under the engine by harness stubs (//verif:stub) that block
// until the simulated child exits, deliver SIGTERM according to the child's
// chosen reaction, and kill it. A "fate" goroutine lets children exit at
// chosen times; spawn failures and hook errors are injected at chosen points.

type vkChild struct {
	pid       int
	exitCh    chan struct{}
	exited    bool
	exitErr   error
	spawnedAt time.Time
	exitAt    time.Time
	termAt    time.Time
	killAt    time.Time
	terms     int
	kills     int
	reaped    int
	byFate    bool
	onTerm    int // 0 exits at once, 1 exits after half the grace period, 2 ignores SIGTERM
}

type vkWorld struct {
	children []*vkChild
	grace    time.Duration
	late     int // Signal/Kill/Wait calls that name no child of this master
}

var vkW *vkWorld

var errVkExit = errors.New("exit status 1")
var errVkDone = errors.New("vk: process already finished")

func (w *vkWorld) byPid(pid int) *vkChild {
	for _, c := range w.children {
		if c.pid == pid {
			return c
		}
	}
	return nil
}

func (w *vkWorld) alive() int {
	n := 0
	for _, c := range w.children {
		if !c.exited {
			n++
		}
	}
	return n
}

func (c *vkChild) exit(err error) {
	if c.exited {
		return
	}
	c.exited = true
	c.exitErr = err
	c.exitAt = time.Now()
	close(c.exitCh)
}

//verif:stub (*os/exec.Cmd).Wait
func vstubCmdWait(cmd *exec.Cmd) error {
	c := vkW.byPid(cmd.Process.Pid)
	if c == nil {
		vkW.late++
		return errVkDone
	}
	<-c.exitCh
	c.reaped++
	return c.exitErr
}

//verif:stub (*os.Process).Signal
func vstubProcSignal(p *os.Process, sig os.Signal) error {
	c := vkW.byPid(p.Pid)
	if c == nil {
		vkW.late++
		return errVkDone
	}
	if c.exited {
		return errVkDone
	}
	c.terms++
	if c.terms == 1 {
		c.termAt = time.Now()
	}
	switch c.onTerm {
	case 0:
		c.exit(nil)
	case 1:
		if c.terms == 1 {
			go func() {
				time.Sleep(vkW.grace / 2)
				c.exit(nil)
			}()
		}
	}
	return nil
}

//verif:stub (*os.Process).Kill
func vstubProcKill(p *os.Process) error {
	c := vkW.byPid(p.Pid)
	if c == nil {
		vkW.late++
		return errVkDone
	}
	if c.exited {
		return errVkDone
	}
	c.kills++
	c.killAt = time.Now()
	c.exit(errVkExit)
	return nil
}

var vkProcs = 2

//verif:stub runtime.GOMAXPROCS
func vstubGOMAXPROCS(n int) int { return vkProcs }

type vkLogger struct{}

func (vkLogger) Printf(string, ...any) {}

// vhC39Supervision: N = GOMAXPROCS children, RecoverThreshold T, RecoverInterval
// RI and ShutdownGracePeriod G chosen; children exit when the fate goroutine
// says so; the k-th spawn may fail, the k-th OnChildSpawn or OnMasterReady may
// return an error.
func vhC39Supervision() {
	N := 1 + vChoose("gomaxprocs", vParam("maxProcs", 2))
	T := vChoose("recoverThreshold", vParam("maxThreshold", 2)+1)
	RI := [...]time.Duration{0, 200 * time.Millisecond}[vChoose("recoverInterval", 2)]
	G := [...]time.Duration{100 * time.Millisecond, time.Second}[vChoose("grace", 2)]
	vkProcs = N
	w := &vkWorld{grace: G}
	vkW = w

	// faults: 0 none, 1 the k-th spawn fails, 2 the k-th OnChildSpawn fails, 3 OnMasterReady fails
	fault := vChoose("fault", 4)
	faultAt := 0
	if fault == 1 || fault == 2 {
		faultAt = vChoose("faultAt", N+T)
	}
	spawnFailure := errors.New("vk: spawn failed")
	hookFailure := errors.New("vk: hook failed")

	spawns, hookCalls := 0, 0
	recoveredEarly, recoveredUnknown := false, false
	recovers := 0
	readyPIDs := -1
	p := &Prefork{
		Reuseport:           true,
		RecoverThreshold:    T,
		RecoverInterval:     RI,
		ShutdownGracePeriod: G,
		Logger:              vkLogger{},
	}
	p.CommandProducer = func(files []*os.File) (*exec.Cmd, error) {
		k := spawns
		spawns++
		if fault == 1 && k == faultAt {
			return nil, spawnFailure
		}
		c := &vkChild{pid: 100 + k, exitCh: make(chan struct{}), spawnedAt: time.Now(), onTerm: vChoose("onSIGTERM", 3)}
		w.children = append(w.children, c)
		return &exec.Cmd{Process: &os.Process{Pid: c.pid}}, nil
	}
	p.OnChildSpawn = func(pid int) error {
		k := hookCalls
		hookCalls++
		if fault == 2 && k == faultAt {
			return hookFailure
		}
		return nil
	}
	p.OnMasterReady = func(pids []int) error {
		readyPIDs = len(pids)
		if fault == 3 {
			return hookFailure
		}
		return nil
	}
	p.OnChildRecover = func(oldPID, newPID int) {
		recovers++
		o, n := w.byPid(oldPID), w.byPid(newPID)
		if o == nil || n == nil || !o.exited {
			recoveredUnknown = true
			return
		}
		if n.spawnedAt.Sub(o.exitAt) < RI {
			recoveredEarly = true
		}
	}

	// fate: up to T+1 child exits, each after a chosen pause; after a long pause
	// the fleet must be complete again
	returned := false
	fleetIncomplete := false
	exitsMade := 0
	go func() {
		for exitsMade <= T && !returned {
			pause := [...]time.Duration{0, 50 * time.Millisecond, 500 * time.Millisecond}[vChoose("pause", 3)]
			time.Sleep(pause)
			if returned {
				return
			}
			if fault == 0 && pause >= 2*RI && pause > 0 && readyPIDs >= 0 && w.alive() != N {
				fleetIncomplete = true
			}
			var live []*vkChild
			for tries := 0; tries < 10 && len(live) == 0 && !returned; tries++ {
				for _, c := range w.children {
					if !c.exited {
						live = append(live, c)
					}
				}
				if len(live) == 0 {
					time.Sleep(100 * time.Millisecond) // the replacement is still due
				}
			}
			if len(live) == 0 {
				return
			}
			c := live[vChoose("whichChild", len(live))]
			exitsMade++
			c.byFate = true
			if vBool("exitsWithError") {
				c.exit(errVkExit)
			} else {
				c.exit(nil)
			}
		}
	}()

	err := p.prefork("127.0.0.1:0")
	returned = true
	// nothing prefork started outlives it: once the fate goroutine has seen
	// `returned` (it sleeps 1.5 s at most) no other goroutine is left
	time.Sleep(3 * time.Second)
	vAssert("no-goroutine-outlives-prefork", vOtherGoroutines() == 0)

	// every child this master started is gone and reaped when prefork returns
	allGone, allReaped, signalled, killedEarly := true, true, true, false
	for _, c := range w.children {
		if !c.exited {
			allGone = false
		}
		if c.reaped != 1 {
			allReaped = false
		}
		// a child that did not exit by itself was still running when the
		// teardown began: it was sent SIGTERM, and killed only after the grace period
		if !c.byFate && c.terms == 0 {
			signalled = false
		}
		if c.kills > 0 && (c.terms == 0 || c.killAt.Sub(c.termAt) < G) {
			killedEarly = true
		}
	}
	vAssert("every-child-has-exited-when-prefork-returns", allGone)
	vAssert("every-child-was-reaped-exactly-once", allReaped)
	vAssert("running-children-are-signalled", signalled)
	vAssert("no-child-killed-before-the-grace-period", !killedEarly)
	vAssert("only-own-children-touched", w.late == 0)
	vAssert("replacement-not-before-recover-interval", !recoveredEarly && !recoveredUnknown)
	vAssert("fleet-complete-while-running", !fleetIncomplete)

	switch {
	case fault == 1 && faultAt < spawns && errors.Is(err, spawnFailure):
		// the failing spawn was reached
	case fault == 2 && faultAt < hookCalls && err == hookFailure:
	case fault == 3 && readyPIDs >= 0 && err == hookFailure:
		vAssert("master-ready-sees-the-whole-fleet", readyPIDs == N)
	default:
		// no injected fault was reached: the only way out is over-recovery,
		// after exactly T replacements
		vAssert("returns-ErrOverRecovery-after-threshold-exits", err == ErrOverRecovery && recovers == T && spawns == N+T)
	}
	if fault == 1 && faultAt < spawns {
		vAssert("spawn-failure-is-returned", errors.Is(err, spawnFailure))
	}
	if fault == 2 && faultAt < hookCalls {
		vAssert("hook-error-is-returned", err == hookFailure)
	}
}
