#!/bin/sh
# usage: run1.sh <harness>[,<harness>] [extra gosym run flags]  — developer helper
h=$1; shift
timeout ${T:-600} /verif/bin/gosym run -harness $h -workers ${W:-16} "$@" 2>&1 | python3 -c "
import sys,json
t=sys.stdin.read()
dec=json.JSONDecoder()
i=t.find('{')
if i<0: print(t[-3000:]); sys.exit()
print(t[:i].strip()[-1500:])
while i>=0 and i<len(t):
    try:
        d,j=dec.raw_decode(t[i:])
    except Exception as e:
        print(t[i:i+2000]); break
    print(d['harness'], 'paths',d['paths'],d['status'],'asserts',sum(d['asserts'].values()),'disch',d['discharged'],'und',d['undecided'],'viol',len(d['violations'] or []),'capped',d['capped'],'maxdec',d['max_decisions'],'q',d['queries'],'wall %.1f solver %.1f'%(d['wall_s'],d['solver_s']))
    for p in (d['problems'] or [])[:6]: print('  P',p[:600])
    for v in (d['violations'] or [])[:3]:
        ins=[]
        for x in v['inputs']:
            if x['kind']=='bytes': ins.append('%s=%r'%(x['name'],bytes(x.get('bytes') or [])))
            else: ins.append('%s=%d'%(x['name'],x['int']))
        print('  V',v['assert'],v.get('msg',''),' '.join(ins), v.get('notes',''))
    i=t.find('{',i+j)
"
