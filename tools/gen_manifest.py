#!/usr/bin/env python3
"""Regenerates /verif/MANIFEST.json from the table below (developer tool; not used by the checks)."""
import json

TRUST = ("trusted: go/packages + go/ssa (x/tools v0.29.0) front end, the gosym SSA interpreter and its stubs "
         "(DESIGN.md §3.5; sampled symbolic paths are re-run natively on every check and counterexamples are replayed natively), "
         "z3 (z3-new 5.1.0 over a persistent pipe). ")

claimed = {
 "C01": ("head-level framing obligation: every POST head built from ≤3 (quick) / ≤4 (thorough) framing fields (Content-Length with ≤2/≤3 arbitrary bytes, Transfer-Encoding variants, Connection: keep-alive) on HTTP/1.1 and 1.0 is either rejected or leaves ConnectionClose() set when RFC 9112 calls its framing ambiguous, and otherwise yields the RFC's body length; plus chunked bodies through the real serve loop: with a hole of ≤3/≤4 arbitrary bytes in the chunk-size line, after the chunk data or after the last-chunk size, whatever is dispatched is what an independent RFC 9112 §7.1 reader frames, the next request starts at that boundary, and a malformed chunked body is never followed by another request",
         "bounds: see text; for the head-level harness the serve loop's close-on-ConnectionClose is assumed; the server option matrix is outside", "§0 C01"),
 "C02": ('the real ServeConn loop on a scripted connection: for every combination of body framing (fixed 31 B / fixed 9031 B / chunked), Expect handling (none, accepted, ContinueHandler or ExpectHandler accepting or rejecting), StreamRequestBody, ReduceMemoryUsage, 1-3 segment delivery and handler read amount, the dispatched requests are /first then /second or the connection closes, and every final response on the wire answers one of those two requests — request-shaped body bytes are neither dispatched nor answered; plus a second connection of the same Server after a chunked upload that broke off inside a chunk',
         'bounds: the finite input grammar listed in the evidence (no free symbolic bytes: every branch of the real loop is still decided on the symbolic executor)', "§0 C02"),
 "C03": ('handler programs through the real ServeConn loop: 5 statuses × 6 body-building calls (streams read in bulk, byte-wise, or returning data together with io.EOF), two calls in a row, Content-Length / Transfer-Encoding / Connection set by hand, streams one byte shorter or longer than declared, TimeoutError responses for GET / HEAD / HTTP-1.0, with ≤2/≤5 arbitrary body bytes; the wire splits under an independent RFC 9112 reader (which rejects Content-Length together with Transfer-Encoding) into exactly the responses built, the next response starts where this one ends, and a mismatching stream never puts more than its declared size on the wire and closes',
         'bounds as stated; other headers/cookies (C05/C06), compression (C22), trailers outside', "§0 C03"),
 "C04": ("sequential HostClient calls against a scripted server whose responses carry arbitrary tag bytes: every successful call returns exactly the body the server produced for the request written at that position of that connection (also when a streamed body is closed early and its tail spells a complete response), no request is written to a connection after an exchange that said close, and such connections are closed; 3/4 concurrent PipelineClient calls against a reactive server whose first connection may die mid-batch: every successful call carries its own request's tag",
         "HostClient: sequential histories of 2/3 calls; PipelineClient: cooperative schedules; concurrent HostClient calls and timeouts outside", "§0 C04"),
 "C05": ('one setter call with arbitrary name (≤2 bytes) and value (≤2 quick / ≤3 thorough bytes) per path over 22 request/response setters (incl. trailers), header-name normalisation on and off; the serialised head is re-split by an independent scanner: CR/LF only as CRLF, no early blank line, names among those set, bounded line count',
         'bounds: one call per header, name/value lengths as stated; proxy CONNECT target and URI setters on Request outside; one known finding excluded (non-token header names; CR/LF inside names stay in play)', "§0 C05"),
 "C06": ("request cookies: up to 2 SetCookie calls with arbitrary key/value bytes, parsed by a fresh or a reused server-side RequestHeader (both must agree, never more cookies than set, cookie-octets round-trip); response cookies: arbitrary key/value plus a domain or a path (incl. percent-escapes through SetPath/SetPathBytes) and 8 flag combinations, serialised through ResponseHeader.SetCookie and parsed by Cookie.ParseBytes: the number of ';' equals the attributes set, no Secure/HttpOnly/SameSite/Partitioned/Domain/Path/Max-Age that was not set, cookie-octets round-trip",
         "bounds as stated; Expires (time formatting) outside; one known finding excluded (';' in a request cookie)", "§0 C06"),
 "C07": ('server-side limits on the real ServeConn loop: with MaxRequestBodySize = L symbolic in [1,6]/[1,8] and a non-streamed POST of n ≤ 8/9 arbitrary bytes (fixed-length, one chunk, two chunks), n ≤ L is dispatched with exactly its body and the next request follows, n > L is never dispatched, gets a 4xx response and the connection closes; a Content-Length or chunk size announcing more than L (limit from MaxRequestBodySize or a per-request HeaderReceived limit, with or without Expect: 100-continue) makes the server give up without reading the data segment; a head longer than ReadBufferSize (64) gets 431 and a close',
         'bounds as stated; client limits, *WithLimit helpers, multipart, streamed bodies, MiB-scale limits outside', "§0 C07"),
 "C08": ('all byte strings of length ≤3 (quick) / ≤5 (thorough) through Args.ParseBytes, Cookie.ParseBytes, URI.Parse, ParseByteRange, RequestHeader.Read, ResponseHeader.Read, VisitHeaderParams and request-cookie parsing: no panic / out-of-range / runaway loop on any path; chunk-size lines of 14..17 arbitrary hex digits; chunked-with-trailer and fixed-length messages delivered in two reads split anywhere in their last 14 bytes or in the head: the reader terminates with the same body and trailer and consumes nothing beyond the message; no over-read on templated request heads',
         "bounds as stated; multipart and long inputs outside; non-termination is reported when the engine's step budget is exhausted and the native replay does not finish either", "§0 C08"),
 "C09": ('differential: the same templated request or response head (5+5 templates × hole ≤2/≤3 arbitrary bytes × blank-line spellings) followed by two arbitrary continuations (≤2 bytes each) is read twice by the real header readers; acceptance, fields and consumed length must agree; and a complete head delivered in 1-3 reads cut inside its last five bytes is answered without asking the connection for more',
         'bounds as stated; one known finding excluded (a blank line not spelled CRLF CRLF is only recognised when CRLF CRLF follows)', "§0 C09"),
 "C10": ('server half on the real ServeConn loop: ≤2/≤3 requests from 5 kinds × DisableKeepalive × MaxRequestsPerConn 0..2 × ReduceMemoryUsage × handler SetConnectionClose / TimeoutError position; each response carries Connection: close exactly when it is the last one served, and whenever the statement requires it; HTTP/1.0 keep-alive echoed; client half: sequential HostClient calls never write a request to a connection after an exchange that said close, and close it',
         'bounds: finite request grammar; CloseOnShutdown outside', "§0 C10"),
 "C11": ('non-interference through the real ServeConn loop: request 2 (4 shapes with symbolic bytes) served after a request 1 of 7 kinds (incl. a chunked upload that breaks off, a malformed head, rejected expectations) and a handler that dirties every part of RequestCtx — on the same or an earlier connection of the same Server — is observed (method, URI, headers in order, cookies, body, query/post args, user values, default response) and answered exactly as when it is served alone on a fresh Server, and is dispatched whenever it is dispatched alone',
         'bounds: the stated grammar × ReduceMemoryUsage × StreamRequestBody × Expect callbacks; timeouts, hijacks, multipart outside', "§0 C11"),
 "C12": ('per-IP admission over every sequential open/close history of ≤5/≤7 steps on two addresses with MaxConnsPerIP ∈ {1,2}; tryAcquireConcurrency as a one-step contract; and ≤3/≤4 connections served one after the other through the real ServeConn (plain, hijacking, malformed, silent) with Concurrency ∈ {1,2}: none rejected, concurrency and open counters back at zero',
         'sequential histories only; concurrent accepts and the listener path outside; one known finding excluded (GetOpenConnectionsCount reports -1 without a listener)', "§0 C12"),
 "C13": ("the real workerPool (Start, Serve, workerFunc, release, clean, Stop) on the engine's cooperative scheduler with virtual time: 3/4 connections, MaxWorkersCount ∈ {1,2}, schedule choice points in the worker function and after each Serve, each handler returning nil or errHijacked; served exactly once iff accepted, then closed exactly once or reported hijacked and left open (per connection), bound respected, idle retirement, nothing left after Stop",
         'bounded schedules at blocking points/Gosched/explicit choice points; instruction-level preemption outside', "§0 C13"),
 "C14": ('ConnState sequences of the real ServeConn loop for 0..2/0..3 requests from 5 kinds, delivered one per read or all in one read, the last one possibly malformed or cut off, optional hijack, ReduceMemoryUsage on/off: regular-language check and Active-after-a-byte',
         'bounds: finite connection grammar; two known findings excluded (ServeConn never reports StateNew; first StateActive precedes the first byte)', "§0 C14"),
 "C15": ("the real Serve / worker pool / serve loop / Shutdown on the engine's scheduler with virtual time over a scripted listener: in-flight slow handlers, pipelined requests and an idle keep-alive connection at the moment Shutdown is called: after it returns nil the listener is closed, Serve has returned, no handler runs, every started handler's response is on the wire, Done was closed for handlers that outlived the start of shutdown, and idle connections were closed, not waited for",
         "bounded cooperative schedules, choices only; CloseOnShutdown, context deadlines, hijacks outside", "§0 C15"),
 "C16": ("the real TimeoutHandler and serve loop on the engine's scheduler with virtual time: a wrapped handler that outlives its timeout and keeps rewriting its RequestCtx (status, headers with symbolic bytes, body, Connection, request URI) before, during and after the handling of the next request on the connection: the first response is exactly the timeout response, nothing written later reaches the wire, the next request is served normally — or answered 429 exactly when Concurrency is 1 and the abandoned handler still holds the slot",
         "sleep-point interleavings only (no instruction-level preemption: that is C37); direct writes to ctx.Conn() outside", "§0 C16"),
 "C17": ('the real ServeConn loop with a hijacking handler (GET, POST with a body, POST with Expect: 100-continue): the response is complete (or absent with HijackSetNoResponse) before the hijack handler runs, the handler reads exactly the ≤3/≤6 arbitrary trailing bytes in order whether they were buffered with the request, arrive later or are split, and the connection is closed after the handler unless KeepHijackedConns',
         "bounds as stated; 'server never touches the connection again' not decided", "§0 C17"),
 "C18": ("the real HostClient connection pool under 2/3 concurrent Do calls on the engine's scheduler: with MaxConns ∈ {1,2}, MaxConnWaitTimeout on/off, failing dials and closing servers, and the calls interleaved at every yield of the scripted network and every blocking operation of the pool, there are never more than MaxConns live connections, no connection carries two requests at once, every call ends with a connection or a documented error within its wait timeout, and ConnsCount is idle+lent at rest and zero after CloseIdleConnections",
         "bounded cooperative schedules, choices only; data races and the idle cleaner outside", "§0 C18"),
 "C19": ("the real HostClient.Do/DoTimeout retry loop and transport.RoundTrip against a scripted network: for every fault sequence (write error, EOF, read timeout, oversized response, dial error per dial), method, MaxIdemponentCallAttempts ∈ [-1,3]/[-1,6] (symbolic), RetryIf/RetryIfErr answers and per-attempt time consumption: transmissions ≤ the attempt limit, a non-idempotent request is sent once unless a callback allows more, body streams and oversized responses are never retried, and no transmission starts after the request timeout unless RetryIfErr reset it",
         "bounds as stated; RetryIfErrUpstream, MaxConnWaitTimeout, TLS and real sockets outside", "§0 C19"),
 "C20": ('the real redirect loop with a recording fake client that also serialises every hop: one redirect hop whose Location carries ≤2 arbitrary host-label bytes plus look-alike suffixes, ports, userinfo and scheme variants (thorough adds two-hop chains), GET or POST with a raw body or form arguments: credentials are never sent to a host that is neither a.co nor a dot-suffix subdomain, at most MaxRedirects hops, 303 becomes a body-less GET/HEAD on the wire, POST becomes GET on 301/302',
         'bounds as stated; IPv6/percent-escaped hosts and Client/HostClient wrappers outside', "§0 C20"),
 "C21": ("the real Client / HostClient scheme handling on a scripted network with a transparent model of crypto/tls: for every scheme of 4-5 arbitrary letters, a request whose scheme is https only ever travels inside TLS to host:443 with ServerName = its host and never on a raw connection, an http request never travels inside TLS, any other scheme is refused by Client without transmission, a HostClient refuses a scheme that does not match IsTLS (ErrHostClientRedirectToDifferentScheme), also across http↔https redirects",
         "TLS itself is a model (handshake always succeeds, plaintext passed through and tagged); LBClient/PipelineClient outside", "§0 C21"),
 "C22": ("with the codecs abstracted to tagging functions: CompressHandler* pick only an encoding the Accept-Encoding list names (lists of 1-2 elements from a table with an arbitrary token byte), declare exactly it, encode the handler's buffered or streamed body exactly once, add Vary, and leave small / incompressible / already encoded bodies alone; and each Write*Level function either produces output that decodes to its input or returns an error when the stack-saving work queue reports saturation",
         "codecs themselves (DEFLATE, brotli, zstd) are outside any solver's reach and are stubbed; real queue dynamics outside", "§0 C22"),
 "C23": ("the real FS handler over a recording in-memory fs.FS: for every request target of '/' + ≤2/≤3 arbitrary bytes (through the real URI parser), Root ∈ {r, r/s, empty}, compression on/off and each built-in rewriter with counts 0..2 (arbitrary host bytes for the virtual-host rewriter), every name passed to Open is the root or lexically inside it, NUL paths open nothing (400), and '..' after rewriting opens nothing",
         "fs.FS mode only; os-level opens, symlinks and Windows paths outside; one known finding excluded (<root>.fasthttp.gz looked up next to the root)", "§0 C23"),
 "C24": ("ParseByteRange clause: for every range spec of ≤5/≤7 arbitrary bytes and every non-negative content length an accepted range satisfies 0 ≤ start ≤ end < length; the three RFC 9110 forms with ≤3/≤5 symbolic digits are accepted iff satisfiable with the right values; and the real FS handler behind the real serve loop over an in-memory fs.FS: a file of ≤2/≤3 arbitrary bytes, a Range spec of ≤3/≤4 arbitrary bytes, If-Modified-Since before/at/after the file's second, GET and HEAD: 206 with exactly the slice and a matching Content-Range, 416 when unsatisfiable, 304 when not newer to the second, else 200 with the full content; HEAD = GET's status and headers without a body",
         "fs.FS mode; compressed variants and OS files outside", "§0 C24"),
 "C25": ("the real FS handler, cache manager and cleaner goroutine on the engine's scheduler over a counting in-memory fs.FS: sequential requests with slow file reads and gaps longer than the cache lifetime, so that eviction happens between requests and during a response; after CleanStop every file handle the handler opened has been closed exactly once and none was used after Close; served bodies equal the file bytes",
         "≤2 sequential requests; concurrent readers of one file outside", "§0 C25"),
 "C26": ("URI.SetPathBytes→Path equals an independent RFC 3986 remove_dot_segments reference for every byte string of length ≤5 (quick) / ≤7 (thorough), incl. percent-escapes",
         "lengths as stated; Windows separator handling outside", "§0 C26"),
 "C27": ("URI round trip and agreement with net/url: for 12 prefixes (scheme spellings, userinfo, IPv6 literal, port, inside path/query/fragment/escape) followed by ≤2/≤3 arbitrary bytes, every URI fasthttp accepts re-parses from FullURI() to the same scheme, host, path, query args (identical query string when QueryArgs was not used) and fragment, RequestURI() parsed against the same host gives the same path and query args, and for http/https URIs that the interpreted net/url.Parse also accepts the host equals net/url's host lower-cased and the raw queries are equal",
         "bounds as stated; net/url is the standard library's own code executed symbolically; longer tails outside", "§0 C27"),
 "C28": ("Args as an ordered multimap: every sequence of 3/4 operations (Add/Set/SetNoValue/Del/AddNoValue) with symbolic keys/values vs a slice model through all observers; parse∘serialise and quote∘unquote round trips",
         "key/value lengths ≤1–2 bytes, ≤2 entries for the round trip", "§0 C28"),
 "C29": ('ResponseHeader and RequestHeader: every sequence of 4/5 Add/Set/Del operations over mixed-case ordinary names vs an ordered-multimap model; 2/3 operations mixing special names (Content-Type, Server/Host, User-Agent, Connection incl. close, Content-Encoding) with ordinary ones vs a model with single-valued special names, also after CopyTo and after writing the header and reading it back',
         'cookies/trailers/Content-Length as operands, normalisation off and longer values outside', "§0 C29"),
 "C30": ("ParseUint accepts exactly the digit strings that fit (all digit strings ≤22/≤26 digits, all byte strings ≤4/≤6), exact value; parseContentLength agrees; AppendUint∘ParseUint for n < 2^14/2^16; hex write/read round trip for every n < 2^60 and rejection of 16+ hex digits",
         "64-bit int only; AppendUint inverse only below 2^appendBits", "§0 C30"),
 "C31": ("IPv4 clauses: ParseIPv4 accepts exactly four dot-separated non-empty decimal fields ≤255 for every byte string of length ≤8/≤10; AppendIPv4→ParseIPv4 round trip with each octet symbolic in turn; the fast RFC 1123 date parser accepts a 29-byte input with one arbitrary byte group only if the interpreted time.Parse(http.TimeFormat) does, with the same instant; bracketed IPv6 literals built from 10 templates with a 1/2-byte arbitrary window agree with the interpreted net/netip.ParseAddr (accepted ⇒ IPv6 for netip; zone-less IPv6 for netip ⇒ accepted)",
         "date round trip on a table of boundary instants only; several date groups symbolic at once outside", "§0 C31"),
 "C32": ("every entry of the byte-class tables equals its RFC predicate (one symbolic byte, exhaustive), header-key canonicalisation vs net/textproto on tokens ≤4 bytes, quoting and HTML-escape definitions on ≤4 bytes",
         "token/HTML lengths ≤4", "§0 C32"),
 "C33": ("PipeConns as a byte stream: every sequential history of 2/3 writes of ≤3/≤4 arbitrary bytes on one end (both directions), optionally interleaved with reads of size 1 or 8, then Close: the other end reads exactly the concatenation in order, then EOF; writes after Close fail; InmemoryListener with 1-2 dialers, an accepter loop and a Close at a chosen point of the schedule: successful Dials and Accepts pair up one to one as working pipes and nothing succeeds after Close",
         "pipes: sequential histories; listener: bounded cooperative schedules; deadlines and concurrent use of one pipe end outside", "§0 C33"),
 "C34": ("response body streams through the real ServeConn loop: an io.ReadCloser with ≤4/≤8 arbitrary bytes × read chunking × declared size exact/unknown × panic in Read (none/1st/2nd) × connection write failure: Close is called exactly once on every path, and without a fault the peer's bytes (fixed or chunked) decode to exactly the stream's bytes",
         "bounds as stated; request streams, stream writers, size-mismatching streams, reset/release without a write outside", "§0 C34"),
 "C35": ("temporary-file half on the real serve loop with the two calls into mime/multipart stubbed (a parsed form stands for one temporary file, RemoveAll removes it): for pre-parsed and on-demand parsing, well-formed and malformed forms, and handlers that ignore, use or remove the form, nothing is left when the next request is dispatched or the connection is done",
         "round-trip half (mime/multipart + os) outside; stubs are part of the claim", "§0 C35"),
 "C38": ("the real PipelineClient on the engine's scheduler with a virtual clock against a reactive server that answers, stalls, answers late or closes: every DoTimeout call returns by its deadline with its own response, ErrTimeout or a connection error, a call refused with ErrPipelineOverflow never had its request on the wire, and the queues stay bounded",
         "virtual time and cooperative schedules (no real scheduling slack); MaxConns 1", "§0 C38"),
 "C40": ("one LBClient call from an arbitrary state with ≤3/≤5 fake clients (symbolic pending, total, penalty ≤ maxPenalty, outcome): routed to the (load, total)-minimal client, penalty step bounded by 300 and undone after 3 s of virtual time; no clients → ErrNoAvailableClients",
         "sequential one-step (inductive) only; concurrent calls outside", "§0 C40"),
 "C41": ("the real TCPDialer on the engine's scheduler with virtual time and a stubbed OS dialer: 3/4 concurrent DialTimeout calls with Concurrency ∈ {1,2} and endpoints that connect, refuse or hang never have more than Concurrency dials in progress, return by the timeout with a connection, the refusal, or ErrDialTimeout wrapped with the upstream address, and give every slot back; a host resolving to 2..3 addresses is dialled in rotation, each address at most once, a hanging one ends the attempt with ErrDialTimeout",
         "bounded schedules (blocking points + one yield per dial), choices only; OS dialer, default resolver, cache cleaner outside", "§0 C41"),
}

na = {
 "C36": "the oracle is net/http's own server; differential behaviour of two full HTTP servers is outside bounded symbolic execution of this code",
 "C37": "data races are not representable in a sequentially consistent interpreter; a solver query over SSA cannot decide happens-before",
 "C39": "OS process supervision (fork/exec, signals); nothing is left to encode after stubbing the OS",
}

checks = []
for pid in sorted(claimed):
    text, note, ref = claimed[pid]
    checks.append({
        "property_id": pid,
        "quick_cmd": f"./check {pid} quick",
        "thorough_cmd": f"./check {pid} thorough",
        "evidence_file": f"evidence/{pid}.json",
        "replay_cmd_template": "./check replay {path}",
        "engine": "gosym",
        "level_claimed": {"category": "model_checking",
                          "text": "bounded symbolic execution of the real code's SSA (regenerated from /repo on every run); every harness assertion on every feasible path is an SMT query (path condition ∧ ¬assertion) that must be unsat. " + text,
                          "design_ref": "DESIGN.md " + ref},
        "level_note": TRUST + note,
        "technique": "SMT-based bounded symbolic execution of Go SSA (gosym + z3, QF_ABV)",
    })

m = {
 "version": 1,
 "setup_cmd": "cd /verif/engine && GOFLAGS=-mod=mod GOPROXY=off go build -o /verif/bin/gosym ./cmd/gosym && /verif/bin/gosym selftest",
 "hooks": {
  "guard": "verif",
  "enable": "none needed: harnesses are injected into the package under test through go/packages overlays (symbolic run) and go test -overlay (native replay); nothing is added to /repo",
  "baseline_off_cmd": "cd /repo && go test -mod=mod -json -vet=off -count=1 -timeout 25m ./...",
  "source_commits": [],
  "add_only": True,
 },
 "engines": [{"name": "gosym", "path": "engine", "serves_properties": sorted(claimed),
              "kind_free_text": "symbolic interpreter for go/ssa (SSA rebuilt from /repo on every run) + z3 over a persistent pipe; decision-prefix DFS; cooperative goroutine scheduler with virtual time; native replay of counterexamples and of sampled paths"}],
 "checks": checks,
 "not_applicable": [{"property_id": k, "reason": v} for k, v in sorted(na.items())],
 "notes": "Known findings and fixed defects: known_findings.json. Repairs in /repo are the commits whose message starts with 'fix:'.",
}
json.dump(m, open('/verif/MANIFEST.json', 'w'), indent=1, ensure_ascii=False)
print(len(checks), "checks;", len(na), "not applicable")
