#!/bin/bash
# usage: mut.sh <patch.diff> <check-id>...   — quick developer loop: apply a patch to a scratch
# worktree of /repo HEAD and run the given checks (quick tier) against it.
export GOFLAGS=-mod=mod GOPROXY=off
patch=$1; shift
WT=/tmp/mutwt-$$
git -C /repo worktree add --detach $WT HEAD >/dev/null 2>&1 || exit 2
if ! git -C $WT apply $patch 2>/dev/null; then
  if ! (cd $WT && patch -p1 --fuzz=3 -s < $patch); then echo "PATCH DOES NOT APPLY: $patch"; git -C /repo worktree remove --force $WT; exit 2; fi
fi
(cd $WT && go build ./... ) || { echo "patched tree does not build"; git -C /repo worktree remove --force $WT; exit 2; }
for id in "$@"; do
  VERIF_REPO_DIR=$WT VERIF_OUT_DIR=/tmp/mutout-$$ timeout 3000 /verif/check $id ${TIER:-quick} > /tmp/mut-$$-$id.log 2>&1
  rc=$?
  echo "$(basename $(dirname $patch))/$(basename $(dirname $(dirname $patch))) check $id: rc=$rc $(grep -m2 -E '^VIOLATION|confirmed natively' /tmp/mut-$$-$id.log | tr '\n' ' ' | cut -c1-300)"
  [ $rc -ne 0 ] && [ $rc -ne 1 ] && tail -5 /tmp/mut-$$-$id.log
done
git -C /repo worktree remove --force $WT >/dev/null 2>&1
rm -rf /tmp/mutout-$$ $WT
