#!/bin/sh
# developer helper: run every registered check at the given tier, one after another
tier=${1:-quick}
cd /verif
for id in $(python3 -c "import json;print(' '.join(c['property_id'] for c in json.load(open('MANIFEST.json'))['checks']))"); do
  s=$(date +%s)
  rm -f evidence/$id.json
  VERIF_SEED=1 VERIF_TIER=$tier timeout 3000 ./check $id $tier > /tmp/verif-$tier-$id.log 2>&1
  rc=$?
  e=$(date +%s)
  echo "$id rc=$rc $((e-s))s $(grep -c '^VIOLATION' /tmp/verif-$tier-$id.log) violations; $(tail -1 /tmp/verif-$tier-$id.log | cut -c1-120)"
done
