#!/bin/bash
# usage: seed_eval.sh <PROP> <mN> [check-ids...]
# Confirms a sub-agent's seeded change in a scratch worktree (applies cleanly, builds,
# demo fails with it and passes without it, the suite still passes), then runs the
# given checks (default: the property's own) against the patched worktree via
# VERIF_REPO_DIR, and files the result under /verif/seeded/<PROP>-<mN>/.
set -u
export GOFLAGS=-mod=mod GOPROXY=off
P=$1; M=$2; shift 2
CHECKS=${*:-${P:0:3}}
SRC=/tmp/seed/out/$P/$M
WT=/tmp/seedchk/$P-$M
OUT=/verif/seeded/$P-$M
[ -f $SRC/patch.diff ] || { echo "no patch in $SRC"; exit 2; }
mkdir -p /tmp/seedchk $OUT
git -C /repo worktree remove --force $WT >/dev/null 2>&1
git -C /repo worktree add --detach $WT HEAD >/dev/null 2>&1 || { echo "worktree failed"; exit 2; }
place=$(grep -m1 -o 'place in: *[^ ]*' $SRC/demo_test.go | sed 's/place in: *//')
[ -z "$place" ] && place=.
demo=$WT/$place/zz_seed_demo_test.go
cp $SRC/demo_test.go $demo
tests=$(grep -o '^func Test[A-Za-z0-9_]*' $SRC/demo_test.go | sed 's/func //' | paste -sd'|')
cd $WT
clean_demo=$(go test -vet=off -count=1 -run "^($tests)\$" ./$place 2>&1 | tail -3 | tr '\n' ' ')
PATCH=$SRC/patch.diff
[ -f $SRC/patch.rebased.diff ] && PATCH=$SRC/patch.rebased.diff
if ! git apply $PATCH 2>/dev/null; then
  patch -p1 --fuzz=3 -s < $PATCH || { echo "patch does not apply"; exit 2; }
  find . -name '*.orig' -delete
  git diff > /tmp/seedchk/$P-$M.rebased.diff
  PATCH=/tmp/seedchk/$P-$M.rebased.diff
fi
go build ./... || { echo "patched tree does not build"; exit 2; }
patched_demo=$(go test -vet=off -count=1 -run "^($tests)\$" ./$place 2>&1 | tail -3 | tr '\n' ' ')
rm -f $demo
suite=""
failing=$(go test -vet=off -count=1 ./... 2>&1 | grep -E '^--- FAIL' | grep -v 'TestDialerGetDialFunc' | sed 's/--- FAIL: \([A-Za-z0-9_]*\).*/\1/' | sort -u | paste -sd'|')
if [ -n "$failing" ]; then
  # timing flakes under load: re-run just those tests, serially, and keep what still fails
  suite=$(go test -vet=off -count=1 -p 1 -run "^($failing)\$" ./... 2>&1 | grep -E '^--- FAIL' | grep -v 'TestDialerGetDialFunc' | tr '\n' ' ')
fi
echo "demo clean:   $clean_demo"
echo "demo patched: $patched_demo"
echo "suite fails with patch (beyond offline no_proxy): ${suite:-none}"
results=""
for id in $CHECKS; do
  cd /verif
  VERIF_REPO_DIR=$WT VERIF_OUT_DIR=/tmp/seedchk/ev-$P-$M timeout 3000 ./check $id quick > /tmp/seedchk/$P-$M-$id.log 2>&1
  rc=$?
  v=$(grep -c '^VIOLATION' /tmp/seedchk/$P-$M-$id.log)
  echo "check $id quick on patched tree: rc=$rc violations=$v  $(grep -m1 '^VIOLATION' /tmp/seedchk/$P-$M-$id.log)"
  results="$results $id:rc=$rc:viol=$v"
done
cp $PATCH $OUT/patch.diff
cp $SRC/demo_test.go $OUT/demo_test.go
[ -f $SRC/NOTES.md ] && cp $SRC/NOTES.md $OUT/NOTES.md
python3 - "$P" "$M" "$clean_demo" "$patched_demo" "${suite:-none}" "$results" <<'PY'
import json,sys
P,M,cd,pd,suite,res=sys.argv[1:7]
meta={"property":P[:3],"round":P[3:] or "r1","mutation":M,"demo_on_clean_tree":cd,"demo_on_patched_tree":pd,
      "suite_failures_with_patch_beyond_offline_no_proxy":suite,
      "checks_run_quick":res.split(),
      "ran":"tools/seed_eval.sh: scratch worktree, git apply patch.diff, go build ./..., demo test with and without the patch, go test ./... with the patch, then ./check <id> quick with VERIF_REPO_DIR=<patched worktree>"}
json.dump(meta,open(f"/verif/seeded/{P}-{M}/meta.json","w"),indent=1)
PY
cd /verif
git -C /repo worktree remove --force $WT >/dev/null 2>&1
rm -rf $WT /tmp/seedchk/ev-$P-$M
