#!/usr/bin/env python3
"""Write /tmp/seed/<ID>.prompt.md: the brief handed to an independent sub-agent
(property text only — nothing from /verif)."""
import json, sys, os
ids = sys.argv[1:]
SUF = os.environ.get('SEED_SUFFIX', '')
props = {json.loads(l)['id']: json.loads(l) for l in open('/verif/properties.jsonl')}
for pid in ids:
    p = props[pid]
    wt = f'/tmp/seed/{pid}{SUF}'
    txt = f"""# Task: seed a subtle, property-breaking change into a Go library

You are working in a scratch git worktree of the Go library valyala/fasthttp at `{wt}`
(do all your work there; never touch `/repo` or `/verif`, and do not read anything under `/verif`).
The sandbox is offline. Use these env vars for every go command:
`export GOFLAGS=-mod=mod GOPROXY=off` (do NOT set GOSUMDB or GOTOOLCHAIN).
Never use `git stash` (the stash is shared with other worktrees of the same repository and other people are working in those);
to get back to the clean tree use `git checkout -- . && git clean -fdq` inside your worktree only.
Other jobs share this machine: if a timing-sensitive test flakes, re-run that test alone before concluding anything.

## The property (this is all you are given)

**{p['id']} — {p['title']}**

Statement: {p['statement']}

Quantified over: {p['quantifier']['text']}

Why the existing tests cannot settle it: {p['why_tests_cant']}

Code anchors: {json.dumps(p['anchors'].get('mechanism', []))}

## What to produce

Produce **two different** changes (mutations) to the library source (non-test `.go` files) such that each one:

1. **breaks the property above** (a realistic bug: an off-by-one, a missing reset, a dropped check, a wrong
   condition, a reordered pair of statements, a lost wake-up, two sites that each look fine alone …);
2. **still compiles** and **still passes the existing test suite**: `cd {wt} && go test -vet=off -count=1 ./...`
   must give the same result as on the unmodified tree (note: on the unmodified tree a few
   `fasthttpproxy` `TestDialerGetDialFunc/*no_proxy*` sub-tests fail because there is no network; that is expected;
   everything else passes). Run the suite at least twice for changes that touch concurrency;
3. needs **something specific to manifest** — a particular input shape, an unusual option combination, a multi-step
   sequence of operations, a particular interleaving or fault point, or two cooperating sites — NOT something ordinary
   use would expose at once. Prefer small diffs (1–15 lines) in the code the anchors point at;
4. comes with a **demonstration**: a Go test file (in-package `_test.go`, new file) that FAILS with the change
   applied and PASSES on the unmodified tree. Keep it deterministic and fast (<10 s).

The two mutations must be independent alternatives (each applied alone to the clean tree), and should
break the property through different mechanisms / different code sites.

## Deliverables (write exactly these files)

* `/tmp/seed/out/{pid}{SUF}/m1/patch.diff`  — `git diff` of the library change only (no test file in it), applies with `git apply` to the clean tree
* `/tmp/seed/out/{pid}{SUF}/m1/demo_test.go` — the demonstration test (state at the top, in a comment, which package directory it belongs in, e.g. `// place in: .` or `// place in: fasthttputil`)
* `/tmp/seed/out/{pid}{SUF}/m1/NOTES.md` — 5–15 lines: what was changed, why it breaks the property, what it needs to manifest, the exact commands you ran and their outcome (suite with patch: pass; demo with patch: fail; demo without patch: pass)
* the same three files under `/tmp/seed/out/{pid}{SUF}/m2/`

Before finishing: verify each patch from a clean state (`git -C {wt} checkout -- . && git -C {wt} clean -fdq`, then
`git -C {wt} apply <patch>`), run the whole suite and the demo, then restore the clean state again. Leave the worktree clean
(no modified or untracked files) when you are done. Your final message should be a 5-line summary of the two mutations.
"""
    os.makedirs('/tmp/seed/out', exist_ok=True)
    open(f'/tmp/seed/{pid}{SUF}.prompt.md', 'w').write(txt)
    print('wrote', f'/tmp/seed/{pid}{SUF}.prompt.md')
