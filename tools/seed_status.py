#!/usr/bin/env python3
"""Writes /verif/seeded/STATUS.md from the meta.json files (developer helper)."""
import json, os, re
root = '/verif/seeded'
rows = []
for d in sorted(os.listdir(root)):
    p = os.path.join(root, d)
    if not os.path.isdir(p) or not os.path.exists(p + '/meta.json'):
        continue
    m = json.load(open(p + '/meta.json'))
    notes = open(p + '/NOTES.md').read() if os.path.exists(p + '/NOTES.md') else ''
    first = ''
    for line in notes.splitlines():
        line = line.strip(' -*#')
        if len(line) > 30:
            first = line
            break
    det = [c for c in m.get('checks_run_quick', []) if ':rc=1:' in c]
    rows.append((d, m['property'], 'yes' if det else 'NO', 'yes' if m.get('caught_by_the_checks_as_they_were_when_the_change_was_written') else 'no',
                 m.get('suite_failures_with_patch_beyond_offline_no_proxy', ''), first[:160].replace('|', '/')))
with open(root + '/STATUS.md', 'w') as f:
    f.write('# Seeded changes\n\nWritten by independent sub-agents that were given only the text of one property and a scratch worktree.\n'
            'Each was confirmed with `tools/seed_eval.sh` (applies, builds, demonstration fails with it and passes without it,\n'
            'repository suite still passes) and run against the property\'s quick check through `VERIF_REPO_DIR=<patched worktree>`.\n\n'
            '| change | property | detected now | detected by the checks as they were when it was written | suite failures with the patch (beyond the offline ones) | what it is |\n|---|---|---|---|---|---|\n')
    for r in rows:
        f.write('| %s | %s | %s | %s | %s | %s |\n' % r)
    n = len(rows); d = sum(1 for r in rows if r[2] == 'yes'); e = sum(1 for r in rows if r[3] == 'yes')
    f.write('\n%d changes; %d detected by the current checks; %d were detected before the checks were extended.\n' % (n, d, e))
print(len(rows), 'rows')
